#!/bin/sh
# regenerate _CoqProject (explicit file list) and the Makefile
cd "$(dirname "$0")"
{
  echo "-Q theories SV"; echo "-Q generated SVG"; echo "-Q props SVP"
  echo "-arg -w -arg -notation-overridden,-deprecated-syntactic-definition,-deprecated-instance-without-locality"
  ls theories/*.v generated/*.v props/*.v 2>/dev/null
} > _CoqProject.new
if ! cmp -s _CoqProject.new _CoqProject || [ ! -f Makefile ]; then
  mv _CoqProject.new _CoqProject
  coq_makefile -f _CoqProject -o Makefile
else
  rm -f _CoqProject.new
fi
