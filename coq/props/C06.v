(* Property C06 — reported powers and SoCs balance.
   PARTIAL.  Proved: the reported connector power is max(-rating, sum of ALL entries of the load
   dictionary) — i.e. the sum of the reported component powers with feed-in curtailed at the
   rating, and exactly that sum whenever it is >= -rating; self-discharge only lowers the SoC
   and never below zero; per (dis)charge call the stored energy changes by power x time x
   efficiency (C01_load / C01_unload).  The run-loop and loss models are tied to /repo by
   exact correspondence.
   NOT proved: that each strategy persists exactly the powers it reports (look-ahead on real
   objects restored afterwards) — checked per step on recorded exact runs of all strategies by
   the Python predicate (classes C06/vehicle-energy, C06/battery-energy, ...). *)
From Coq Require Import Reals List.
From SV Require Import Num RNum RunLoop RunLoopProps Kernel KernelProps.
Open Scope R_scope.

Theorem C06_gc_sum : forall (g:@gcobs R),
  @gc_load R RNum g = Rmax (- g_max g) (Rsum (map l_val (g_loads g))).
Proof. exact gc_load_is_sum. Qed.
Print Assumptions C06_gc_sum.
Theorem C06_gc_sum_plain : forall (g:@gcobs R), - g_max g <= Rsum (map l_val (g_loads g)) ->
  @gc_load R RNum g = Rsum (map l_val (g_loads g)).
Proof. exact gc_load_plain. Qed.
Print Assumptions C06_gc_sum_plain.
Theorem C06_losses : forall soc cap rel fr fa s', 0 < cap -> 0 <= soc -> 0 <= rel <= 100 -> 0 <= fr -> 0 <= fa ->
  @apply_losses R RNum soc cap rel fr fa = Ok s' -> 0 <= s' <= soc.
Proof. exact losses_bounds. Qed.
Print Assumptions C06_losses.
Theorem C06_losses_formula : forall soc cap rel fr fa, cap <> 0 ->
  @apply_losses R RNum soc cap rel fr fa = Ok (Rmax (soc * (1 - rel / 100) - fr / 100 - fa / cap) 0).
Proof. exact losses_spec. Qed.
Print Assumptions C06_losses_formula.

(* booking a station's power at its connector (GridConnector.add_load, used by every strategy) raises the connector total
   by exactly the booked power, whether or not the station already had an entry; the returned command is the station's
   new total *)
From Coq Require Import String.
From SV Require Import Strat StratSum.
Theorem C06_add_load_total : forall (g:@gcon R) k v,
  @current_load R RNum (fst (@add_load R RNum g k v)) = @current_load R RNum g + v /\
  snd (@add_load R RNum g k v) = match Strat.lookup k (gc_loads g) with Some old => old + v | None => v end.
Proof. intros. split; [apply add_load_total|apply add_load_value]. Qed.
Print Assumptions C06_add_load_total.

(* ---- the executable (Q) instance that is run against /repo and the proof (R) instance agree (Transfer*.v) ---- *)
From Coq Require Import QArith Qreals.
From Param Require Import Param.
From SV Require Import Transfer TransferK TransferAll.
Theorem C06_exec_losses_is_proof_model : forall tbl soc cap rel fr fa,
  @apply_losses R RNum (Q2R soc) (Q2R cap) (Q2R rel) (Q2R fr) (Q2R fa) = mapres Q2R (@apply_losses Q (QNum tbl) soc cap rel fr fa).
Proof. exact apply_losses_transfer. Qed.
Print Assumptions C06_exec_losses_is_proof_model.
Theorem C06_exec_run_is_proof_model : forall tbl eps steps steps', list_R _ _ (SV_o_RunLoop_o_stepobs_R Q R QR) steps steps' ->
  prod_R _ _ (list_R _ _ (SV_o_RunLoop_o_row_R Q R QR)) _ _ bool_R (@RunLoop.run Q (QNum tbl) eps steps) (@RunLoop.run R RNum (Q2R eps) steps').
Proof. exact run_transfer. Qed.
Print Assumptions C06_exec_run_is_proof_model.
From SV Require Import ExecProps.
Theorem C06_exec_losses_bounds : forall tbl soc cap rel fr fa s',
  (0 < cap)%Q -> (0 <= soc)%Q -> (0 <= rel)%Q -> (rel <= 100)%Q -> (0 <= fr)%Q -> (0 <= fa)%Q ->
  @apply_losses Q (QNum tbl) soc cap rel fr fa = Ok s' -> (0 <= s')%Q /\ (s' <= soc)%Q.
Proof. exact losses_exec_bounds. Qed.
Print Assumptions C06_exec_losses_bounds.
