(* Property C10 — greedy and balanced follow their documented rule exactly.
   PARTIAL.  Proved on the model of the per-vehicle decision (Strat.vehicle_charge, R instance), for all states:
   - greedy, normal price, desired SoC reached (within EPS): nothing is charged;
   - greedy, normal price, vehicle in need: exactly one battery request whose target power is
     clamp_power(min(power needed to reach the desired SoC in this step, remaining connector power + supporting
     stationary-battery power)); it is >= 0, at most the station's remaining rating, at most the power needed (so the
     request aims at or below the desired SoC — C09_greedy_request) and at most the available power;
   - greedy, cheap price: one request limited to clamp_power(remaining connector power), at most the station's remaining
     rating and the remaining connector power;
   - balanced, normal price, in need, k = ceil(time to departure / interval) > 0: target power
     clamp_power(min(power needed / k, remaining connector power)) — never more than the even share.
   The model is tied to /repo by the exact per-step correspondence of ./check C10 (commands, SoCs, loads of every
   sampled recorded step).  NOT proved: a refinement of the whole strategy_step (surplus distribution, stationary
   batteries, dictionary bookkeeping) to an independent specification; the rule's consequences for those parts are
   evaluated on the recorded steps. *)
From Coq Require Import ZArith Reals.
From SV Require Import Num RNum Battery Strat Service StratProps.
Open Scope R_scope.

Theorem C10_greedy_idle : forall o v cs left av, vh_desired v - soc (vh_bat v) <= so_eps o ->
  @vehicle_charge R RNum SGreedy o v cs left av false = Ok (vh_bat v, 0, false).
Proof. exact greedy_idle. Qed.
Print Assumptions C10_greedy_idle.

Theorem C10_greedy_request : forall o v cs left av r, so_eps o < vh_desired v - soc (vh_bat v) -> eff (vh_bat v) <> 0 -> 0 <= so_eps o ->
  0 <= cap (vh_bat v) -> 0 < eff (vh_bat v) -> 0 <= so_tsph o ->
  @vehicle_charge R RNum SGreedy o v cs left av false = r ->
  let pn := (vh_desired v - soc (vh_bat v)) * cap (vh_bat v) / eff (vh_bat v) * so_tsph o in
  let p := clampv v cs (Rmin pn (left + av)) in
  r = (let! (b', a, _) := @load R RNum (vh_bat v) (so_hours o) None (TPower p) in Ok (b', a, true)) /\
  0 <= p /\ p <= Rmax (cs_maxp cs - cs_cur cs) 0 /\ p <= pn /\ (0 <= left + av -> p <= left + av).
Proof. exact greedy_request. Qed.
Print Assumptions C10_greedy_request.

Theorem C10_greedy_cheap : forall o v cs left av,
  @vehicle_charge R RNum SGreedy o v cs left av true =
    (let! (b', a, _) := @load R RNum (vh_bat v) (so_hours o) (Some (clampv v cs left)) TNone in Ok (b', a, false)) /\
  0 <= clampv v cs left <= Rmax (cs_maxp cs - cs_cur cs) 0 /\ (0 <= left -> clampv v cs left <= left).
Proof. exact greedy_cheap. Qed.
Print Assumptions C10_greedy_cheap.

Theorem C10_balanced_request : forall o v cs left av etd r, so_eps o < vh_desired v - soc (vh_bat v) -> 0 < eff (vh_bat v) -> 0 <= so_eps o ->
  0 <= cap (vh_bat v) -> 0 <= so_tsph o -> vh_etd v = Some etd -> (0 < steps_left (etd - so_now o) (so_interval o))%Z ->
  @vehicle_charge R RNum SBalanced o v cs left av false = r ->
  let k := steps_left (etd - so_now o) (so_interval o) in
  let q := (vh_desired v - soc (vh_bat v)) * cap (vh_bat v) / eff (vh_bat v) * so_tsph o / IZR k in
  let p := clampv v cs (Rmin q left) in
  r = (let! (b', a, _) := @load R RNum (vh_bat v) (so_hours o) None (TPower p) in Ok (b', a, true)) /\
  0 <= p /\ p <= Rmax (cs_maxp cs - cs_cur cs) 0 /\ p <= q /\ (0 <= left -> p <= left).
Proof. exact balanced_request. Qed.
Print Assumptions C10_balanced_request.

(* the clamp_power model used above IS the translated source of util.clamp_power (generated/Src.v is regenerated
   from /repo on every run; a change of the function's text breaks this obligation) *)
From SV Require Import Kernel Tie.
From SVG Require Import Src.
Theorem C10_clamp_power_is_source : forall power cs_cur cs_max cs_min veh_min : R,
  @clamp_power_src R RNum power cs_cur cs_max cs_min veh_min = @clamp_power R RNum power cs_cur cs_max cs_min veh_min.
Proof. intros. apply clamp_power_is_source. Qed.
Print Assumptions C10_clamp_power_is_source.

(* ---- the executable (Q) instance that is run against /repo and the proof (R) instance agree (Transfer*.v) ---- *)
From Coq Require Import QArith Qreals.
From Param Require Import Param.
From SV Require Import Transfer TransferAll.
Theorem C10_exec_strategy_step_transfer : forall tbl s o o' w w',
  SV_o_Strat_o_sopts_R Q R QR o o' -> SV_o_Strat_o_sworld_R Q R QR w w' ->
  res_R _ _ (prod_R _ _ (SV_o_Strat_o_sworld_R Q R QR) _ _ (list_R _ _ (prod_R _ _ string_R Q R QR)))
    (@strategy_step Q (QNum tbl) s o w) (@strategy_step R (RNumT tbl) s o' w').
Proof. exact strategy_step_transfer. Qed.
Print Assumptions C10_exec_strategy_step_transfer.
