From SV Require Import Num Strat.
Theorem placeholder : True. Proof. exact I. Qed.
Print Assumptions placeholder.
