(* Property C20 — trip-table vehicle assignment is conflict-free and frugal.
   Model: theories/Assign.v (generate_from_csv.assign_vehicle_id), tied to /repo by the
   exact correspondence of ./check C20.  Statements only; proofs in theories/AssignProps.v.
   Theorems are about the processing sequence (trips in stable departure order, as
   [assign] runs them, see C20_assign_structure); [o1] is the part of the output produced
   before trip [t] gets vehicle [v]. *)
From Coq Require Import ZArith List String Sorted Permutation Lia.
From SV Require Import Assign AssignProps.
Import ListNotations.
Open Scope Z_scope.

(* consecutive trips of a vehicle are separated by MORE than the minimum standing time
   (hence, for non-negative standing times, they do not overlap) *)
Theorem C20_min_standing : forall st types ts s' vs o1 t v o2 t0,
  dep_sorted ts -> run_gen (step st) (init types) ts = Some (s', vs) ->
  combine ts vs = (o1 ++ (t,v) :: o2)%list -> In (t0,v) o1 ->
  dep t > arr t0 + st (ty t0).
Proof.
  intros st types ts s' vs o1 t v o2 t0 Hs H E Hin.
  destruct (run_from_init st types ts s' vs Hs H) as (_ & F).
  destruct (F o1 t v o2 E) as (_ & F2 & _). specialize (F2 t0 Hin). unfold busy in F2. apply Z.lt_gt. exact F2.
Qed.
Print Assumptions C20_min_standing.

Theorem C20_no_overlap : forall st types ts s' vs o1 t v o2 t0,
  (forall k, 0 <= st k) ->
  dep_sorted ts -> run_gen (step st) (init types) ts = Some (s', vs) ->
  combine ts vs = (o1 ++ (t,v) :: o2)%list -> In (t0,v) o1 ->
  dep t > arr t0.
Proof.
  intros st types ts s' vs o1 t v o2 t0 Hst Hs H E Hin.
  pose proof (C20_min_standing st types ts s' vs o1 t v o2 t0 Hs H E Hin). specialize (Hst (ty t0)).
  apply Z.lt_gt. apply Z.le_lt_trans with (arr t0 + st (ty t0)); [|apply Z.gt_lt; assumption].
  rewrite <- (Z.add_0_r (arr t0)) at 1. apply Z.add_le_mono_l. exact Hst.
Qed.
Print Assumptions C20_no_overlap.

(* a vehicle only serves trips of its own type *)
Theorem C20_type_pure : forall st types ts s' vs o1 t v o2,
  dep_sorted ts -> run_gen (step st) (init types) ts = Some (s', vs) ->
  combine ts vs = (o1 ++ (t,v) :: o2)%list -> fst v = ty t.
Proof.
  intros st types ts s' vs o1 t v o2 Hs H E.
  destruct (run_from_init st types ts s' vs Hs H) as (_ & F). destruct (F o1 t v o2 E) as (F1 & _). exact F1.
Qed.
Print Assumptions C20_type_pure.

(* a NEW vehicle is created only when every existing vehicle of that type is still busy
   (last arrival + standing time >= this departure), i.e. none is idle *)
Theorem C20_frugal : forall st types ts s' vs o1 t v o2,
  dep_sorted ts -> run_gen (step st) (init types) ts = Some (s', vs) ->
  combine ts vs = (o1 ++ (t,v) :: o2)%list -> (forall t0, ~ In (t0,v) o1) ->
  forall t0 v0, In (t0,v0) o1 -> fst v0 = ty t -> exists t1, In (t1,v0) o1 /\ dep t <= arr t1 + st (ty t1).
Proof.
  intros st types ts s' vs o1 t v o2 Hs H E Hnew.
  destruct (run_from_init st types ts s' vs Hs H) as (_ & F). destruct (F o1 t v o2 E) as (_ & _ & F3).
  exact (F3 Hnew).
Qed.
Print Assumptions C20_frugal.

(* every trip gets a vehicle (given its type is known): one id per trip *)
Theorem C20_one_id_per_trip : forall st types ts s' vs,
  dep_sorted ts -> run_gen (step st) (init types) ts = Some (s', vs) -> List.length vs = List.length ts.
Proof. intros st types ts s' vs Hs H. destruct (run_from_init st types ts s' vs Hs H) as (L & _). exact L. Qed.
Print Assumptions C20_one_id_per_trip.

(* the function the harness compares with /repo is: stable sort by departure, the run above,
   ids put back in input order *)
Theorem C20_assign_structure : forall st types input out, assign st types input = Some out ->
  let sorted := sort_trips (number 0 input) in
  exists s' vs, run_gen (step st) (init types) (map snd sorted) = Some (s', vs) /\
    dep_sorted (map snd sorted) /\ Permutation sorted (number 0 input) /\
    out = map snd (fold_right nins [] (combine (map fst sorted) vs)).
Proof. exact assign_unfold. Qed.
Print Assumptions C20_assign_structure.

(* selection among idle vehicles is first-in-first-out in the order they became idle *)
Theorem C20_first_idle_first : forall m idl e r, take_first m idl = Some (e, r) ->
  exists l1 l2, idl = (l1 ++ e :: l2)%list /\ r = (l1 ++ l2)%list /\ m (snd e) = true /\
    Forall (fun x => m (snd x) = false) l1.
Proof. exact take_first_some. Qed.
Print Assumptions C20_first_idle_first.

(* ... and the idle list itself is ordered by the time the vehicles became available (for trips that arrive no earlier
   than they depart and non-negative standing times): first match in this list = the matching vehicle that has been
   idle longest — the "first in, first out" principle *)
From SV Require Import AssignFifo.
Theorem C20_idle_list_fifo : forall (st:string -> Z), (forall t, 0 <= st t) ->
  forall types ts s' vs, dep_sorted ts -> Forall (fun t => dep t <= arr t) ts ->
  run_gen (step st) (init types) ts = Some (s', vs) -> sortedE (idle s').
Proof.
  intros st Hst types ts s' vs Hs HF H.
  destruct ts as [|t0 ts0].
  - cbn in H. injection H as <- _. cbn. constructor.
  - eapply (idle_fifo_order st Hst (t0 :: ts0) (init types) (dep t0)); [apply J_init|exact Hs| |exact H].
    apply Sorted.StronglySorted_inv in Hs. destruct Hs as [_ Hs2].
    constructor; [split; [lia|inversion HF; assumption]|].
    rewrite Forall_forall in *. intros x Hx. split; [apply Hs2, Hx|apply HF; right; exact Hx].
Qed.
Print Assumptions C20_idle_list_fifo.

(* The pinned upstream revision violates type purity (D3a) and frugality/FIFO (D3b). *)
Theorem C20_type_pure_refuted :
  assign_orig st0 ["bus"; "minibus"]%string d3a_trips = Some [("minibus"%string,1%nat); ("minibus"%string,1%nat)].
Proof. exact orig_type_impure. Qed.
Print Assumptions C20_type_pure_refuted.
Theorem C20_frugal_refuted : assign_orig st0 ["bus"%string] d3b_trips =
  Some [("bus"%string,1%nat); ("bus"%string,2%nat); ("bus"%string,3%nat); ("bus"%string,2%nat); ("bus"%string,4%nat)].
Proof. exact orig_not_frugal. Qed.
Print Assumptions C20_frugal_refuted.

(* Non-vacuity: the repaired model on the two witness tables *)
Example C20_fixed_on_witnesses :
  assign st0 ["bus"; "minibus"]%string d3a_trips = Some [("minibus"%string,1%nat); ("bus"%string,1%nat)] /\
  assign st0 ["bus"%string] d3b_trips =
    Some [("bus"%string,1%nat); ("bus"%string,2%nat); ("bus"%string,3%nat); ("bus"%string,1%nat); ("bus"%string,2%nat)].
Proof. split; [exact fixed_type_pure_witness | exact fixed_frugal_witness]. Qed.
