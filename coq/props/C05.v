(* Property C05 — charging-station and vehicle power limits hold for every command.
   PARTIAL.  Proved: util.clamp_power (the function through which every strategy sizes a
   station's power) returns a non-negative power within the station's remaining headroom and
   the offered power, respects station and vehicle minimum power when positive, is monotone;
   the run loop flags any step in which a station exceeds its (concurrency-scaled) maximum
   (C04_reported_steps_valid, whose [valid] includes |station power| <= max + EPS).
   NOT proved: that every strategy routes every command through clamp_power, 'only a station
   with a connected vehicle carries power', 'no discharge without V2G' and the vehicle-curve
   bound — Python predicates on every step of recorded exact runs of all eight strategies. *)
From Coq Require Import Reals.
From SV Require Import Num RNum Kernel KernelProps.
Open Scope R_scope.

Theorem C05_clamp_nonneg : forall p cur mx mn vm, 0 <= @clamp_power R RNum p cur mx mn vm.
Proof. exact clamp_nonneg. Qed.
Print Assumptions C05_clamp_nonneg.
Theorem C05_clamp_le_headroom : forall p cur mx mn vm, @clamp_power R RNum p cur mx mn vm <= Rmax (mx - cur) 0.
Proof. exact clamp_le_headroom. Qed.
Print Assumptions C05_clamp_le_headroom.
Theorem C05_clamp_le_power : forall p cur mx mn vm, 0 <= p -> @clamp_power R RNum p cur mx mn vm <= p.
Proof. exact clamp_le_power. Qed.
Print Assumptions C05_clamp_le_power.
Theorem C05_clamp_positive_respects_min : forall p cur mx mn vm, 0 < @clamp_power R RNum p cur mx mn vm ->
  mn <= cur + @clamp_power R RNum p cur mx mn vm /\ vm <= cur + @clamp_power R RNum p cur mx mn vm /\
  cur + @clamp_power R RNum p cur mx mn vm <= mx.
Proof. exact clamp_positive_respects_min. Qed.
Print Assumptions C05_clamp_positive_respects_min.
Theorem C05_clamp_mono : forall p1 p2 cur mx mn vm, p1 <= p2 ->
  @clamp_power R RNum p1 cur mx mn vm <= @clamp_power R RNum p2 cur mx mn vm.
Proof. exact clamp_mono. Qed.
Print Assumptions C05_clamp_mono.
Theorem C05_station_within_max : forall p cur mx mn vm, cur <= mx -> cur + @clamp_power R RNum p cur mx mn vm <= mx.
Proof. exact clamp_within_max. Qed.
Print Assumptions C05_station_within_max.

(* the clamp_power model used above IS the translated source of util.clamp_power (generated/Src.v is regenerated
   from /repo on every run; a change of the function's text breaks this obligation) *)
From SV Require Import Kernel Tie.
From SVG Require Import Src.
Theorem C05_clamp_power_is_source : forall power cs_cur cs_max cs_min veh_min : R,
  @clamp_power_src R RNum power cs_cur cs_max cs_min veh_min = @clamp_power R RNum power cs_cur cs_max cs_min veh_min.
Proof. intros. apply clamp_power_is_source. Qed.
Print Assumptions C05_clamp_power_is_source.

(* ---- the executable (Q) instance that is run against /repo and the proof (R) instance agree (Transfer*.v) ---- *)
From Coq Require Import QArith Qreals.
From SV Require Import Transfer TransferK ExecProps.
Theorem C05_exec_model_is_proof_model : forall tbl p cur mx mn vm,
  Q2R (@clamp_power Q (QNum tbl) p cur mx mn vm) = @clamp_power R RNum (Q2R p) (Q2R cur) (Q2R mx) (Q2R mn) (Q2R vm).
Proof. exact clamp_power_transfer. Qed.
Print Assumptions C05_exec_model_is_proof_model.
Theorem C05_exec_clamp_nonneg : forall tbl p cur mx mn vm, (0 <= @clamp_power Q (QNum tbl) p cur mx mn vm)%Q.
Proof. exact clamp_exec_nonneg. Qed.
Print Assumptions C05_exec_clamp_nonneg.
Theorem C05_exec_station_within_max : forall tbl p cur mx mn vm, (cur <= mx)%Q -> (cur + @clamp_power Q (QNum tbl) p cur mx mn vm <= mx)%Q.
Proof. exact clamp_exec_within_max. Qed.
Print Assumptions C05_exec_station_within_max.
Theorem C05_exec_clamp_le_power : forall tbl p cur mx mn vm, (0 <= p)%Q -> (@clamp_power Q (QNum tbl) p cur mx mn vm <= p)%Q.
Proof. exact clamp_exec_le_power. Qed.
Print Assumptions C05_exec_clamp_le_power.
Theorem C05_exec_positive_respects_min : forall tbl p cur mx mn vm, (0 < @clamp_power Q (QNum tbl) p cur mx mn vm)%Q ->
  (mn <= cur + @clamp_power Q (QNum tbl) p cur mx mn vm)%Q /\ (vm <= cur + @clamp_power Q (QNum tbl) p cur mx mn vm)%Q.
Proof. exact clamp_exec_positive_respects_min. Qed.
Print Assumptions C05_exec_positive_respects_min.
