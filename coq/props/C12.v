(* Property C12 — electricity costs follow the tariff rules of the price sheet.
   Model: theories/Costs.v (calculate_costs and its helpers for all seven schemes); tie: exact
   correspondence of the returned dictionary and the written "costs" section (./check C12).
   PARTIAL.  Proved (R instance, all series, sheets, schemes): tariff class and utilisation
   bracket selection; the composition net = commodity + capacity + procurement + additional +
   levies + concession + electricity tax, gross = net*(1+VAT) - feed-in; every energy-proportional
   term = rate*energy/100; annual value = period value / year fraction for all of them, capacity
   and basic charge taken as they are, additional costs = sheet value (RLM); repetition of a
   profile scales energy, keeps the peak and keeps energy-per-year / utilisation (hence class and
   bracket) unchanged.  ([i_vat] is value_added_tax/100 and [i_add_sim] additional_costs*fraction_year, which the
   code computes in plain floats from price-sheet numbers; they enter as inputs.)  The function has no date argument: costs cannot depend on absolute dates.
   NOT proved: the scheme-specific peak selection (windows, highest tariff, outside flex
   windows, schedule deviation) as separate statements, and repeat/halving invariance of the
   FINAL annual totals through all seven schemes — these are compared against the implementation
   (exact correspondence) and evaluated relationally on every generated case. *)
From Coq Require Import Reals List.
From SV Require Import Num RNum Costs CostsProps.
Import ListNotations.
Open Scope R_scope.

Theorem C12_tariff_class : forall (sh:@sheet R) ft util e,
  let f := snd (@find_prices R RNum sh ft util e) in
  (ft = Some RLM -> f = RLM) /\ (ft <> Some RLM -> (f = SLP <-> Rabs e <= 100000)).
Proof. exact tariff_class. Qed.
Print Assumptions C12_tariff_class.

Theorem C12_utilisation_bracket : forall (sh:@sheet R) ft util e, snd (@find_prices R RNum sh ft util e) = RLM ->
  (util < 2500 -> @find_prices R RNum sh ft util e = (lo_commodity sh, lo_capacity sh, RLM)) /\
  (2500 <= util -> @find_prices R RNum sh ft util e = (hi_commodity sh, hi_capacity sh, RLM)).
Proof. exact rlm_bracket. Qed.
Print Assumptions C12_utilisation_bracket.

Theorem C12_slp_prices : forall (sh:@sheet R) ft util e, snd (@find_prices R RNum sh ft util e) = SLP ->
  @find_prices R RNum sh ft util e = (slp_commodity sh, slp_basic sh, SLP).
Proof. exact slp_prices. Qed.
Print Assumptions C12_slp_prices.

(* every successful cost calculation ends in [finalize] applied to the period's grid energy *)
Theorem C12_structure : forall (sh:@sheet R) inp o, @calculate_costs R RNum sh inp = Ok o ->
  exists e mx pk cpy csim cap f pv, @finalize R RNum sh inp e mx pk cpy csim cap f pv = Ok o /\
    Rdivr (@nsum R RNum (pos_supply (i_supply inp)) * i_secs inp) c3600 = Ok e /\
    (is_variable (i_cc inp) = false -> pv = None).
Proof. exact costs_finalize. Qed.
Print Assumptions C12_structure.

Theorem C12_composition_and_annualisation : forall (sh:@sheet R) inp e mx pk cpy csim cap f pv o,
  @finalize R RNum sh inp e mx pk cpy csim cap f pv = Ok o ->
  o_commodity_sim o = csim /\ o_commodity_py o = cpy /\ o_capacity o = cap /\ o_fee o = f /\ o_energy_sim o = e /\
  o_net_sim o = o_commodity_sim o + o_capacity o + o_procurement_sim o + o_additional_sim o
                + sumR (o_levies_sim o) + o_concession_sim o + o_etax_sim o /\
  o_net_py o = (o_net_sim o - o_capacity o) / i_fy inp + o_capacity o /\
  o_vat_sim o = i_vat inp * o_net_sim o /\ o_vat_py o = i_vat inp * o_net_py o /\
  o_total_sim o = o_net_sim o + o_vat_sim o - sumR (o_feedin_sim o) /\
  o_total_py o = o_net_py o + o_vat_py o - sumR (o_feedin_py o) /\
  i_fy inp <> 0 /\
  o_levies_sim o = [eeg sh * e / 100; chp sh * e / 100; indiv sh * e / 100; offshore sh * e / 100; interruptible sh * e / 100] /\
  o_levies_py o = map (fun x => x / i_fy inp) (o_levies_sim o) /\
  o_concession_sim o = concession sh * e / 100 /\ o_concession_py o = o_concession_sim o / i_fy inp /\
  o_etax_sim o = etax sh * e / 100 /\ o_etax_py o = o_etax_sim o / i_fy inp /\
  o_procurement_py o = o_procurement_sim o / i_fy inp /\
  (pv = None -> o_procurement_sim o = procurement sh * e / 100) /\
  o_additional_py o = (match f with RLM => additional sh | SLP => 0 end) /\
  o_additional_sim o = (match f with RLM => i_add_sim inp | SLP => 0 end).
Proof. exact finalize_composition. Qed.
Print Assumptions C12_composition_and_annualisation.

Theorem C12_repeat_energy_peak : forall k (l:list R) secs fy, (0 < k)%nat -> fy <> 0 ->
  let e := @nsum R RNum l * secs / 3600 in
  let e' := @nsum R RNum (rep k l) * secs / 3600 in
  e' = INR k * e /\ e' / (INR k * fy) = e / fy /\ @maxl0 R RNum (rep k l) = @maxl0 R RNum l.
Proof. exact repeat_energy_peak. Qed.
Print Assumptions C12_repeat_energy_peak.

(* ---- the executable (Q) instance that is run against /repo and the proof (R) instance agree (Transfer*.v) ---- *)
From Coq Require Import QArith Qreals.
From Param Require Import Param.
From SV Require Import Transfer TransferAll.
Theorem C12_exec_costs_is_proof_model : forall tbl sh sh' inp inp',
  SV_o_Costs_o_sheet_R Q R QR sh sh' -> SV_o_Costs_o_inputs_R Q R QR inp inp' ->
  res_R _ _ (SV_o_Costs_o_outputs_R Q R QR) (@calculate_costs Q (QNum tbl) sh inp) (@calculate_costs R RNum sh' inp').
Proof. exact calculate_costs_transfer. Qed.
Print Assumptions C12_exec_costs_is_proof_model.
Theorem C12_exec_every_input_has_a_real_counterpart : forall (sh:@sheet Q) (inp:@inputs Q),
  { sh' : @sheet R & SV_o_Costs_o_sheet_R Q R QR sh sh' } * { inp' : @inputs R & SV_o_Costs_o_inputs_R Q R QR inp inp' }.
Proof. intros sh inp. exact (sheet_total sh, inputs_total inp). Qed.
Print Assumptions C12_exec_every_input_has_a_real_counterpart.
From SV Require Import ExecProps.
(* the executable find_prices itself classifies by the 100 000 kWh/a boundary *)
Theorem C12_exec_tariff_class : forall tbl (sh:@sheet Q) ft util e,
  let f := snd (@find_prices Q (QNum tbl) sh ft util e) in
  (ft = Some RLM -> f = RLM) /\ (ft <> Some RLM -> (f = SLP <-> (-(100000) <= e)%Q /\ (e <= 100000)%Q)).
Proof. exact tariff_class_exec. Qed.
Print Assumptions C12_exec_tariff_class.
