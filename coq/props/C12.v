From SV Require Import Num Costs.
Theorem placeholder : True. Proof. exact I. Qed.
Print Assumptions placeholder.
