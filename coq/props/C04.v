(* Property C04 — grid-connector power limit is never exceeded.
   PARTIAL.  Proved, for ANY strategy (the strategy is abstract in theories/RunLoop.v): a step
   whose connector or station power leaves its limit is never reported as valid — every
   reported step but the last is within +-(limit+EPS), the run stops at the first invalid step
   and is flagged aborted; the current limit never exceeds the rating and a signalled limit
   yields min(rating, limit).  The run-loop model is tied to Scenario.run for all eight
   strategies by exact correspondence on recorded runs.
   NOT proved: 'no strategy's decisions break the limit when fixed load and generation respect
   it' — evaluated by a Python predicate on every step of every recorded exact run (all eight
   strategies; classes C04/strategy-breaks-limit/<strategy>); sampled, not a theorem. *)
From Coq Require Import Reals List Bool.
From SV Require Import Num RNum RunLoop RunLoopProps Kernel KernelProps.
Import ListNotations.
Open Scope R_scope.

Theorem C04_reported_steps_valid : forall eps steps,
  (@aborted R RNum eps steps = false -> Forall (valid eps) steps /\ fst (@run R RNum eps steps) = map mk_row steps) /\
  (@aborted R RNum eps steps = true -> exists pre s post, steps = pre ++ s :: post /\ Forall (valid eps) pre /\
      ~ valid eps s /\ fst (@run R RNum eps steps) = map mk_row pre ++ [mk_row s]).
Proof. exact reported_steps_valid. Qed.
Print Assumptions C04_reported_steps_valid.

(* what 'valid' means for one connector: reported power within +-(current limit + EPS) *)
Theorem C04_valid_means_within : forall eps s, valid eps s ->
  Forall (fun g => - (g_curmax g + eps) <= @gc_load R RNum g <= g_curmax g + eps) (s_gcs s).
Proof. intros eps s (_ & _ & H). rewrite Forall_forall in *. intros g Hg. apply (H g Hg). Qed.
Print Assumptions C04_valid_means_within.

Theorem C04_abort_iff_invalid_step : forall eps (steps:list (@stepobs R)),
  @aborted R RNum eps steps = false <-> forallb (@step_ok R RNum eps) steps = true.
Proof. intros. apply (proj1 (run_complete eps steps)). Qed.
Print Assumptions C04_abort_iff_invalid_step.

Theorem C04_limit_never_above_rating : forall (rating:R) cur ev, rating <> 0 ->
  (match cur with Some c => c <= rating | None => True end) ->
  match @apply_limit R RNum rating cur ev with Some c => c <= rating | None => cur = None /\ ev = None end.
Proof. exact apply_limit_le_rating. Qed.
Print Assumptions C04_limit_never_above_rating.

Theorem C04_limit_is_min : forall (rating:R) cur m, rating <> 0 ->
  @apply_limit R RNum rating cur (Some m) = Some (Rmin rating m).
Proof. exact apply_limit_is_min. Qed.
Print Assumptions C04_limit_is_min.

(* ---- the executable (Q) instance that is run against /repo and the proof (R) instance agree (Transfer*.v) ---- *)
From Coq Require Import QArith.
From SV Require Import Transfer TransferAll ExecProps.
Theorem C04_exec_abort_iff_invalid_step : forall tbl eps (steps:list (@stepobs Q)),
  @aborted Q (QNum tbl) eps steps = false <-> forallb (@step_ok Q (QNum tbl) eps) steps = true.
Proof. exact run_exec_abort_iff_invalid_step. Qed.
Print Assumptions C04_exec_abort_iff_invalid_step.
Theorem C04_exec_step_ok_is_proof_model : forall tbl eps s s', SV_o_RunLoop_o_stepobs_R Q R QR s s' ->
  @step_ok Q (QNum tbl) eps s = @step_ok R RNum (Q2R eps) s'.
Proof. exact step_ok_transfer. Qed.
Print Assumptions C04_exec_step_ok_is_proof_model.
Theorem C04_exec_limit_rule_is_proof_model : forall tbl rating cur ev,
  @apply_limit R RNum (Q2R rating) (option_map Q2R cur) (option_map Q2R ev) = option_map Q2R (@apply_limit Q (QNum tbl) rating cur ev).
Proof. exact TransferK.apply_limit_transfer. Qed.
Print Assumptions C04_exec_limit_rule_is_proof_model.
