(* Property C19 — scenario generators emit well-formed, reproducible, drivable scenarios.
   PARTIAL.  Proved on the models (theories/Gen.v) of the trip loops of generate_from_statistics.py
   (per vehicle; the random trips are an arbitrary input stream, so the statements hold for every seed,
   duration, start time, no-drive-day set and fleet) and of generate_from_csv.py (per vehicle):
   - statistics: the vehicle's events are (departure, arrival) pairs in chronological order; a departure
     announces exactly the following arrival; an arrival followed by a trip announces exactly that trip's
     departure, strictly later, and its desired SoC is at least the minimum and covers that trip's
     consumption times (1 + buffer); the newest arrival either still carries the placeholder or announces a
     strictly later departure with desired SoC >= minimum; the initially announced departure is the first
     departure event and the initial desired SoC is at least the minimum;
   - trip table (trips in departure order, each departing no earlier than the previous arrival): arrival and
     departure events alternate chronologically; an arrival announces exactly the following departure; its
     desired SoC is at least the minimum and covers the summed consumption until the next connection; a
     departure announces an arrival not before itself and not after the next arrival event; the model's
     stable sort returns a departure-ordered permutation of the table.
   NOT proved (checked on generated inputs against the implementation only): the SimBEV generator, the random
   trip distribution (soc_delta within [0,1] for the shipped types), reproducibility from the seed, loading of
   the scenario and the greedy run without negative SoC.
   Known finding: an arrival with no later accepted trip within the two extra days keeps desired_soc 0 and
   no announced departure (stat_open_end characterises exactly when). *)
From Coq Require Import ZArith QArith Reals List Bool Permutation.
From SV Require Import Num RNum Gen GenProps.
Import ListNotations.
Open Scope R_scope.

Theorem C19_statistics_events_wellformed : forall m buf days trips,
  Forall (fun tr => (0 <= s_dur tr)%Z) trips ->
  swf m (1 + buf) (st_rev (@stat_vehicle R RNum m buf days trips)).
Proof. exact stat_vehicle_wf. Qed.
Print Assumptions C19_statistics_events_wellformed.

Theorem C19_statistics_initial_announcement : forall m buf days trips,
  Forall (fun tr => (0 <= s_dur tr)%Z) trips ->
  sinit_ok m (@stat_vehicle R RNum m buf days trips).
Proof. exact stat_vehicle_init. Qed.
Print Assumptions C19_statistics_initial_announcement.

Theorem C19_statistics_open_end : forall m buf days (s:sstate R) tr a ds sd rest,
  st_rev (stat_step m buf days s tr) = GArr a None ds sd :: rest ->
  (st_rev s = GArr a None ds sd :: rest /\ (s_dep tr <= a)%Z) \/ (days > s_day tr)%nat.
Proof. exact stat_open_end. Qed.
Print Assumptions C19_statistics_open_end.

Theorem C19_csv_events_wellformed : forall m stop rows prev, chain prev rows ->
  cfinal m (cs_rev (@csv_rows R RNum m stop {| cs_sum := zero; cs_init := m; cs_has := false; cs_rev := [] |} rows)).
Proof. exact csv_vehicle_sorted_wf. Qed.
Print Assumptions C19_csv_events_wellformed.

Theorem C19_csv_sort : forall rows : list (crow R), dep_sorted (sort_rows rows) /\ Permutation rows (sort_rows rows).
Proof. intros rows. split; [apply sort_rows_sorted|apply sort_rows_perm]. Qed.
Print Assumptions C19_csv_sort.

(* non-vacuity: a two-trip stream / table meets the hypotheses *)
Example C19_hyp_stat : Forall (fun tr : strip R => (0 <= s_dur tr)%Z)
  [ {| s_day := 0; s_dep := 480; s_dur := 60; s_sd := 0.2 |}; {| s_day := 1; s_dep := 1920; s_dur := 30; s_sd := 0.1 |} ].
Proof. repeat constructor; cbn; discriminate. Qed.
Example C19_hyp_csv : chain 0 [ {| c_dep := 10; c_arr := 20; c_delta := 0.2; c_conn := false |};
                                {| c_dep := 30; c_arr := 45; c_delta := 0.3; c_conn := true |} ].
Proof. cbn. repeat split; discriminate. Qed.

(* ---- the executable (Q) instance that is run against /repo and the proof (R) instance agree (Transfer*.v) ---- *)
From Coq Require Import QArith Qreals.
From Param Require Import Param.
From SV Require Import Transfer TransferAll.
Theorem C19_exec_stat_vehicle_is_proof_model : forall tbl ms buf days trips trips', list_R _ _ (SV_o_Gen_o_strip_R Q R QR) trips trips' ->
  SV_o_Gen_o_sstate_R Q R QR (@stat_vehicle Q (QNum tbl) ms buf days trips) (@stat_vehicle R RNum (Q2R ms) (Q2R buf) days trips').
Proof. exact stat_vehicle_transfer. Qed.
Print Assumptions C19_exec_stat_vehicle_is_proof_model.
Theorem C19_exec_csv_vehicle_is_proof_model : forall tbl ms stop rows rows', list_R _ _ (SV_o_Gen_o_crow_R Q R QR) rows rows' ->
  SV_o_Gen_o_cstate_R Q R QR (@csv_vehicle Q (QNum tbl) ms stop rows) (@csv_vehicle R RNum (Q2R ms) stop rows').
Proof. exact csv_vehicle_transfer. Qed.
Print Assumptions C19_exec_csv_vehicle_is_proof_model.
