(* Property C17 — every simulation terminates and fails loudly.
   PARTIAL.  Proved on the run-loop model (any strategy, any number type): the number of reported
   steps never exceeds the configured number; a run without error reports exactly the
   configured number of steps; an error in event processing or in the strategy, or a failed
   safety check, is never dropped — the run stops at the FIRST such step, reports it as its
   last row and is flagged aborted; every step contributes one row with one entry per
   connector to every series (equal lengths).
   NOT proved: bounded running time of the look-ahead strategies' loops and 'report generation
   still succeeds' — runtime facts, exercised by fault injection (a strategy step raising at a
   random step, infeasible trips) on recorded runs of all eight strategies. *)
From Coq Require Import List Bool.
From SV Require Import Num RunLoop RunLoopProps.
Import ListNotations.

Theorem C17_steps_bounded : forall T (N:Num T) eps (steps:list (@stepobs T)),
  length (fst (@run T N eps steps)) <= length steps.
Proof. intros. apply run_length. Qed.
Print Assumptions C17_steps_bounded.
Theorem C17_complete_run : forall T (N:Num T) eps (steps:list (@stepobs T)),
  @aborted T N eps steps = false -> @step_i T N eps steps = length steps.
Proof. intros T N eps steps. apply (proj2 (run_complete eps steps)). Qed.
Print Assumptions C17_complete_run.
Theorem C17_error_latched : forall T (N:Num T) eps (steps:list (@stepobs T)), @aborted T N eps steps = true ->
  exists pre s post, steps = pre ++ s :: post /\ forallb (step_ok eps) pre = true /\ step_ok eps s = false /\
    fst (run eps steps) = map mk_row pre ++ [mk_row s].
Proof. intros. apply run_aborted. assumption. Qed.
Print Assumptions C17_error_latched.
Theorem C17_raise_is_invalid : forall T (N:Num T) eps (s:@stepobs T),
  s_pre_error s = true \/ s_strat_error s = true -> step_ok eps s = false.
Proof. intros T N eps s [H|H]; unfold step_ok; rewrite H; cbn; [reflexivity|]. destruct (s_pre_error s); reflexivity. Qed.
Print Assumptions C17_raise_is_invalid.
Theorem C17_row_shape : forall T (N:Num T) (s:@stepobs T),
  length (r_total (mk_row s)) = length (s_gcs s) /\ length (r_gen (mk_row s)) = length (s_gcs s).
Proof. intros. apply rows_shape. Qed.
Print Assumptions C17_row_shape.

(* ---- the executable (Q) instance that is run against /repo and the proof (R) instance agree (Transfer*.v) ---- *)
From Coq Require Import QArith.
From SV Require Import Transfer TransferAll ExecProps.
Theorem C17_exec_steps_bounded : forall tbl eps (steps:list (@stepobs Q)),
  (List.length (fst (@run Q (QNum tbl) eps steps)) <= List.length steps)%nat.
Proof. exact run_exec_rows_bounded. Qed.
Print Assumptions C17_exec_steps_bounded.
