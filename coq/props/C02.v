(* Property C02 — charging dynamics follow the charging curve (analytic step = ODE solution).
   PARTIAL.  Proved (for all m <> 0, n, c, s0, t): on one linear section P(s) = m*s + n the
   closed forms _adjust_soc evaluates are THE solution of dSoC/dt = P(SoC)/c (derivative and
   initial value; the |m| < EPS branch is the constant-power solution for P = n), the code's
   time-to-breakpoint lands exactly on the breakpoint, steps compose (semigroup: two calls =
   one call over the summed duration, on a section), the state moves monotonically between
   the current SoC and the breakpoint, the section's average power lies between the powers
   at its two ends; a target-power request that reaches its target below 100 % delivers
   exactly that power.
   NOT proved: that the composition over SEVERAL sections (re-chording from the current SoC,
   skipping sub-EPS remnants) equals the ODE flow of the whole piecewise-linear curve, hence
   split-vs-single-call equality and monotonicity in time/limit ACROSS section boundaries, and
   'otherwise exactly what an unrestricted request would deliver'.  Those are compared on
   generated relational cases by ./check C02 (implementation, exact numbers, tolerance 4*EPS). *)
From Coq Require Import Reals.
From Coquelicot Require Import Coquelicot.
From SV Require Import Num RNum Curve Battery BatteryProps BatteryODE.
Open Scope R_scope.

Theorem C02_section_ode : forall m n c s0 t, m <> 0 -> c <> 0 ->
  is_derive (fun t => flow m n c s0 t) t ((m * flow m n c s0 t + n) / c) /\ flow m n c s0 0 = s0.
Proof. intros. split; [apply flow_ode; assumption | apply flow_0]. Qed.
Print Assumptions C02_section_ode.

Theorem C02_section_flat : forall n c s0 t,
  is_derive (fun t => flow_flat n c s0 t) t (n / c) /\ flow_flat n c s0 0 = s0.
Proof. intros. split; [apply flow_flat_ode | apply flow_flat_0]. Qed.
Print Assumptions C02_section_flat.

Theorem C02_section_time : forall m n c s0 x2, m <> 0 -> c <> 0 -> 0 < (x2 + n / m) / (s0 + n / m) ->
  flow m n c s0 (ln ((x2 + n / m) / (s0 + n / m)) * c / m) = x2.
Proof. exact flow_time. Qed.
Print Assumptions C02_section_time.

Theorem C02_section_semigroup : forall m n c s0 t1 t2, m <> 0 ->
  flow m n c (flow m n c s0 t1) t2 = flow m n c s0 (t1 + t2).
Proof. exact flow_semigroup. Qed.
Print Assumptions C02_section_semigroup.

Theorem C02_section_between : forall m n c s0 x2 t, m <> 0 -> c <> 0 -> 0 < (x2 + n / m) / (s0 + n / m) ->
  let t0 := ln ((x2 + n / m) / (s0 + n / m)) * c / m in
  (0 <= t <= t0 \/ t0 <= t <= 0) ->
  (s0 <= flow m n c s0 t <= x2) \/ (x2 <= flow m n c s0 t <= s0).
Proof. exact flow_between. Qed.
Print Assumptions C02_section_between.

Theorem C02_section_energy_bounds : forall m n c s0 t, m <> 0 -> 0 < c -> 0 <= t ->
  let new := flow m n c s0 t in
  Rmin (m * s0 + n) (m * new + n) * t <= c * (new - s0) <= Rmax (m * s0 + n) (m * new + n) * t.
Proof. exact flow_energy_bounds. Qed.
Print Assumptions C02_section_energy_bounds.

(* the model's exp-branch expression is [flow]: ties the lemmas above to Battery.outer *)
Theorem C02_model_uses_flow : forall m n c s t, m <> 0 ->
  @nadd R RNum (@nneg R RNum (n / m)) (@nmul R RNum (@nadd R RNum (n / m) s) (exp (m / c * t))) = flow m n c s t.
Proof. intros m n c s t Hm. rewrite nneg_R. cbn. unfold flow. field. exact Hm. Qed.
Print Assumptions C02_model_uses_flow.

Theorem C02_target_power : forall (b:@bat R) hours mp p0 b' p d,
  @load R RNum b hours mp (TPower p0) = Ok (b', p, d) -> wf_bat b -> 0 < hours -> 0 <= p0 ->
  soc b' = soc b + p0 * eff b * hours / cap b -> soc b' < 1 -> p = p0.
Proof. exact load_target_power. Qed.
Print Assumptions C02_target_power.
