(* Property C15 — time-window and core-standing-time membership.
   Model: theories/Windows.v; proofs: theories/WindowsProps.v; axiom-free. *)
From Coq Require Import ZArith List Bool.
From SV Require Import Windows WindowsProps.
Import ListNotations.
Open Scope Z_scope.

(* inside a peak-load window iff the FIRST listed season containing the date (bounds
   inclusive) has a window of the level with start <= t < end, wrapping over midnight *)
Theorem C15_window_iff : forall day t seasons lvl,
  within_window day t seasons lvl = true <->
  exists s w, first_season day seasons s /\ In w (wins_of lvl (s_wins s)) /\
    ((snd w < fst w /\ (fst w <= t \/ t < snd w)) \/ (fst w <= snd w /\ fst w <= t < snd w)).
Proof. exact within_window_iff. Qed.
Print Assumptions C15_window_iff.

Theorem C15_no_season : forall day t seasons lvl,
  (forall s, In s seasons -> ~ (s_first s <= day <= s_last s)) -> within_window day t seasons lvl = false.
Proof. exact no_season_no_window. Qed.
Print Assumptions C15_no_season.

(* core standing time, with the semantics the code has: end instant of a non-wrapping
   window INCLUDED *)
Theorem C15_core_iff : forall ts c, within_core ts c = true <->
  match c with None => True
  | Some c => In (weekday ts) (c_nodrive c) \/ In (ordinal ts) (c_holidays c)
              \/ exists w, In w (c_times c) /\
                   ((snd w < fst w /\ (fst w <= tod ts \/ tod ts < snd w)) \/ (fst w <= snd w /\ fst w <= tod ts <= snd w)) end.
Proof. exact within_core_iff. Qed.
Print Assumptions C15_core_iff.

(* The property text asks for "before the configured end".  That reading is refuted by
   the faithful model at exactly one instant class (t = end of a non-wrapping window;
   pinned by tests/test_util.py, recorded as known finding D9) and holds everywhere else. *)
Theorem C15_core_halfopen_refuted : exists t w, in_core_win t w = true /\ ~ half_open_core t w.
Proof. exact core_halfopen_refuted. Qed.
Print Assumptions C15_core_halfopen_refuted.
Theorem C15_core_halfopen_partial : forall t w, t <> snd w \/ snd w < fst w ->
  (in_core_win t w = true <-> half_open_core t w).
Proof. exact core_halfopen_elsewhere. Qed.
Print Assumptions C15_core_halfopen_partial.

(* the per-timestep series is the predicate at each step time; ceil((stop-start)/interval) entries;
   the while loop never runs out of fuel *)
Theorem C15_series : forall start stop delta seasons lvl, 0 < delta ->
  exists l, window_series start stop delta seasons lvl = Some l /\
    Z.of_nat (length l) = Z.max 0 ((stop - start + delta - 1) / delta) /\
    forall k, (k < length l)%nat -> nth_error l k = Some (dt_within_window (start + Z.of_nat k * delta) seasons lvl).
Proof. exact window_series_spec. Qed.
Print Assumptions C15_series.

Example C15_nonvacuous :
  let s := {| s_first := 738000; s_last := 738100; s_wins := [(2%nat, [(61200000000, 70200000000)])] |} in
  within_window 738050 61200000000 [s] 2 = true /\ within_window 738050 70200000000 [s] 2 = false /\
  within_core (738156 * DAY + 13 * 3600000000) (Some {| c_nodrive := []; c_holidays := []; c_times := [(36000000000, 46800000000)] |}) = true.
Proof. vm_compute. auto. Qed.
