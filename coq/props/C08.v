(* Property C08 — vehicle trip state machine and negative-SoC policy.
   Model: theories/Events.v (vehicle part of Strategy.step); proofs: theories/EventsProps.v (R
   instance); tie: exact correspondence on random event interleavings (./check C08) plus the
   independent declarative reference.
   'The SoC of a disconnected vehicle does not change during the simulation' has two halves:
   event processing (proved here: only this vehicle's own events touch it) and the strategies'
   allocation (no strategy touches the battery of a vehicle without a station) — the latter is
   checked per step on recorded exact runs of all strategies (C06 class
   C06/disconnected-soc-changed), not proved. *)
From Coq Require Import ZArith Reals List Bool String Lra.
From SV Require Import Num RNum Kernel Events EventsProps.
Import ListNotations.
Open Scope R_scope.

Theorem C08_arrival : forall o (w:@world R) ev vid u v0 d, e_kind ev = EVeh vid VArrival u ->
  lookup vid (w_veh w) = Some v0 -> v_delta (apply_update v0 u) = Some d ->
  let s := v_soc v0 + d in
  exists w' res v', @apply_event R RNum o w ev = (w', res) /\ lookup vid (w_veh w') = Some v' /\ arrival_result o v0 u d v' /\
    w_desired_cnt w' = w_desired_cnt w /\ w_margin_cnt w' = w_margin_cnt w /\ w_gcs w' = w_gcs w /\
    (0 <= s + o_eps o -> res = None /\ v_soc v' = s /\ v_delta v' = None /\ w_tracker w' = w_tracker w) /\
    (s + o_eps o < 0 -> w_tracker w' = track vid (w_time w) (w_tracker w) /\
        (o_allow_neg o = false -> res = Some RuntimeErr /\ v_soc v' = s) /\
        (o_allow_neg o = true -> res = None /\ v_delta v' = None /\ v_soc v' = if o_reset_neg o then 0 else s)).
Proof. exact arrival_effect. Qed.
Print Assumptions C08_arrival.

Theorem C08_departure : forall o (w:@world R) ev vid u v0, e_kind ev = EVeh vid VDeparture u ->
  lookup vid (w_veh w) = Some v0 ->
  let v1 := apply_update v0 u in
  let past := (e_start ev <? w_time w - o_interval o)%Z in
  let soc := if past then v_desired v1 else v_soc v0 in
  let connected := match v_cs v0 with Some _ => true | None => false end in
  exists w' v', @apply_event R RNum o w ev = (w', None) /\ lookup vid (w_veh w') = Some v' /\
    v_cs v' = None /\ v_etd v' = None /\ v_soc v' = soc /\ w_tracker w' = w_tracker w /\ w_gcs w' = w_gcs w /\
    w_desired_cnt w' = (if connected && Rltb soc (v_desired v1 - o_eps o) then S (w_desired_cnt w) else w_desired_cnt w) /\
    w_margin_cnt w' = (if connected && Rleb 0 soc && Rltb soc ((1 - o_margin o) * v_desired v1 - o_eps o)
                       then S (w_margin_cnt w) else w_margin_cnt w).
Proof. exact departure_effect. Qed.
Print Assumptions C08_departure.

Theorem C08_unknown_vehicle_skipped : forall o (w:@world R) ev vid et u,
  e_kind ev = EVeh vid et u -> lookup vid (w_veh w) = None -> @apply_event R RNum o w ev = (w, None).
Proof. exact unknown_vehicle_skipped. Qed.
Print Assumptions C08_unknown_vehicle_skipped.

Theorem C08_other_events_keep_vehicle : forall o (w:@world R) ev vid,
  (forall et u, e_kind ev <> EVeh vid et u) -> lookup vid (w_veh (fst (@apply_event R RNum o w ev))) = lookup vid (w_veh w).
Proof. exact other_events_keep_vehicle. Qed.
Print Assumptions C08_other_events_keep_vehicle.

(* Non-vacuity: an arrival into negative SoC under the three policies *)
Example C08_policy_example :
  let v := {| v_cs := None; v_soc := 1/10; v_desired := 1; v_etd := None; v_eta := None; v_schedule := None; v_delta := None |} in
  v_soc v + (-3/10) + 1/100000 < 0.
Proof. cbn. lra. Qed.
