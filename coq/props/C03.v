(* Property C03 — charging-curve lookup and clamping are exact piecewise-linear operations.
   Only statements live here; proofs are in theories/CurveProps.v and CurveGrid.v.
   Model: theories/Curve.v (LoadingCurve.__init__, power_from_soc, clamped,
   VehicleType's default discharge curve), tied to /repo by the exact correspondence
   run by ./check C03.  R-instance theorems quantify over ALL curves/limits/factors/SoCs. *)
From Coq Require Import Reals List QArith Lra.
From SV Require Import Num RNum Curve CurveProps CurveGrid.
Import ListNotations.
Open Scope R_scope.

(* 1. The looked-up power is the linear interpolation between the neighbouring points. *)
Theorem C03_lookup : forall (c:@curve R) s i p q,
  incr (pts c) -> s <= 1 ->
  nth_error (pts c) i = Some p -> nth_error (pts c) (S i) = Some q -> fst p <= s <= fst q ->
  @power_from_soc R RNum c s = Ok (snd p + (snd q - snd p) * ((s - fst p) / (fst q - fst p))).
Proof. exact lookup_is_lerp. Qed.
Print Assumptions C03_lookup.

Theorem C03_lookup_at_point : forall (c:@curve R) i p,
  wf_curve c -> nth_error (pts c) i = Some p -> @power_from_soc R RNum c (fst p) = Ok (snd p).
Proof. exact lookup_at_point. Qed.
Print Assumptions C03_lookup_at_point.

Theorem C03_lookup_total : forall (c:@curve R) s,
  wf_curve c -> 0 <= s <= 1 -> exists v, @power_from_soc R RNum c s = Ok v.
Proof. exact lookup_total. Qed.
Print Assumptions C03_lookup_total.

(* 2. clamped(limit, pre, post) = post * min(pre * curve(s), limit) at every SoC in [0,1],
      for every well-formed curve and ALL real limit / pre / post; the result is again an
      ordered curve from 0 to 1 (so the constructor asserts hold) and its max_power is the
      fold of max over its points. *)
Theorem C03_clamped_pointwise : forall (c:@curve R) lim pre post, wf_curve c ->
  exists c', @clamped R RNum c lim pre post = Ok c' /\ wf_weak c' /\ maxp c' = maxfold (pts c') /\
    forall s, 0 <= s <= 1 -> exists v, @power_from_soc R RNum c s = Ok v /\
                                       @power_from_soc R RNum c' s = Ok (post * Rmin (pre * v) lim).
Proof. exact clamped_pointwise. Qed.
Print Assumptions C03_clamped_pointwise.

(* 3. max_power is the maximum over the points, and bounds the curve on [0,1]. *)
Theorem C03_max_power : forall (c:@curve R), pts c <> [] -> maxp c = maxfold (pts c) -> nonneg (pts c) ->
  Forall (fun p => snd p <= maxp c) (pts c) /\ In (maxp c) (map snd (pts c)).
Proof. exact max_power_is_max. Qed.
Print Assumptions C03_max_power.

Theorem C03_constructor_fields : forall l (c:@curve R), @mk_curve R RNum l = Ok c ->
  pts c = @sortpts R RNum l /\ maxp c = maxfold (pts c).
Proof. exact mk_curve_fields. Qed.
Print Assumptions C03_constructor_fields.

Theorem C03_max_power_bounds_curve : forall (c:@curve R) s v,
  wf_curve c -> maxp c = maxfold (pts c) -> nonneg (pts c) -> 0 <= s <= 1 ->
  @power_from_soc R RNum c s = Ok v -> 0 <= v <= maxp c.
Proof. exact max_power_bounds_curve. Qed.
Print Assumptions C03_max_power_bounds_curve.

(* 4. Default discharge curve = V2G power factor * charging curve at every SoC
      (0 < factor <= 1; for factor > 1 the code additionally caps at max_power, see
      C03_default_discharge_general — the property text presumes a factor <= 1). *)
Theorem C03_default_discharge : forall (c:@curve R) f,
  wf_curve c -> maxp c = maxfold (pts c) -> nonneg (pts c) -> 0 < f <= 1 ->
  exists c', @default_discharge R RNum c f = Ok c' /\ wf_weak c' /\
    forall s, 0 <= s <= 1 -> exists v, @power_from_soc R RNum c s = Ok v /\ @power_from_soc R RNum c' s = Ok (f * v).
Proof. exact default_discharge_scaled. Qed.
Print Assumptions C03_default_discharge.

Theorem C03_default_discharge_general : forall (c:@curve R) f, wf_curve c ->
  exists c', @default_discharge R RNum c f = Ok c' /\
    forall s, 0 <= s <= 1 -> exists v, @power_from_soc R RNum c s = Ok v /\
                                       @power_from_soc R RNum c' s = Ok (Rmin (f * v) (maxp c)).
Proof. exact default_discharge_general. Qed.
Print Assumptions C03_default_discharge_general.

(* 5. Exhaustive sweep on the rational grid (executable Q instance, exact arithmetic):
      all 976 curves with 2-4 points, SoC in {0,1/4,1/2,3/4,1}, power in {0,5,10,20};
      all 54 (limit, pre, post) in {0,4,5,8,10,25} x {1/2,1,2}^2; 17 probes k/16 plus the
      result's own break points. *)
Theorem C03_grid_exhaustive : forall l prm, In l grid_curves -> In prm grid_params ->
  check_lookup l = true /\ check_clamp l prm = true.
Proof. exact grid_exhaustive. Qed.
Print Assumptions C03_grid_exhaustive.

(* 6. The pinned upstream revision (clamped_orig, defect D1, repaired by /repo commit
      "fix: clamped() must take both section end points ...") does NOT satisfy statement 2. *)
Theorem C03_clamped_orig_refuted : violates (@clamped_orig Q N0) = true.
Proof. exact clamped_orig_refuted. Qed.
Print Assumptions C03_clamped_orig_refuted.

(* Non-vacuity: a concrete tapered curve meets every hypothesis used above. *)
Definition ex_curve : @curve R := {| pts := [(0,11); (4/5,11); (1,2)]; maxp := 11 |}.
Example C03_hypotheses_satisfiable : wf_curve ex_curve /\ nonneg (pts ex_curve) /\ maxp ex_curve = maxfold (pts ex_curve).
Proof.
  split; [|split].
  - unfold wf_curve, wf_pts, ex_curve, lastx; cbn. repeat split; try lra. auto.
  - unfold nonneg, ex_curve; cbn. repeat constructor; cbn; lra.
  - unfold ex_curve, maxfold; cbn [pts maxp fold_left snd]. rewrite !nmax_R, zero_0.
    unfold Rmax; repeat destruct Rle_dec; lra.
Qed.

(* ---- the executable (Q) instance that is run against /repo and the proof (R) instance agree (Transfer*.v) ---- *)
From Coq Require Import QArith Qreals.
From Param Require Import Param.
From SV Require Import Transfer TransferAll.
Theorem C03_exec_lookup_is_proof_model : forall tbl c c' s, SV_o_Curve_o_curve_R Q R QR c c' ->
  res_R Q R QR (@power_from_soc Q (QNum tbl) c s) (@power_from_soc R RNum c' (Q2R s)).
Proof. exact power_from_soc_transfer. Qed.
Print Assumptions C03_exec_lookup_is_proof_model.
Theorem C03_exec_clamped_is_proof_model : forall tbl c c' lim pre post, SV_o_Curve_o_curve_R Q R QR c c' ->
  res_R _ _ (SV_o_Curve_o_curve_R Q R QR) (@clamped Q (QNum tbl) c lim pre post) (@clamped R RNum c' (Q2R lim) (Q2R pre) (Q2R post)).
Proof. exact clamped_transfer. Qed.
Print Assumptions C03_exec_clamped_is_proof_model.
Theorem C03_exec_every_curve_has_a_real_counterpart : forall c : @curve Q, { c' : @curve R & SV_o_Curve_o_curve_R Q R QR c c' }.
Proof. exact curve_total. Qed.
Print Assumptions C03_exec_every_curve_has_a_real_counterpart.
From SV Require Import ExecProps.
(* the executable lookup itself is defined on [0,1] and stays within [0, max_power] (rational curves whose real image is well-formed) *)
Theorem C03_exec_lookup_total_bounded : forall tbl (c:@curve Q) (s:Q),
  wf_curve (curveQ2R c) -> maxp (curveQ2R c) = maxfold (pts (curveQ2R c)) -> nonneg (pts (curveQ2R c)) ->
  (0 <= s)%Q -> (s <= 1)%Q ->
  exists v, @power_from_soc Q (QNum tbl) c s = Ok v /\ (0 <= v)%Q /\ (v <= maxp c)%Q.
Proof. exact lookup_exec_total_bounded. Qed.
Print Assumptions C03_exec_lookup_total_bounded.
Definition ex_curve_q : @curve Q := {| pts := [(0,11); (4#5,11); (1,2)]%Q; maxp := 11%Q |}.
Example C03_exec_hypotheses_satisfiable :
  wf_curve (curveQ2R ex_curve_q) /\ nonneg (pts (curveQ2R ex_curve_q)) /\ maxp (curveQ2R ex_curve_q) = maxfold (pts (curveQ2R ex_curve_q)).
Proof.
  assert (E : curveQ2R ex_curve_q = ex_curve).
  { unfold curveQ2R, ex_curve_q, ex_curve; cbn [pts maxp map fst snd]. f_equal; [|unfold Q2R; cbn; lra].
    repeat (f_equal; try (unfold Q2R; cbn; lra)). }
  rewrite E. exact C03_hypotheses_satisfiable.
Qed.
