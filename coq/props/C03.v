From SV Require Import Num Curve.
Theorem placeholder : True. Proof. exact I. Qed.
Print Assumptions placeholder.
