(* Property C09 — service guarantee: feasible charging demands are met by departure.
   PARTIAL.  Proved:
   - the remaining-step count used by balanced (and, with the same expression, by the look-ahead strategies),
     -(dt // -interval), is the ceiling of dt/interval: k steps cover the time to departure, k-1 do not, and it is
     positive exactly when the departure lies ahead (the "rounding the wrong way" failure is excluded for the model);
   - greedy's request power_needed = delta_soc*capacity/efficiency*ts_per_hour aims exactly at the desired SoC, and any
     request limited by connector, station or curve aims below it; balanced's k equal steps deliver exactly the need;
   - the induction lifting a per-step dichotomy "within tolerance of the desired SoC, or at least what a full-power
     step gives" (full-power step monotone in the SoC, no step loses charge) to: after n steps the SoC is at least
     min(desired - tol, n full-power steps) — the shape of the greedy guarantee.
   NOT proved: that the modelled greedy step satisfies the dichotomy for every charging curve (needs the multi-section
   ODE composition left open under C02), and anything about balanced_market, peak_load_window, flex_window and
   distributed, which are not modelled.  The guarantee itself is evaluated by ./check C09 on generated feasible
   scenarios for all six strategies against an independent feasibility oracle (sampled).
   Known findings: minimum-charging-power sliver; constant-power planning on a tapering curve (balanced family). *)
From Coq Require Import ZArith Reals Lra.
From SV Require Import Num RNum Service.

Theorem C09_remaining_steps_ceiling : forall dt i : Z, (0 < i)%Z ->
  ((steps_left dt i - 1) * i < dt <= steps_left dt i * i)%Z /\ ((0 < steps_left dt i)%Z <-> (0 < dt)%Z) /\
  (forall k, (dt <= k * i)%Z -> (steps_left dt i <= k)%Z).
Proof. intros dt i Hi. split; [apply steps_left_ceil; exact Hi|]. split; [apply steps_left_pos; exact Hi|]. intros k. apply steps_left_least. exact Hi. Qed.
Print Assumptions C09_remaining_steps_ceiling.

Open Scope R_scope.
Theorem C09_greedy_request : forall soc desired cap eff tsph hours, 0 < cap -> 0 < eff -> 0 < hours -> tsph * hours = 1 ->
  soc + ((desired - soc) * cap / eff * tsph) * eff * hours / cap = desired /\
  forall p, p <= (desired - soc) * cap / eff * tsph -> soc + p * eff * hours / cap <= desired.
Proof.
  intros soc desired cap eff tsph hours Hc He Hh Ht. split.
  - exact (greedy_request_hits_desired soc desired cap eff tsph hours Hc He Ht).
  - intros p Hp. exact (greedy_request_below soc desired cap eff tsph hours p Hc He Hh Ht Hp).
Qed.
Print Assumptions C09_greedy_request.

Theorem C09_balanced_plan : forall soc desired cap eff tsph hours (k:Z), 0 < cap -> 0 < eff -> tsph * hours = 1 -> (0 < k)%Z ->
  soc + IZR k * (((desired - soc) * cap / eff * tsph / IZR k) * eff * hours / cap) = desired.
Proof. exact balanced_plan_covers. Qed.
Print Assumptions C09_balanced_plan.

Theorem C09_guarantee_by_induction : forall (F step : R -> R) desired tol,
  (forall a b, a <= b -> F a <= F b) -> (forall s, s <= step s) ->
  (forall s, desired - tol <= step s \/ F s <= step s) ->
  forall n s, Rmin (desired - tol) (iter F n s) <= iter step n s.
Proof. exact service_guarantee. Qed.
Print Assumptions C09_guarantee_by_induction.

(* non-vacuity: a constant-power battery step meets the hypotheses *)
Example C09_hyp : let F := fun s => Rmin 1 (s + 0.1) in let step := fun s => Rmin 0.8 (Rmax s (Rmin 1 (s + 0.1))) in
  (forall a b, a <= b -> F a <= F b) /\ (forall s, s <= 0.8 -> s <= step s).
Proof.
  cbn. split; intros.
  - apply Rle_min_compat_l. lra.
  - apply Rmin_glb; [lra|apply Rmax_l].
Qed.
