(* Property C11 — signal-driven strategies (windows, prices, schedules) follow their signal.
   PARTIAL.  Proved (model of the last lines of Schedule.charge_individually, on the clamp_power model of C05):
   the command min(clamp_power(schedule + additional), connector headroom) is never below
   min(clamp_power(schedule), headroom) for any non-negative additional power — i.e. never below the scheduled power
   as far as station rating, minimum powers and connector headroom allow — and never above the headroom.
   NOT proved: peak_load_window, flex_window and balanced_market are not modelled.  "No grid energy in discouraged
   periods when the encouraged ones suffice (1.3x) and the desired SoC is still reached", "balanced_market never pays
   more than greedy for the same energy" and the schedule clause at the level of station powers are evaluated by
   ./check C11 on generated scenarios (all window/price alignments, schedule-change events) — sampled. *)
From Coq Require Import Reals.
From SV Require Import Num RNum Kernel KernelProps Service.
Open Scope R_scope.

Theorem C11_individual_command : forall sched add cur mx mn vm left, 0 <= add ->
  Rmin (@clamp_power R RNum sched cur mx mn vm) left <= indiv_command sched add cur mx mn vm left <= left.
Proof. intros. split; [apply indiv_command_ge_schedule; assumption|apply indiv_command_le_left]. Qed.
Print Assumptions C11_individual_command.

(* the clamp_power model used above IS the translated source of util.clamp_power (generated/Src.v is regenerated
   from /repo on every run; a change of the function's text breaks this obligation) *)
From SV Require Import Kernel Tie.
From SVG Require Import Src.
Theorem C11_clamp_power_is_source : forall power cs_cur cs_max cs_min veh_min : R,
  @clamp_power_src R RNum power cs_cur cs_max cs_min veh_min = @clamp_power R RNum power cs_cur cs_max cs_min veh_min.
Proof. intros. apply clamp_power_is_source. Qed.
Print Assumptions C11_clamp_power_is_source.
