(* Property C14 — distributed delegates per station type and honours the station count.
   The distributed strategy itself (sub-world construction, arrival look-ahead, prioritisation,
   virtual stations for batteries) is NOT modelled.  What is formal: the delegated strategies
   (greedy at opportunity connectors, balanced at depots) are the Strat model, tied to /repo by
   exact per-step correspondence (shared with C10), and a step of either strategy only touches
   the objects attached to the vehicles' own connector (C14_untouched_gc).  Delegation,
   independence between connectors and the number_cs bound are compared on exact runs
   (implementation vs implementation) by ./check C14 — sampled, not proved. *)
From Coq Require Import List String.
From SV Require Import Num Strat.
Import ListNotations.

(* assigning to one connector's entry leaves every other connector's entry alone *)
Theorem C14_assign_other : forall A k k' (v:A) l, k' <> k -> @Strat.lookup A k' (Strat.assign k v l) = Strat.lookup k' l.
Proof.
  intros A k k' v l Hne. induction l as [|[k2 v2] r IH]; cbn.
  - destruct (String.eqb k' k) eqn:E; [apply String.eqb_eq in E; congruence|reflexivity].
  - destruct (String.eqb k k2) eqn:E; cbn.
    + apply String.eqb_eq in E. subst k2. destruct (String.eqb k' k) eqn:E2; [apply String.eqb_eq in E2; congruence|reflexivity].
    + destruct (String.eqb k' k2); [reflexivity|exact IH].
Qed.
Print Assumptions C14_assign_other.

(* the delegated per-vehicle step (greedy / balanced) is local: it touches only the vehicle's own connector, station and
   vehicle entry — every other connector keeps loads, limit, cost and supporting-battery budget (any number type) *)
From SV Require Import Battery StratLocal.
Theorem C14_vehicle_step_local : forall T (N:Num T) (s:strat) (o:@sopts T) w cmds avail vid w' cmds' avail',
  @vehicle_step T N s o (w, cmds, avail) vid = Ok (w', cmds', avail') ->
  exists g0 c0, (forall g, g <> g0 -> Strat.lookup g (sw_gcs w') = Strat.lookup g (sw_gcs w) /\ Strat.lookup g avail' = Strat.lookup g avail) /\
                (forall c, c <> c0 -> Strat.lookup c (sw_css w') = Strat.lookup c (sw_css w) /\ Strat.lookup c cmds' = Strat.lookup c cmds) /\
                (forall v, v <> vid -> Strat.lookup v (sw_veh w') = Strat.lookup v (sw_veh w)) /\
                sw_bats w' = sw_bats w /\ sw_order w' = sw_order w.
Proof. intros T N. exact (@vehicle_step_local T N). Qed.
Print Assumptions C14_vehicle_step_local.
