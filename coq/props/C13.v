(* Property C13 — generated grid schedules respect flexibility, connector limits and signals.
   PARTIAL.  Proved (axiom-free) on the model of events.get_schedule_from_csv (repaired revision):
   no generated signal — connector or vehicle — takes effect before it is sent; although only
   CHANGED targets generate events, a reader that applies the events up to a row's time sees exactly
   that row's scheduled target (read-back correctness of the change-point compression).  The pinned
   upstream reader is refuted for per-vehicle schedules (D4: stale start time).
   NOT proved: the schedule generator itself (flex band, energy distribution by bisection, 700
   lines): its outputs are checked on generated scenarios/grid series — every schedule value within
   the connector rating and (collective mode) the flexibility band recomputed by the implementation,
   the charge flag against the written residual load / curtailment columns (D2: stale index), and the
   end-to-end read back through a Scenario (target and per-vehicle schedule at every step). *)
From Coq Require Import ZArith QArith List Bool.
From SV Require Import SchedCsv SchedCsvProps.
Import ListNotations.
Open Scope Z_scope.

Theorem C13_no_signal_before_sent : forall start0 rows lt lw lv evs,
  Forall (fun r => Z.max start0 (r_sigcand r) <= r_start r) rows ->
  rows_events start0 rows lt lw lv = Some evs -> Forall ev_ok evs.
Proof. exact rows_events_signal. Qed.
Print Assumptions C13_no_signal_before_sent.

Theorem C13_readback_target : forall start0 rows lt lw lv evs cur, increasing rows -> oqeq cur lt ->
  rows_events start0 rows lt lw lv = Some evs ->
  forall r, In r rows -> oqeq (target_at evs (r_start r) cur) (Some (r_target r)).
Proof. exact readback_target. Qed.
Print Assumptions C13_readback_target.

Theorem C13_vehicle_schedule_refuted :
  match rows_events_orig (-1000) d4_rows None None [None] (0,0) with
  | Some evs => eqoq (veh_at evs 0 0 None) (Some 2%Q) | None => false end = true.
Proof. exact orig_vehicle_schedule_early. Qed.
Print Assumptions C13_vehicle_schedule_refuted.

Example C13_repaired_on_witness :
  match schedule_events (-1000) 1 d4_rows with
  | Some evs => eqoq (veh_at evs 0 0 None) (Some 1%Q) && eqoq (veh_at evs 0 10 None) (Some 2%Q) | None => false end = true.
Proof. exact fixed_vehicle_schedule_on_time. Qed.
