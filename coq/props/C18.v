(* Property C18 — reports are faithful to the simulation.
   PARTIAL.  Proved: report.split_feedin yields non-negative parts in the priority generation >
   V2G > battery whose sum is the total feed-in (for generation, station sum <= 0, as the caller
   passes them).  Model tied by exact correspondence (3-decimal half-even rounding reproduced).
   NOT proved: the row construction of aggregate_timeseries and the aggregates of
   aggregate_local_results — checked on the written CSV/JSON of recorded exact runs, column by
   column against the simulated quantities (one row per step, grid supply = -round3(connector
   power), per-station power and their sum, fixed load, generation, battery power and stored
   energy, occupied stations), and the cost round trip (costs from the written files with the
   same options = in-run costs) by running simulate.py's and calculate_costs.py's code paths. *)
From Coq Require Import Reals.
From SV Require Import Num RNum Report ReportProps.
Open Scope R_scope.
Theorem C18_split : forall g ge cs, ge <= 0 -> cs <= 0 ->
  let '(gen, v2g, bat) := @split_feedin R RNum g ge cs in
  0 <= gen /\ 0 <= v2g /\ 0 <= bat /\ gen + v2g + bat = Rmax g 0 /\
  gen = Rmin (- ge) (Rmax g 0) /\ v2g = Rmin (- cs) (Rmax g 0 - gen) /\ bat = Rmax g 0 - gen - v2g.
Proof. exact split_spec. Qed.
Print Assumptions C18_split.
Theorem C18_split_nonneg : forall g ge cs,
  let '(gen, v2g, bat) := @split_feedin R RNum g ge cs in 0 <= gen /\ 0 <= v2g /\ 0 <= bat.
Proof. exact split_nonneg. Qed.
Print Assumptions C18_split_nonneg.

(* the split_feedin model IS the translated source of report.split_feedin (up to the final rounding, which the
   translator drops and the correspondence applies) *)
From SV Require Import Tie.
From SVG Require Import Src.
Theorem C18_split_feedin_is_source : forall grid generation cs_sum : R,
  @split_feedin_src R RNum grid generation cs_sum = @split_feedin R RNum grid generation cs_sum.
Proof. intros. apply split_feedin_is_source. Qed.
Print Assumptions C18_split_feedin_is_source.

(* ---- the executable (Q) instance that is run against /repo and the proof (R) instance agree (Transfer*.v) ---- *)
From Coq Require Import QArith Qminmax Qreals.
From SV Require Import Transfer TransferAll ExecProps.
Theorem C18_exec_split_nonneg : forall tbl g ge cs,
  let '(gen, v2g, bat) := @split_feedin Q (QNum tbl) g ge cs in (0 <= gen)%Q /\ (0 <= v2g)%Q /\ (0 <= bat)%Q.
Proof. exact split_exec_nonneg. Qed.
Print Assumptions C18_exec_split_nonneg.
Theorem C18_exec_split_sum : forall tbl g ge cs, (ge <= 0)%Q -> (cs <= 0)%Q ->
  let '(gen, v2g, bat) := @split_feedin Q (QNum tbl) g ge cs in (gen + v2g + bat == Qmax g 0)%Q.
Proof. exact split_exec_sum. Qed.
Print Assumptions C18_exec_split_sum.
