(* Property C16 — simulations are deterministic, isolated and invariant under time relabelling.
   PARTIAL.  Proved (any number type, axiom-free): shifting EVERY timestamp of the event model
   (clock, start/signal times, announced arrivals/departures) by the same amount commutes with
   event delivery and with the pre-step of every timestep — loads, limits, prices, SoCs,
   counters and errors are unchanged.  (This is stronger than whole weeks; the weekday only
   enters through the average fixed load, core standing times and window lookups, which are
   outside this model.)  Determinism of the models is trivial (they are functions).
   NOT proved, because a functional model cannot exhibit it: object aliasing, state kept between
   runs on one Scenario object, mutation of the scenario definition.  These are exercised as
   histories on the implementation (same scenario twice from a fresh load and on the same
   object; deep comparison of the components before/after; shift by k*7 days; an added unrelated
   grid connector) — implementation-vs-implementation tests, labelled as such. *)
From Coq Require Import ZArith List.
From SV Require Import Num Kernel Events EventsShift.
Open Scope Z_scope.

Theorem C16_delivery_shift_invariant : forall T d t0 delta n (evs:list (@event_t T)),
  event_steps (t0 + d) delta n (map (sh_ev d) evs) = map (map (sh_ev d)) (event_steps t0 delta n evs).
Proof. intros. apply event_steps_shift. Qed.
Print Assumptions C16_delivery_shift_invariant.

Theorem C16_pre_step_shift_invariant : forall T (N:Num T) d o (w:@world T) evs,
  @pre_step T N o (sh_world d w) (map (sh_ev d) evs) =
  (sh_world d (fst (@pre_step T N o w evs)), snd (@pre_step T N o w evs)).
Proof. intros. apply pre_step_shift. Qed.
Print Assumptions C16_pre_step_shift_invariant.

(* what the shift leaves untouched *)
Theorem C16_shift_keeps_values : forall T d (w:@world T),
  w_gcs (sh_world d w) = w_gcs w /\ w_desired_cnt (sh_world d w) = w_desired_cnt w /\ w_margin_cnt (sh_world d w) = w_margin_cnt w /\
  map (fun kv => (fst kv, v_soc (snd kv))) (w_veh (sh_world d w)) = map (fun kv => (fst kv, v_soc (snd kv))) (w_veh w).
Proof. intros. repeat split; try reflexivity. cbn. rewrite map_map. reflexivity. Qed.
Print Assumptions C16_shift_keeps_values.

(* isolation (greedy / balanced decision model): the step of one vehicle leaves every unrelated connector, station and
   vehicle entry untouched — no hidden coupling between connectors in the modelled strategies *)
From SV Require Import Battery Strat StratLocal.
Theorem C16_unrelated_connector_untouched : forall T (N:Num T) (s:strat) (o:@sopts T) w cmds avail vid w' cmds' avail',
  @vehicle_step T N s o (w, cmds, avail) vid = Ok (w', cmds', avail') ->
  exists g0 c0, (forall g, g <> g0 -> Strat.lookup g (sw_gcs w') = Strat.lookup g (sw_gcs w) /\ Strat.lookup g avail' = Strat.lookup g avail) /\
                (forall c, c <> c0 -> Strat.lookup c (sw_css w') = Strat.lookup c (sw_css w) /\ Strat.lookup c cmds' = Strat.lookup c cmds) /\
                (forall v, v <> vid -> Strat.lookup v (sw_veh w') = Strat.lookup v (sw_veh w)) /\
                sw_bats w' = sw_bats w /\ sw_order w' = sw_order w.
Proof. intros T N. exact (@vehicle_step_local T N). Qed.
Print Assumptions C16_unrelated_connector_untouched.
