(* Property C01 — battery SoC stays in bounds and energy is conserved on every (dis)charge.
   Model: theories/Battery.v (Battery.load/unload/get_available_power/_adjust_soc, repaired
   revision; the pinned upstream loop condition is the [false] instance of the first argument of
   [outer]); proofs: theories/BatteryProps.v, on the R instance (true exp/ln).
   Quantified over ALL curves (any point list the constructor accepts), capacities > 0,
   efficiencies > 0, start SoC <= 1 (negative allowed), durations > 0, every combination of
   max_power / target SoC / target power.
   PARTIAL — proved: direction, clipping at 100 %, reported delta, non-negative power, the energy
   account (charging: within the code's clipping tolerance capacity*EPS and exact below 100 %;
   discharging: exact), negative SoC left alone, get_available_power is pure.
   NOT proved (checked on every generated sequence by the Python predicate of ./check C01,
   classes C01/soc-bounds, C01/power-limit, C01/error-...): that the SoC stops at the requested
   target (section-level ingredient: C02_section_between), that the average power stays below
   the limit and the curve (ingredient: C02_section_energy_bounds), and that every request
   completes without error / the loop needs at most 2*|points|+4 iterations. *)
From Coq Require Import Reals.
From SV Require Import Num RNum Curve Battery BatteryProps.
Open Scope R_scope.

Theorem C01_load : forall (b:@bat R) hours mp tg b' p d,
  @load R RNum b hours mp tg = Ok (b', p, d) -> wf_bat b -> 0 < hours ->
  b' = set_soc b (soc b') /\ d = soc b' - soc b /\ soc b <= soc b' <= 1 /\ 0 <= p /\
  0 <= p * eff b * hours - cap b * (soc b' - soc b) < cap b * eps b.
Proof. exact load_spec. Qed.
Print Assumptions C01_load.

Theorem C01_unload : forall (b:@bat R) hours mp tg b' p d,
  @unload R RNum b hours mp tg = Ok (b', p, d) -> wf_bat b -> 0 < hours ->
  b' = set_soc b (soc b') /\ d = soc b - soc b' /\ soc b' <= soc b /\ 0 <= p /\
  p * hours = eff b * (cap b * (soc b - soc b')) /\ (soc b <= 0 -> soc b' = soc b).
Proof. exact unload_spec. Qed.
Print Assumptions C01_unload.

(* loop level, for every fuel, curve, section index: the invariant behind C01_load *)
Theorem C01_charge_loop : forall fx fuel c capa e tgt s rem bidx bsoc en s' en',
  @outer R RNum fx fuel c capa e false tgt s rem bidx bsoc en = Ok (s', en') ->
  0 < capa -> 0 < e -> tgt <= 1 -> s <= 1 ->
  s <= s' <= 1 /\ 0 <= (en' - en) - capa * (s' - s) < capa * e /\ (s = 1 -> s' = 1 /\ en' = en) /\
  (s' < 1 -> en' - en = capa * (s' - s)).
Proof. exact outer_charge. Qed.
Print Assumptions C01_charge_loop.

Theorem C01_discharge_loop : forall fx fuel c capa e tgt s rem bidx bsoc en s' en',
  @outer R RNum fx fuel c capa e true tgt s rem bidx bsoc en = Ok (s', en') ->
  0 < capa -> s <= 1 -> s' <= s /\ en' - en = capa * (s - s').
Proof. exact outer_discharge. Qed.
Print Assumptions C01_discharge_loop.

Theorem C01_avail_pure : forall (b:@bat R) hours b' p, @available_power R RNum b hours = Ok (b', p) -> b' = b.
Proof. exact available_power_pure. Qed.
Print Assumptions C01_avail_pure.

(* the 'unlimited' 2^64 kWh stationary battery satisfies the hypotheses of all of the above *)
Theorem C01_unlimited : forall (b:@bat R), unlimited b -> 0 < eff b -> 0 < eps b -> soc b <= 1 -> wf_bat b.
Proof. exact unlimited_wf. Qed.
Print Assumptions C01_unlimited.

(* ---- the executable (Q) instance that is run against /repo and the proof (R) instance agree (Transfer*.v) ---- *)
(* Battery uses exp and ln: the R side of the transfer answers them from the same recorded table ([RNumT tbl]); it differs
   from [RNum], the instance of the theorems above, only in those two fields, and every table entry is validated against
   60-digit arithmetic on every run. *)
From Coq Require Import QArith Qreals.
From Param Require Import Param.
From SV Require Import Transfer TransferAll.
Theorem C01_exec_load_transfer : forall tbl b b' h mp mp' tg tg',
  SV_o_Battery_o_bat_R Q R QR b b' -> option_R Q R QR mp mp' -> SV_o_Battery_o_target_R Q R QR tg tg' ->
  res_R _ _ (prod_R _ _ (prod_R _ _ (SV_o_Battery_o_bat_R Q R QR) Q R QR) Q R QR)
    (@Battery.load Q (QNum tbl) b h mp tg) (@Battery.load R (RNumT tbl) b' (Q2R h) mp' tg').
Proof. exact load_transfer. Qed.
Print Assumptions C01_exec_load_transfer.
Theorem C01_exec_unload_transfer : forall tbl b b' h mp mp' tg tg',
  SV_o_Battery_o_bat_R Q R QR b b' -> option_R Q R QR mp mp' -> SV_o_Battery_o_target_R Q R QR tg tg' ->
  res_R _ _ (prod_R _ _ (prod_R _ _ (SV_o_Battery_o_bat_R Q R QR) Q R QR) Q R QR)
    (@Battery.unload Q (QNum tbl) b h mp tg) (@Battery.unload R (RNumT tbl) b' (Q2R h) mp' tg').
Proof. exact unload_transfer. Qed.
Print Assumptions C01_exec_unload_transfer.
