(* Property C07 — events take effect at the right timestep and none is lost.
   Model: theories/Events.v (Events.get_event_steps, EnergyValuesList.get_events, the queue
   and per-type effects of Strategy.step), tied to /repo by exact correspondence on random
   event histories (./check C07), which also compares the implementation with an independent
   declarative reference.  Scheduling theorems hold for any number type and are axiom-free. *)
From Coq Require Import ZArith Reals List Bool String Sorted Permutation.
From SV Require Import Num RNum Kernel KernelProps Events EventsProps.
Import ListNotations.
Open Scope Z_scope.

(* delivery step = ceiling of (signal - t0)/interval: never before the event is signalled *)
Theorem C07_delivery_is_ceiling : forall T t0 delta (e:@event_t T), 0 < delta ->
  let i := event_index t0 delta e in (i - 1) * delta < e_signal e - t0 <= i * delta.
Proof. intros. apply event_index_ceil. assumption. Qed.
Print Assumptions C07_delivery_is_ceiling.

(* events signalled before the start go to step 0; each event is delivered to exactly one step
   (buckets are order-preserving filters of the input) *)
Theorem C07_buckets : forall T t0 delta n (evs:list (@event_t T)) i, (i < n)%nat ->
  bucket t0 delta n evs i = filter (fun e => match delivered_at t0 delta n e with Some j => Nat.eqb j i | None => false end) evs.
Proof. intros. apply bucket_spec. assumption. Qed.
Print Assumptions C07_buckets.

(* only events signalled at or after the end of the horizon are ignored *)
Theorem C07_only_late_ignored : forall T t0 delta n (e:@event_t T), (0 < n)%nat ->
  (delivered_at t0 delta n e = None <-> Z.of_nat n <= event_index t0 delta e).
Proof. intros. apply ignored_iff_late. assumption. Qed.
Print Assumptions C07_only_late_ignored.

(* one pre-step: the clock advances by one interval; exactly the queued events that have
   started are applied, in chronological (stable) order; the others stay queued, sorted —
   so an event takes effect at the first step at or after its start, once, and none is lost *)
Theorem C07_step_applies_due_events : forall T (N:Num T) o w (evs:list (@event_t T)) w',
  @pre_step T N o w evs = (w', None) ->
  w_time w' = w_time w + o_interval o /\
  sortedS (w_future w') /\
  Forall (fun e => w_time w' < e_start e) (w_future w') /\
  exists due, Permutation (w_future w ++ evs) (due ++ w_future w') /\
              Forall (fun e => e_start e <= w_time w') due /\ sortedS due.
Proof. intros. eapply pre_step_queue. eassumption. Qed.
Print Assumptions C07_step_applies_due_events.

Theorem C07_queue_loop : forall T (N:Num T) o (evs:list (@event_t T)) w, sortedS evs ->
  exists due later, evs = due ++ later /\ Forall (fun e => e_start e <= w_time w) due /\
    Forall (fun e => w_time w < e_start e) later /\ @apply_due T N o w evs = @apply_all T N o w due later.
Proof. intros. apply apply_due_split. assumption. Qed.
Print Assumptions C07_queue_loop.

Theorem C07_sort_is_permutation_and_sorted : forall T (l:list (@event_t T)),
  Permutation (@sort_events T l) l /\ sortedS (@sort_events T l).
Proof. intros. split; [apply sort_events_perm|apply sort_events_sorted]. Qed.
Print Assumptions C07_sort_is_permutation_and_sorted.

(* a time series: factor*value at start + i*step, and zero after its last value *)
Theorem C07_series_values : forall mk gc name (step:Z) foresight (factor:R) start0 (vals:list R) start i v,
  nth_error vals i = Some v ->
  exists e, nth_error (@series_events R RNum mk gc name start step foresight factor start0 vals) i = Some e /\
    e_start e = start + Z.of_nat i * step /\ e_kind e = mk gc name (v * factor)%R.
Proof. intros. eapply series_nth. eassumption. Qed.
Print Assumptions C07_series_values.
Theorem C07_series_tail_zero : forall mk gc name (step:Z) foresight (factor:R) start0 (vals:list R) start,
  exists e, nth_error (@series_events R RNum mk gc name start step foresight factor start0 vals) (List.length vals) = Some e /\
    e_start e = start + Z.of_nat (List.length vals) * step /\ e_kind e = mk gc name 0%R.
Proof. intros. apply series_tail_zero. Qed.
Print Assumptions C07_series_tail_zero.

(* a grid-operator limit can lower but never raise the connector rating — for every event *)
Theorem C07_limit_only_lowers : forall o (w:@world R) ev, limits_ok w -> limits_ok (fst (@apply_event R RNum o w ev)).
Proof. exact limit_preserved. Qed.
Print Assumptions C07_limit_only_lowers.

(* ---- the executable (Q) instance that is run against /repo and the proof (R) instance agree (Transfer*.v) ---- *)
From Coq Require Import QArith Qreals.
From Param Require Import Param.
From SV Require Import Transfer TransferAll.
Theorem C07_exec_pre_step_is_proof_model : forall tbl o o' w w' evs evs',
  SV_o_Events_o_options_R Q R QR o o' -> SV_o_Events_o_world_R Q R QR w w' ->
  list_R _ _ (SV_o_Events_o_event_t_R Q R QR) evs evs' ->
  prod_R _ _ (SV_o_Events_o_world_R Q R QR) _ _ (option_R _ _ err_R) (@pre_step Q (QNum tbl) o w evs) (@pre_step R RNum o' w' evs').
Proof. exact pre_step_transfer. Qed.
Print Assumptions C07_exec_pre_step_is_proof_model.
