(* Battery.v — model of spice_ev/battery.py (Battery.load / unload / get_available_power /
   _adjust_soc), generic in Num.  Python asserts: 4: discharge new_soc <= soc, 5: charge
   new_soc >= soc, 6: energy_delta > 0, 7: soc < 1 + EPS, 8: "choose either target power or SoC".
   [hours] is timedelta.total_seconds()/3600 (a float in the code: it enters as an input
   carrying the double's exact value); [eps] is Battery.EPS = 1e-5 / capacity. *)
From Coq Require Import ZArith QArith List Bool Lia.
From SV Require Import Num Curve.
Import ListNotations.

Section Model.
Context {T} {N: Num T}.
Local Infix "+" := nadd. Local Infix "-" := nsub. Local Infix "*" := nmul.
Local Infix "<=?" := nleb. Local Infix "<?" := nltb.

Record bat := { cap:T; lc:@curve T; uc:@curve T; soc:T; eff:T; eps:T }.
Definition set_soc (b:bat) (s:T) : bat := {| cap:=cap b; lc:=lc b; uc:=uc b; soc:=s; eff:=eff b; eps:=eps b |}.

Definition sgn (dis:bool) (x:T) : T := if dis then nneg x else x.     (* sign * x *)

(* inner loop: while sign*(boundary_soc - soc) < EPS: next section *)
Fixpoint advance (fuel:nat) (c:@curve T) (dis:bool) (tgt s e:T) (bidx:Z) (bsoc:T) : res (Z*T) := match fuel with
  | O => Err OutOfFuel
  | S f => if sgn dis (bsoc - s) <? e then
      let bidx' := if dis then (bidx - 1)%Z else (bidx + 1)%Z in
      if dis then
        if (0 <=? bidx')%Z then let! p := nthp (pts c) (Z.to_nat bidx') in advance f c dis tgt s e bidx' (nmax tgt (fst p))
        else advance f c dis tgt s e bidx' tgt
      else
        (* charging_curve.points[boundary_idx]: Python indexing; a negative index cannot occur here *)
        let! p := nthp (pts c) (Z.to_nat bidx') in advance f c dis tgt s e bidx' (nmin tgt (fst p))
    else Ok (bidx,bsoc) end.

Definition sign_of (t:T) : T := if zero <? t then one else if t <? zero then nneg one else zero.  (* (t>0)-(t<0) *)

(* try: ... except (ValueError, ZeroDivisionError): t = sign * remaining_hours *)
Definition catch_num (r:res T) (fb:T) : res T := match r with
  | Ok t => Ok t | Err ZeroDiv => Ok fb | Err ValueErr => Ok fb | Err x => Err x end.

(* [stop_at_zero]: the repaired code leaves the loop when the curve offers no power at the
   current SoC (y1 < EPS); the pinned upstream revision only stops when y2 < EPS as well *)
Fixpoint outer (stop_at_zero:bool) (fuel:nat) (c:@curve T) (capa e:T) (dis:bool) (tgt:T)
               (s rem:T) (bidx:Z) (bsoc:T) (energy:T) : res (T*T) :=
  match fuel with O => Err OutOfFuel | S f =>
  if (e <? rem) && (e <? sgn dis (tgt - s)) then
    let! (bidx1,bsoc1) := advance (length (pts c) + 3) c dis tgt s e bidx bsoc in
    let x1 := s in let x2 := bsoc1 in
    let! y1 := power_from_soc c x1 in let! y2 := power_from_soc c x2 in
    let dx := x2 - x1 in let dy := y2 - y1 in
    if (y1 <? e) && ((y2 <? e) || stop_at_zero) then Ok (s, energy) else
    let! m := ndiv dy dx in
    let n := y1 - m * x1 in
    let flat := nabs m <? e in
    let fallback := sgn dis rem in
    let! t0 := catch_num (if flat then ndiv ((x2 - s) * capa) n
                else (let! nm := ndiv n m in let! q := ndiv (x2 + nm) (s + nm) in let! l := nln q in
                      ndiv (l * capa) m)) fallback in
    let t := sign_of t0 * nmin (nabs t0) rem in
    let! new := (if flat then (let! nc := ndiv n capa in Ok (s + nc * t))
                 else (let! nm := ndiv n m in let! mc := ndiv m capa in let! ex := nexp (mc * t) in
                       Ok (nneg nm + (nm + s) * ex))) in
    if (if dis then new <=? s else s <=? new) then
      let ed := nabs (new - s) * capa in
      if zero <? ed then
        if new <? one + e then
          outer stop_at_zero f c capa e dis tgt (nmin new one) (rem - nabs t) bidx1 bsoc1 (energy + ed)
        else Err (AssertFail 7)
      else Err (AssertFail 6)
    else Err (AssertFail (if dis then 4 else 5))
  else Ok (s, energy) end.

Definition outer_fuel (c:@curve T) : nat := (2 * length (pts c) + 4)%nat.

Definition adjust_soc (fx:bool) (b:bat) (hours:T) (c:@curve T) (tgt:T) : res (bat*T) :=
  let dis := tgt <? soc b in
  let! (i1,i2) := section_boundary c (soc b) in
  let! bi := (if dis then (let! p := nthp (pts c) i1 in Ok (Z.of_nat i1, nmax tgt (fst p)))
              else (let! p := nthp (pts c) i2 in Ok (Z.of_nat i2, nmin tgt (fst p)))) in
  let! (s', en) := outer fx (outer_fuel c) c (cap b) (eps b) dis tgt (soc b) hours (fst bi) (snd bi) zero in
  (* try: avg = sum(energies)/total_time  except ZeroDivisionError: avg = 0 *)
  let avg := match ndiv en hours with Ok a => a | Err _ => zero end in
  Ok (set_soc b s', avg).

Inductive target := TNone | TSoc (s:T) | TPower (p:T) | TBoth (s p:T).
Definition load_gen (fx:bool) (b:bat) (hours:T) (maxpow: option T) (tg:target) : res (bat*T*T) :=
  let! tgt := (match tg with TNone => Ok one | TSoc s => Ok s
     | TPower p => let! d := ndiv (p * eff b * hours) (cap b) in Ok (soc b + d)
     | TBoth _ _ => Err (AssertFail 8) end) in
  if eps b <? soc b - tgt then Ok (b, zero, zero) else
  let mp := match maxpow with Some p => p | None => maxp (lc b) end in
  let tgt := nmin one tgt in
  let! cl := clamped (lc b) mp one (eff b) in
  let! (b', avg) := adjust_soc fx b hours cl tgt in
  let! avg' := ndiv avg (eff b) in
  Ok (b', avg', soc b' - soc b).
Definition unload_gen (fx:bool) (b:bat) (hours:T) (maxpow: option T) (tg:target) : res (bat*T*T) :=
  let! tgt := (match tg with TNone => Ok zero | TSoc s => Ok s
     | TPower p => let! pe := ndiv p (eff b) in let! d := ndiv (pe * hours) (cap b) in Ok (soc b - d)
     | TBoth _ _ => Err (AssertFail 8) end) in
  let tgt := nmax (nmin (soc b) zero) tgt in
  if eps b <? tgt - soc b then Ok (b, zero, zero) else
  let mp := match maxpow with Some p => p | None => maxp (uc b) end in
  let! ie := ndiv one (eff b) in
  let! cl := clamped (uc b) mp one ie in
  let! (b', avg) := adjust_soc fx b hours cl tgt in
  Ok (b', avg * eff b, soc b - soc b').
Definition load := load_gen true.
Definition unload := unload_gen true.
(* get_available_power: old = soc; p = unload(timedelta)['avg_power']; soc = old *)
Definition available_power (b:bat) (hours:T) : res (bat*T) :=
  let! (b', p, _) := unload b hours None TNone in Ok (b, p).
End Model.
