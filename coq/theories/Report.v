(* Report.v — model of report.split_feedin (unrounded parts; the 3-decimal rounding is applied
   by ReportRun.v for the comparison).  Generic in Num. *)
From Coq Require Import ZArith QArith List Bool Lia.
From SV Require Import Num.
Import ListNotations.
Section Model.
Context {T} {N: Num T}.
Local Infix "+" := nadd. Local Infix "-" := nsub.
(* split_feedin(grid, generation, cs_sum): generation first, then V2G, rest battery *)
Definition split_feedin (grid generation cs_sum:T) : T * T * T :=
  let acc := grid in
  let gen := nmax (nmin (nneg generation) acc) zero in
  let acc := acc - gen in
  let v2g := nmax (nmin (nneg cs_sum) acc) zero in
  let acc := acc - v2g in
  let bat := nmax acc zero in
  (gen, v2g, bat).
End Model.
