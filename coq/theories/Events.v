(* Events.v — model of Events.get_event_steps, EnergyValuesList.get_events and the event
   processing of Strategy.step (strategy.py): queue handling, per-type effects, the vehicle
   trip state machine, the negative-SoC policy, counters, the reset of station/battery loads
   and the cost-or-schedule check.  Times are integers (microseconds); generic in Num.
   Python asserts: 10 fixed load / generation named like a charging station, 11 arrival
   without soc_delta. *)
From Coq Require Import ZArith QArith List Bool String Lia.
From SV Require Import Num Kernel.
Import ListNotations.
Open Scope Z_scope.

Section Model.
Context {T} {N: Num T}.
Local Infix "+" := nadd. Local Infix "-" := nsub. Local Infix "*" := nmul.
Local Infix "<=?" := nleb. Local Infix "<?" := nltb.

(* ---------- components ---------- *)
Record gconn := { g_maxp : T; g_cur : option T; g_loads : list (string * T); g_cost : @cost T;
                  g_target : option T; g_window : option bool }.
Record vehicle := { v_cs : option string; v_soc : T; v_desired : T; v_etd : option Z; v_eta : option Z;
                    v_schedule : option T; v_delta : option T }.
Record options := { o_eps : T; o_margin : T; o_allow_neg : bool; o_reset_neg : bool; o_interval : Z }.
Inductive vtype := VArrival | VDeparture | VOther.
Record update := { u_cs : option (option string); u_etd : option (option Z); u_eta : option (option Z);
                   u_desired : option T; u_delta : option T; u_schedule : option T }.
Inductive ekind :=
  | EFixed (gc name:string) (value:T)
  | EGen (gc name:string) (value:T)
  | ESignal (gc:string) (maxp:option T) (cst:option (@cost T)) (target:option T) (window:option bool)
  | EVeh (vid:string) (etype:vtype) (upd:update).
Record event_t := { e_start : Z; e_signal : Z; e_kind : ekind }.
Record world := { w_time : Z; w_gcs : list (string * gconn); w_veh : list (string * vehicle);
                  w_cs : list string; w_bat : list string; w_future : list event_t;
                  w_desired_cnt : nat; w_margin_cnt : nat; w_tracker : list (string * list Z) }.

(* ---------- dictionaries as insertion-ordered association lists ---------- *)
Fixpoint lookup {A} (k:string) (l:list (string*A)) : option A := match l with
  | [] => None | (k',v)::r => if String.eqb k k' then Some v else lookup k r end.
Fixpoint assign {A} (k:string) (v:A) (l:list (string*A)) : list (string*A) := match l with   (* d[k] = v *)
  | [] => [(k,v)] | (k',v')::r => if String.eqb k k' then (k',v)::r else (k',v') :: assign k v r end.
Definition mem (k:string) (l:list string) : bool := existsb (String.eqb k) l.

(* ---------- get_event_steps ---------- *)
(* index = -((start_time - event.signal_time) // interval) *)
Definition event_index (t0 delta:Z) (e:event_t) : Z := (- ((t0 - e_signal e) / delta))%Z.
Fixpoint bucket (t0 delta:Z) (n:nat) (evs:list event_t) (i:nat) : list event_t := match evs with
  | [] => []
  | e :: r => let idx := event_index t0 delta e in
              let here := if (idx <? 0)%Z then Nat.eqb i 0 else if (Z.of_nat n <=? idx)%Z then false else Z.eqb idx (Z.of_nat i) in
              if here then e :: bucket t0 delta n r i else bucket t0 delta n r i end.
Definition event_steps (t0 delta:Z) (n:nat) (evs:list event_t) : list (list event_t) :=
  map (bucket t0 delta n evs) (seq 0 n).

(* EnergyValuesList.get_events: values + [0], value * factor, perfect foresight or not *)
Fixpoint series_events (mk:string -> string -> T -> ekind) (gc name:string) (start step:Z) (foresight:bool)
                       (factor:T) (start0:Z) (vals:list T) : list event_t := match vals with
  | [] => [{| e_start := start; e_signal := if foresight then start0 else start; e_kind := mk gc name (zero * factor) |}]
  | v :: r => {| e_start := start; e_signal := if foresight then start0 else start; e_kind := mk gc name (v * factor) |}
              :: series_events mk gc name (start + step)%Z step foresight factor start0 r end.

(* ---------- Strategy.step ---------- *)
(* future_events.sort(key=start_time): stable *)
Fixpoint ins_ev (e:event_t) (l:list event_t) : list event_t := match l with
  | [] => [e] | x :: r => if (e_start x <? e_start e)%Z then x :: ins_ev e r else e :: x :: r end.
Definition sort_events (l:list event_t) : list event_t := fold_right ins_ev [] l.

Definition upd_gc (w:world) (k:string) (g:gconn) : world :=
  {| w_time := w_time w; w_gcs := assign k g (w_gcs w); w_veh := w_veh w; w_cs := w_cs w; w_bat := w_bat w;
     w_future := w_future w; w_desired_cnt := w_desired_cnt w; w_margin_cnt := w_margin_cnt w; w_tracker := w_tracker w |}.
Definition set_loads (g:gconn) (l:list (string*T)) : gconn :=
  {| g_maxp := g_maxp g; g_cur := g_cur g; g_loads := l; g_cost := g_cost g; g_target := g_target g; g_window := g_window g |}.

Definition apply_update (v:vehicle) (u:update) : vehicle :=
  {| v_cs := match u_cs u with Some x => x | None => v_cs v end;
     v_soc := v_soc v;
     v_desired := match u_desired u with Some x => x | None => v_desired v end;
     v_etd := match u_etd u with Some x => x | None => v_etd v end;
     v_eta := match u_eta u with Some x => x | None => v_eta v end;
     v_schedule := match u_schedule u with Some x => Some x | None => v_schedule v end;
     v_delta := match u_delta u with Some x => Some x | None => v_delta v end |}.
Definition with_soc (v:vehicle) (s:T) : vehicle :=
  {| v_cs := v_cs v; v_soc := s; v_desired := v_desired v; v_etd := v_etd v; v_eta := v_eta v;
     v_schedule := v_schedule v; v_delta := v_delta v |}.

Definition track (k:string) (t:Z) (tr:list (string * list Z)) : list (string * list Z) :=
  match lookup k tr with Some l => assign k (l ++ [t])%list tr | None => (tr ++ [(k,[t])])%list end.

(* one event; returns the new world and an error if Python raises *)
Definition apply_event (o:options) (w:world) (ev:event_t) : world * option err :=
  match e_kind ev with
  | EFixed gc name value =>
      match lookup gc (w_gcs w) with None => (w, None)
      | Some g => if mem name (w_cs w) then (w, Some (AssertFail 10))
                  else (upd_gc w gc (set_loads g (assign name value (g_loads g))), None) end
  | EGen gc name value =>
      if mem name (w_cs w) then (w, Some (AssertFail 10)) else
      match lookup gc (w_gcs w) with None => (w, None)
      | Some g => (upd_gc w gc (set_loads g (assign name (nneg value) (g_loads g))), None) end
  | ESignal gc maxp cst target window =>
      match lookup gc (w_gcs w) with None => (w, None)
      | Some g =>
        let g' := {| g_maxp := g_maxp g; g_cur := apply_limit (g_maxp g) (g_cur g) maxp; g_loads := g_loads g;
                     g_cost := match cst with Some c => c | None => g_cost g end;
                     g_target := match target with Some t => Some t | None => g_target g end;
                     g_window := match window with Some b => Some b | None => g_window g end |} in
        (upd_gc w gc g', None) end
  | EVeh vid etype upd =>
      match lookup vid (w_veh w) with None => (w, None)
      | Some v0 =>
        let connected := match v_cs v0 with Some _ => true | None => false end in
        let v1 := apply_update v0 upd in
        let put (v:vehicle) (dc mc:nat) tr : world :=
          {| w_time := w_time w; w_gcs := w_gcs w; w_veh := assign vid v (w_veh w); w_cs := w_cs w; w_bat := w_bat w;
             w_future := w_future w; w_desired_cnt := dc; w_margin_cnt := mc; w_tracker := tr |} in
        match etype with
        | VOther => (put v1 (w_desired_cnt w) (w_margin_cnt w) (w_tracker w), None)
        | VDeparture =>
            let v2 := {| v_cs := v_cs v1; v_soc := v_soc v1; v_desired := v_desired v1; v_etd := None; v_eta := v_eta v1;
                         v_schedule := v_schedule v1; v_delta := v_delta v1 |} in
            let v3 := if (e_start ev <? w_time w - o_interval o)%Z then with_soc v2 (v_desired v2) else v2 in
            let dc := if connected && (v_soc v3 <? v_desired v3 - o_eps o) then S (w_desired_cnt w) else w_desired_cnt w in
            let mc := if connected && (zero <=? v_soc v3) && (v_soc v3 <? (one - o_margin o) * v_desired v3 - o_eps o)
                      then S (w_margin_cnt w) else w_margin_cnt w in
            let v4 := {| v_cs := None; v_soc := v_soc v3; v_desired := v_desired v3; v_etd := v_etd v3; v_eta := v_eta v3;
                         v_schedule := v_schedule v3; v_delta := v_delta v3 |} in
            (put v4 dc mc (w_tracker w), None)
        | VArrival =>
            match v_delta v1 with
            | None => (put v1 (w_desired_cnt w) (w_margin_cnt w) (w_tracker w), Some (AssertFail 11))
            | Some d =>
              let v2 := with_soc v1 (v_soc v1 + d) in
              let clear (v:vehicle) := {| v_cs := v_cs v; v_soc := v_soc v; v_desired := v_desired v; v_etd := v_etd v;
                                          v_eta := v_eta v; v_schedule := v_schedule v; v_delta := None |} in
              if v_soc v2 + o_eps o <? zero then
                let tr := track vid (w_time w) (w_tracker w) in
                if o_allow_neg o then
                  let v3 := if o_reset_neg o then with_soc v2 zero else v2 in
                  (put (clear v3) (w_desired_cnt w) (w_margin_cnt w) tr, None)
                else (put v2 (w_desired_cnt w) (w_margin_cnt w) tr, Some RuntimeErr)
              else (put (clear v2) (w_desired_cnt w) (w_margin_cnt w) (w_tracker w), None)
            end
        end
      end
  end.

Definition set_future (w:world) (f:list event_t) : world :=
  {| w_time := w_time w; w_gcs := w_gcs w; w_veh := w_veh w; w_cs := w_cs w; w_bat := w_bat w;
     w_future := f; w_desired_cnt := w_desired_cnt w; w_margin_cnt := w_margin_cnt w; w_tracker := w_tracker w |}.

(* while future_events and future_events[0].start_time <= current_time: pop(0), apply *)
Fixpoint apply_due (o:options) (w:world) (evs:list event_t) : world * option err := match evs with
  | [] => (set_future w [], None)
  | e :: r => if (e_start e <=? w_time w)%Z then
                match apply_event o (set_future w r) e with
                | (w', None) => apply_due o w' r
                | (w', Some x) => (set_future w' r, Some x) end
              else (set_future w evs, None) end.

(* reset charging-station and battery loads; check cost or schedule *)
Definition reset_loads (w:world) (g:gconn) : gconn :=
  set_loads g (filter (fun kv => negb (mem (fst kv) (w_cs w)) && negb (mem (fst kv) (w_bat w))) (g_loads g)).
Definition cost_empty (c:@cost T) : bool := match c with CNone => true | _ => false end.
(* Python deletes the station/battery loads connector by connector and raises at the first connector
   without cost and target: connectors after it keep their station loads *)
Fixpoint finish_go (w:world) (done todo:list (string*gconn)) : list (string*gconn) * option err := match todo with
  | [] => (done, None)
  | (k,g) :: r => let g' := reset_loads w g in
      if cost_empty (g_cost g') && (match g_target g' with None => true | Some _ => false end)
      then ((done ++ (k,g') :: r)%list, Some GenericErr) else finish_go w (done ++ [(k,g')])%list r end.
Definition finish (w:world) : world * option err :=
  let '(gcs2, e) := finish_go w [] (w_gcs w) in
  ({| w_time := w_time w; w_gcs := gcs2; w_veh := w_veh w; w_cs := w_cs w; w_bat := w_bat w;
      w_future := w_future w; w_desired_cnt := w_desired_cnt w; w_margin_cnt := w_margin_cnt w; w_tracker := w_tracker w |}, e).

Definition pre_step (o:options) (w:world) (evs:list event_t) : world * option err :=
  let w1 := {| w_time := (w_time w + o_interval o)%Z; w_gcs := w_gcs w; w_veh := w_veh w; w_cs := w_cs w; w_bat := w_bat w;
               w_future := w_future w; w_desired_cnt := w_desired_cnt w; w_margin_cnt := w_margin_cnt w; w_tracker := w_tracker w |} in
  let sorted := sort_events (w_future w1 ++ evs) in
  match apply_due o w1 sorted with
  | (w2, Some x) => (w2, Some x)
  | (w2, None) => finish w2 end.
End Model.
