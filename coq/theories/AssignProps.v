(* AssignProps.v — theorems about the Assign model (property C20). Axiom-free (Z, lists, strings). *)
From Coq Require Import ZArith List Bool String Lia Sorted Permutation.
From SV Require Import Assign.
Import ListNotations.
Open Scope Z_scope.

Definition le_e (a b:entry) : Prop := fst a <= fst b.
Definition sortedE (l:list entry) : Prop := StronglySorted le_e l.

(* ---------- pop ---------- *)
Lemma pop_spec d : forall ip idl ip' idl', pop d ip idl = (ip', idl') ->
  exists moved, ip = (moved ++ ip')%list /\ idl' = (idl ++ moved)%list /\
    Forall (fun e => fst e < d) moved /\ (match ip' with [] => True | e :: _ => d <= fst e end).
Proof.
  induction ip as [|e r IH]; intros idl ip' idl' H; cbn in H.
  - injection H as <- <-. exists []. repeat split; rewrite ?app_nil_r; auto; constructor.
  - destruct (fst e <? d) eqn:E.
    + apply IH in H. destruct H as (mv & H1 & H2 & H3 & H4). exists (e :: mv).
      repeat split; [cbn; congruence | rewrite H2, <- app_assoc; reflexivity | constructor; [lia|exact H3] | exact H4].
    + injection H as <- <-. exists []. repeat split; rewrite ?app_nil_r; auto; try constructor. lia.
Qed.

(* ---------- take_first ---------- *)
Lemma take_first_some m : forall idl e r, take_first m idl = Some (e, r) ->
  exists l1 l2, idl = (l1 ++ e :: l2)%list /\ r = (l1 ++ l2)%list /\ m (snd e) = true /\
    Forall (fun x => m (snd x) = false) l1.
Proof.
  induction idl as [|x t IH]; intros e r H; cbn in H; [discriminate|].
  destruct (m (snd x)) eqn:E.
  - injection H as <- <-. exists [], t. repeat split; auto.
  - destruct (take_first m t) as [[y r']|] eqn:T; [|discriminate]. injection H as <- <-.
    destruct (IH y r' eq_refl) as (l1 & l2 & H1 & H2 & H3 & H4).
    exists (x :: l1), l2. repeat split; [cbn; congruence | cbn; congruence | exact H3 | constructor; auto].
Qed.
Lemma take_first_none m : forall idl, take_first m idl = None -> Forall (fun x => m (snd x) = false) idl.
Proof.
  induction idl as [|x t IH]; intros H; cbn in H; [constructor|].
  destruct (m (snd x)) eqn:E; [discriminate|]. destruct (take_first m t) as [[y r']|]; [discriminate|].
  constructor; auto.
Qed.

(* ---------- ins ---------- *)
Lemma ins_perm e : forall l, Permutation (ins e l) (e :: l).
Proof.
  induction l as [|r t IH]; cbn; [reflexivity|]. destruct (fst e <=? fst r); [reflexivity|].
  rewrite IH. apply perm_swap.
Qed.
Lemma ins_sorted e : forall l, sortedE l -> sortedE (ins e l).
Proof.
  induction l as [|r t IH]; intros H; cbn.
  - constructor; constructor.
  - destruct (fst e <=? fst r) eqn:E.
    + constructor; [exact H|]. apply StronglySorted_inv in H. destruct H as [_ H].
      constructor; [unfold le_e; lia|]. rewrite Forall_forall in *. intros x Hx. specialize (H x Hx). unfold le_e in *. lia.
    + apply StronglySorted_inv in H. destruct H as [H1 H2]. constructor; [apply IH, H1|].
      rewrite Forall_forall in *. intros x Hx. apply (Permutation_in _ (ins_perm e t)) in Hx.
      destruct Hx as [<-|Hx]; [unfold le_e; lia | apply H2, Hx].
Qed.
Lemma sorted_app_r (a b:list entry) : sortedE (a ++ b) -> sortedE b.
Proof. induction a as [|x a IH]; cbn; auto. intros H. apply StronglySorted_inv in H. tauto. Qed.
Lemma sorted_head_lb d (l:list entry) : sortedE l -> (match l with [] => True | e :: _ => d <= fst e end) ->
  Forall (fun e => d <= fst e) l.
Proof.
  destruct l as [|e r]; intros H Hd; constructor; [exact Hd|].
  apply StronglySorted_inv in H. destruct H as [_ H]. rewrite Forall_forall in *. intros x Hx.
  specialize (H x Hx). unfold le_e in H. lia.
Qed.

(* ---------- counters ---------- *)
Lemma get_bump_same k : forall c n, get k c = Some n -> get k (bump k c) = Some (S n).
Proof. induction c as [|[k' m] r IH]; intros n H; cbn in *; [discriminate|].
  destruct (String.eqb k k') eqn:E; cbn; rewrite E; [congruence| auto]. Qed.
Lemma get_bump_other k k' : k' <> k -> forall c, get k' (bump k c) = get k' c.
Proof. intros Hne. induction c as [|[k2 m] r IH]; cbn; [reflexivity|].
  destruct (String.eqb k k2) eqn:E; cbn.
  - apply String.eqb_eq in E. subst k2. destruct (String.eqb k' k) eqn:E2; [apply String.eqb_eq in E2; congruence|reflexivity].
  - destruct (String.eqb k' k2); [reflexivity|exact IH]. Qed.

(* ---------- the invariant ---------- *)
Section Inv.
Variable st : string -> Z.
Definition busy (t:trip) : Z := arr t + st (ty t).
Definition entries (s:state) : list entry := (inprog s ++ idle s)%list.

Record Inv (s:state) (h:list (trip*vid)) (d:Z) : Prop := {
  i_sorted : sortedE (inprog s);
  i_idle   : Forall (fun e => fst e < d) (idle s);
  i_nodup  : NoDup (map snd (entries s));
  i_hist   : forall t v, In (t,v) h -> exists m, In (m,v) (entries s) /\ (busy t = m \/ busy t < d);
  i_last   : forall m v, In (m,v) (entries s) -> exists t, In (t,v) h /\ busy t = m;
  i_fresh  : forall m v, In (m,v) (entries s) -> exists c, get (fst v) (counts s) = Some c /\ (snd v <= c)%nat;
  i_type   : forall t v, In (t,v) h -> fst v = ty t
}.

Lemma inv_init types d : Inv (init types) [] d.
Proof. constructor; cbn; try constructor; try (intros; contradiction). Qed.

Lemma entries_in s m v : In (m,v) (entries s) <-> In (m,v) (inprog s) \/ In (m,v) (idle s).
Proof. unfold entries. apply in_app_iff. Qed.

(* one step: invariant preserved, and the three per-step facts of C20 *)
Lemma step_inv s h d t s' v : Inv s h d -> d <= dep t -> step st s t = Some (s', v) ->
  Inv s' (h ++ [(t,v)]) (dep t) /\
  fst v = ty t /\
  (forall t0, In (t0,v) h -> busy t0 < dep t) /\
  ((forall t0, ~ In (t0,v) h) ->                      (* a new vehicle was created ... *)
     forall t0 v0, In (t0,v0) h -> fst v0 = ty t ->   (* ... only if every vehicle of that type *)
       exists t1, In (t1,v0) h /\ dep t <= busy t1).   (*     is still busy at the departure *)
Proof.
  intros I Hd H. unfold step, step_gen in H.
  destruct (pop (dep t) (inprog s) (idle s)) as [ip idl] eqn:P.
  destruct (pop_spec _ _ _ _ _ P) as (mv & P1 & P2 & P3 & P4).
  destruct (get (ty t) (counts s)) as [n|] eqn:G; [|discriminate].
  pose proof (i_sorted _ _ _ I) as Hs. rewrite P1 in Hs. pose proof (sorted_app_r _ _ Hs) as Hsip.
  pose proof (sorted_head_lb (dep t) ip Hsip P4) as Hlb.
  assert (Hidl : Forall (fun e => fst e < dep t) idl).
  { rewrite P2. apply Forall_app. split; [|exact P3].
    pose proof (i_idle _ _ _ I) as Hi. rewrite Forall_forall in *. intros x Hx. specialize (Hi x Hx). lia. }
  assert (Hperm : Permutation (entries s) (ip ++ idl)).
  { unfold entries. rewrite P1, P2. rewrite <- app_assoc.
    etransitivity; [apply Permutation_app_comm|]. rewrite <- app_assoc. reflexivity. }
  destruct (take_first (same_type (ty t)) idl) as [[e r]|] eqn:TF.
  - (* reuse an idle vehicle *)
    injection H as <- <-.
    destruct (take_first_some _ _ _ _ TF) as (l1 & l2 & T1 & T2 & T3 & T4).
    set (ne := (arr t + st (ty t), snd e)).
    assert (Hperm2 : Permutation (ip ++ idl) (e :: ip ++ r)).
    { rewrite T1, T2. rewrite (Permutation_middle ip (l1 ++ l2) e). apply Permutation_app_head.
      symmetry. apply Permutation_middle. }
    assert (Hperm3 : Permutation (ins ne ip ++ r) (ne :: ip ++ r)).
    { rewrite (ins_perm ne ip). reflexivity. }
    assert (He_in : In e (entries s)).
    { apply (Permutation_in _ (Permutation_sym Hperm)). apply (Permutation_in _ (Permutation_sym Hperm2)). left; reflexivity. }
    assert (He_lt : fst e < dep t).
    { rewrite Forall_forall in Hidl. apply Hidl. rewrite T1. apply in_app_iff. right; left; reflexivity. }
    assert (Hnd2 : NoDup (map snd (e :: ip ++ r))).
    { eapply Permutation_NoDup; [|exact (i_nodup _ _ _ I)]. apply Permutation_map.
      etransitivity; [exact Hperm|exact Hperm2]. }
    assert (Hold : forall m w, In (m,w) (ip ++ r) -> In (m,w) (entries s) /\ w <> snd e).
    { intros m w Hin. split.
      - apply (Permutation_in _ (Permutation_sym Hperm)). apply (Permutation_in _ (Permutation_sym Hperm2)). right; exact Hin.
      - cbn in Hnd2. apply NoDup_cons_iff in Hnd2. destruct Hnd2 as [Hn _]. intros ->. apply Hn.
        apply in_map_iff. exists (m, snd e). split; auto. }
    assert (Hvt : fst (snd e) = ty t).
    { unfold same_type in T3. apply String.eqb_eq in T3. exact T3. }
    split; [|split; [exact Hvt|split]].
    + constructor; cbn [inprog idle counts].
      * apply ins_sorted, Hsip.
      * rewrite T2. rewrite T1 in Hidl. apply Forall_app in Hidl. destruct Hidl as [F1 F2].
        apply Forall_app. split; [exact F1|]. inversion F2; auto.
      * unfold entries; cbn [inprog idle]. eapply Permutation_NoDup; [apply Permutation_map; symmetry; exact Hperm3|].
        cbn [map snd ne]. cbn in Hnd2. exact Hnd2.
      * intros t0 w Hin. apply in_app_iff in Hin. destruct Hin as [Hin|[Hin|[]]].
        -- destruct (i_hist _ _ _ I t0 w Hin) as (m & Hm & Hb).
           assert (Hm' : In (m,w) (e :: ip ++ r)).
           { apply (Permutation_in _ Hperm2). apply (Permutation_in _ Hperm). exact Hm. }
           destruct Hm' as [Hm'|Hm'].
           ++ (* w is the reused vehicle: its old trips end before this departure *)
              exists (arr t + st (ty t)). split.
              ** unfold entries; cbn [inprog idle]. apply (Permutation_in _ (Permutation_sym Hperm3)). left.
                 unfold ne. rewrite Hm'. reflexivity.
              ** right. rewrite Hm' in He_lt. cbn in He_lt. destruct Hb; lia.
           ++ exists m. split.
              ** unfold entries; cbn [inprog idle]. apply (Permutation_in _ (Permutation_sym Hperm3)). right. exact Hm'.
              ** destruct Hb; [left; auto | right; lia].
        -- injection Hin as <- <-. exists (arr t + st (ty t)). split; [|left; reflexivity].
           unfold entries; cbn [inprog idle]. apply (Permutation_in _ (Permutation_sym Hperm3)). left. reflexivity.
      * intros m w Hin. unfold entries in Hin; cbn [inprog idle] in Hin. apply (Permutation_in _ Hperm3) in Hin.
        destruct Hin as [Hin|Hin].
        -- unfold ne in Hin. injection Hin as <- <-. exists t. split; [apply in_app_iff; right; left; reflexivity|reflexivity].
        -- destruct (Hold m w Hin) as [Hin' _]. destruct (i_last _ _ _ I m w Hin') as (t0 & Ht0 & Hb).
           exists t0. split; [apply in_app_iff; left; exact Ht0|exact Hb].
      * intros m w Hin. unfold entries in Hin; cbn [inprog idle] in Hin. apply (Permutation_in _ Hperm3) in Hin.
        destruct Hin as [Hin|Hin].
        -- unfold ne in Hin. injection Hin as <- <-. destruct e as [me ve]. apply (i_fresh _ _ _ I me ve He_in).
        -- destruct (Hold m w Hin) as [Hin' _]. apply (i_fresh _ _ _ I m w Hin').
      * intros t0 w Hin. apply in_app_iff in Hin. destruct Hin as [Hin|[Hin|[]]].
        -- apply (i_type _ _ _ I t0 w Hin).
        -- injection Hin as <- <-. exact Hvt.
    + (* earlier trips of the reused vehicle end (incl. standing time) before this departure *)
      intros t0 Hin. destruct (i_hist _ _ _ I t0 (snd e) Hin) as (m & Hm & Hb).
      assert (m = fst e).
      { destruct e as [me ve]. cbn in *. 
        pose proof (i_nodup _ _ _ I) as Hnd.
        clear - Hm He_in Hnd. induction (entries s) as [|x l IH]; [contradiction|].
        cbn in Hnd. apply NoDup_cons_iff in Hnd. destruct Hnd as [Hn Hnd].
        destruct Hm as [Hm|Hm], He_in as [He|He].
        - congruence.
        - subst x. exfalso. apply Hn. apply in_map_iff. exists (me,ve). auto.
        - subst x. exfalso. apply Hn. apply in_map_iff. exists (m,ve). auto.
        - apply IH; auto. }
      subst m. destruct Hb; lia.
    + intros Hnew. exfalso. destruct e as [me ve]. destruct (i_last _ _ _ I me ve He_in) as (t0 & Ht0 & _).
      apply (Hnew t0). exact Ht0.
  - (* create a new vehicle *)
    injection H as <- <-.
    pose proof (take_first_none _ _ TF) as Hnone.
    set (nv := (ty t, S n)). set (ne := (arr t + st (ty t), nv)).
    assert (Hperm3 : Permutation (ins ne ip ++ idl) (ne :: ip ++ idl)).
    { rewrite (ins_perm ne ip). reflexivity. }
    assert (Hfresh : forall m, ~ In (m, nv) (entries s)).
    { intros m Hin. destruct (i_fresh _ _ _ I m nv Hin) as (c & Hc & Hle). cbn in Hc, Hle. rewrite G in Hc. injection Hc as <-. lia. }
    split; [|split; [reflexivity|split]].
    + constructor; cbn [inprog idle counts].
      * apply ins_sorted, Hsip.
      * exact Hidl.
      * unfold entries; cbn [inprog idle]. eapply Permutation_NoDup; [apply Permutation_map; symmetry; exact Hperm3|].
        cbn [map snd ne]. constructor.
        -- intros Hin. apply in_map_iff in Hin. destruct Hin as ([m w] & Hw & Hin). cbn in Hw. subst w.
           apply (Hfresh m). apply (Permutation_in _ (Permutation_sym Hperm)). exact Hin.
        -- eapply Permutation_NoDup; [apply Permutation_map; exact Hperm|]. exact (i_nodup _ _ _ I).
      * intros t0 w Hin. apply in_app_iff in Hin. destruct Hin as [Hin|[Hin|[]]].
        -- destruct (i_hist _ _ _ I t0 w Hin) as (m & Hm & Hb). exists m. split.
           ++ unfold entries; cbn [inprog idle]. apply (Permutation_in _ (Permutation_sym Hperm3)). right.
              apply (Permutation_in _ Hperm). exact Hm.
           ++ destruct Hb; [left; auto|right; lia].
        -- injection Hin as <- <-. exists (arr t + st (ty t)). split; [|left; reflexivity].
           unfold entries; cbn [inprog idle]. apply (Permutation_in _ (Permutation_sym Hperm3)). left. reflexivity.
      * intros m w Hin. unfold entries in Hin; cbn [inprog idle] in Hin. apply (Permutation_in _ Hperm3) in Hin.
        destruct Hin as [Hin|Hin].
        -- unfold ne in Hin. injection Hin as <- <-. exists t. split; [apply in_app_iff; right; left; reflexivity|reflexivity].
        -- apply (Permutation_in _ (Permutation_sym Hperm)) in Hin. destruct (i_last _ _ _ I m w Hin) as (t0 & Ht0 & Hb).
           exists t0. split; [apply in_app_iff; left; exact Ht0|exact Hb].
      * intros m w Hin. unfold entries in Hin; cbn [inprog idle] in Hin. apply (Permutation_in _ Hperm3) in Hin.
        destruct Hin as [Hin|Hin].
        -- unfold ne in Hin. injection Hin as <- <-. cbn. exists (S n). split; [apply get_bump_same, G|lia].
        -- apply (Permutation_in _ (Permutation_sym Hperm)) in Hin. destruct (i_fresh _ _ _ I m w Hin) as (c & Hc & Hle).
           destruct (String.eqb (fst w) (ty t)) eqn:E.
           ++ apply String.eqb_eq in E. rewrite E in *. rewrite G in Hc. injection Hc as <-.
              exists (S n). split; [apply get_bump_same, G|lia].
           ++ apply String.eqb_neq in E. exists c. split; [rewrite get_bump_other; auto|exact Hle].
      * intros t0 w Hin. apply in_app_iff in Hin. destruct Hin as [Hin|[Hin|[]]].
        -- apply (i_type _ _ _ I t0 w Hin).
        -- injection Hin as <- <-. reflexivity.
    + intros t0 Hin. exfalso. destruct (i_hist _ _ _ I t0 nv Hin) as (m & Hm & _). apply (Hfresh m Hm).
    + (* frugality: every known vehicle of this type is still in progress with m >= dep t *)
      intros _ t0 v0 Hin Hty. destruct (i_hist _ _ _ I t0 v0 Hin) as (m & Hm & _).
      apply (Permutation_in _ Hperm) in Hm. apply in_app_iff in Hm. destruct Hm as [Hm|Hm].
      * rewrite Forall_forall in Hlb. specialize (Hlb _ Hm). cbn in Hlb.
        assert (Hm' : In (m, v0) (entries s)).
        { apply (Permutation_in _ (Permutation_sym Hperm)). apply in_app_iff. left. exact Hm. }
        destruct (i_last _ _ _ I m v0 Hm') as (t1 & Ht1 & Hb). exists t1. split; [exact Ht1|lia].
      * exfalso. rewrite Forall_forall in Hnone. specialize (Hnone _ Hm). cbn in Hnone.
        unfold same_type in Hnone. apply String.eqb_neq in Hnone. congruence.
Qed.
End Inv.

(* ---------- whole run ---------- *)
Definition dep_sorted (ts:list trip) : Prop := StronglySorted (fun a b => dep a <= dep b) ts.

Section Run.
Variable st : string -> Z.
Notation run := (run_gen (step st)).

Definition step_facts (hist:list (trip*vid)) (t:trip) (v:vid) : Prop :=
  fst v = ty t /\
  (forall t0, In (t0,v) hist -> busy st t0 < dep t) /\
  ((forall t0, ~ In (t0,v) hist) -> forall t0 v0, In (t0,v0) hist -> fst v0 = ty t ->
       exists t1, In (t1,v0) hist /\ dep t <= busy st t1).

Lemma run_facts : forall ts s h d s' vs, Inv st s h d -> dep_sorted ts -> Forall (fun t => d <= dep t) ts ->
  run s ts = Some (s', vs) ->
  List.length vs = List.length ts /\
  forall o1 t v o2, combine ts vs = (o1 ++ (t,v) :: o2)%list -> step_facts (h ++ o1) t v.
Proof.
  induction ts as [|t r IH]; intros s h d s' vs I Hs Hd H; cbn in H.
  - injection H as <- <-. split; [reflexivity|]. intros o1 t v o2 E. destruct o1; discriminate.
  - destruct (step st s t) as [[s1 v1]|] eqn:S; [|discriminate].
    destruct (run s1 r) as [[s2 vs']|] eqn:R; [|discriminate]. injection H as <- <-.
    inversion Hd as [|? ? Hd1 Hd2]; subst. apply StronglySorted_inv in Hs. destruct Hs as [Hs1 Hs2].
    destruct (step_inv st s h d t s1 v1 I Hd1 S) as (I1 & F1 & F2 & F3).
    destruct (IH s1 (h ++ [(t,v1)])%list (dep t) s2 vs' I1 Hs1 Hs2 R) as (L & Hrest).
    split; [cbn; congruence|].
    intros o1 t' v o2 E. cbn in E. destruct o1 as [|x o1'].
    + cbn in E. injection E as <- <- _. rewrite app_nil_r. repeat split; auto.
    + cbn in E. injection E as <- E. specialize (Hrest o1' t' v o2 E).
      rewrite <- app_assoc in Hrest. exact Hrest.
Qed.

Lemma run_from_init types ts s' vs : dep_sorted ts -> run (init types) ts = Some (s', vs) ->
  List.length vs = List.length ts /\
  forall o1 t v o2, combine ts vs = (o1 ++ (t,v) :: o2)%list -> step_facts o1 t v.
Proof.
  intros Hs H.
  set (d := match ts with [] => 0 | t :: _ => dep t end).
  assert (Hd : Forall (fun t => d <= dep t) ts).
  { destruct ts as [|t r]; [constructor|]. apply StronglySorted_inv in Hs. destruct Hs as [_ Hs].
    constructor; [unfold d; lia|]. rewrite Forall_forall in *. intros x Hx. specialize (Hs x Hx). unfold d. lia. }
  destruct (run_facts ts (init types) [] d s' vs (inv_init st types d) Hs Hd H) as (L & F).
  split; [exact L|]. intros o1 t v o2 E. exact (F o1 t v o2 E).
Qed.
End Run.

(* ---------- sorting by departure ---------- *)
Lemma sins_perm x : forall l, Permutation (sins x l) (x :: l).
Proof. induction l as [|y r IH]; cbn; [reflexivity|]. destruct (dep (snd y) <? dep (snd x)); [|reflexivity].
  rewrite IH. apply perm_swap. Qed.
Lemma sort_trips_perm l : Permutation (sort_trips l) l.
Proof. induction l as [|x r IH]; cbn; [reflexivity|]. rewrite sins_perm. constructor. exact IH. Qed.
Definition dep_sorted_ix (l:list (nat*trip)) : Prop := StronglySorted (fun a b => dep (snd a) <= dep (snd b)) l.
Lemma sins_sorted x : forall l, dep_sorted_ix l -> dep_sorted_ix (sins x l).
Proof.
  induction l as [|y r IH]; intros H; cbn.
  - constructor; constructor.
  - destruct (dep (snd y) <? dep (snd x)) eqn:E.
    + apply StronglySorted_inv in H. destruct H as [H1 H2]. constructor; [apply IH, H1|].
      rewrite Forall_forall in *. intros z Hz. apply (Permutation_in _ (sins_perm x r)) in Hz.
      destruct Hz as [<-|Hz]; [lia | apply H2, Hz].
    + constructor; [exact H|]. apply StronglySorted_inv in H. destruct H as [_ H].
      constructor; [lia|]. rewrite Forall_forall in *. intros z Hz. specialize (H z Hz). cbn in *. lia.
Qed.
Lemma sort_trips_sorted l : dep_sorted_ix (sort_trips l).
Proof. induction l as [|x r IH]; cbn; [constructor|]. apply sins_sorted, IH. Qed.
Lemma sorted_map_snd l : dep_sorted_ix l -> dep_sorted (map snd l).
Proof.
  induction l as [|x r IH]; intros H; cbn; [constructor|]. apply StronglySorted_inv in H. destruct H as [H1 H2].
  constructor; [apply IH, H1|]. rewrite Forall_forall in *. intros z Hz. apply in_map_iff in Hz.
  destruct Hz as (y & <- & Hy). apply H2, Hy.
Qed.

(* assign = sort by departure (stable), run the steps, re-order the ids by input position *)
Lemma assign_unfold st types input out : assign st types input = Some out ->
  let sorted := sort_trips (number 0 input) in
  exists s' vs, run_gen (step st) (init types) (map snd sorted) = Some (s', vs) /\
    dep_sorted (map snd sorted) /\ Permutation sorted (number 0 input) /\
    out = map snd (fold_right nins [] (combine (map fst sorted) vs)).
Proof.
  unfold assign, assign_gen. cbv zeta.
  destruct (run_gen (step st) (init types) (map snd (sort_trips (number 0 input)))) as [[s' vs]|] eqn:R; [|discriminate].
  intros H; injection H as <-. exists s', vs. repeat split.
  - apply sorted_map_snd, sort_trips_sorted.
  - apply sort_trips_perm.
Qed.

(* ---------- the pinned upstream revision violates type purity and frugality ---------- *)
Open Scope string_scope.
Definition st0 (_:string) : Z := 0.
Definition mkt d a t := {| dep := d; arr := a; ty := t |}.
(* D3a: a "bus" trip is served by the idle vehicle "minibus_1" *)
Definition d3a_trips := [mkt 0 10 "minibus"; mkt 100 110 "bus"].
Lemma orig_type_impure : assign_orig st0 ["bus"; "minibus"] d3a_trips = Some [("minibus",1%nat); ("minibus",1%nat)].
Proof. vm_compute. reflexivity. Qed.
Lemma fixed_type_pure_witness : assign st0 ["bus"; "minibus"] d3a_trips = Some [("minibus",1%nat); ("bus",1%nat)].
Proof. vm_compute. reflexivity. Qed.
(* D3b: bus_1 (busy until 10) is idle at departure 160, yet a fourth bus is created;
   at departure 150 bus_2 is reused although bus_1 has been idle longer *)
Definition d3b_trips := [mkt 0 10 "bus"; mkt 1 100 "bus"; mkt 2 200 "bus"; mkt 150 300 "bus"; mkt 160 310 "bus"].
Lemma orig_not_frugal : assign_orig st0 ["bus"] d3b_trips =
  Some [("bus",1%nat); ("bus",2%nat); ("bus",3%nat); ("bus",2%nat); ("bus",4%nat)].
Proof. vm_compute. reflexivity. Qed.
Lemma fixed_frugal_witness : assign st0 ["bus"] d3b_trips =
  Some [("bus",1%nat); ("bus",2%nat); ("bus",3%nat); ("bus",1%nat); ("bus",2%nat)].
Proof. vm_compute. reflexivity. Qed.
