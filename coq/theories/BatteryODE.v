(* BatteryODE.v — the closed forms used by _adjust_soc on one linear section
   P(s) = m*s + n are the solution of dSoC/dt = P(SoC)/c (property C02, section level). *)
From Coq Require Import Reals Lra Psatz.
From Coquelicot Require Import Coquelicot.
Open Scope R_scope.

(* |m| >= EPS branch:  new_soc = -n/m + (n/m + soc) * exp(m/c * t) *)
Definition flow (m n c s0 t:R) : R := - n / m + (n / m + s0) * exp (m / c * t).
(* |m| < EPS branch:   new_soc = soc + n/c * t *)
Definition flow_flat (n c s0 t:R) : R := s0 + n / c * t.

Lemma flow_0 m n c s0 : flow m n c s0 0 = s0.
Proof. unfold flow. rewrite Rmult_0_r, exp_0. lra. Qed.

Lemma flow_ode m n c s0 t : m <> 0 -> c <> 0 ->
  is_derive (fun t => flow m n c s0 t) t ((m * flow m n c s0 t + n) / c).
Proof.
  intros Hm Hc. unfold flow. auto_derive; [exact I|]. field. split; assumption.
Qed.

Lemma flow_flat_ode n c s0 t : is_derive (fun t => flow_flat n c s0 t) t (n / c).
Proof. unfold flow_flat. auto_derive; [exact I|]. ring. Qed.
Lemma flow_flat_0 n c s0 : flow_flat n c s0 0 = s0.
Proof. unfold flow_flat. ring. Qed.

(* two consecutive steps on the same section equal one step over the summed duration *)
Lemma flow_semigroup m n c s0 t1 t2 : m <> 0 ->
  flow m n c (flow m n c s0 t1) t2 = flow m n c s0 (t1 + t2).
Proof.
  intros Hm. unfold flow. rewrite Rmult_plus_distr_l, exp_plus. field. exact Hm.
Qed.
Lemma flow_flat_semigroup n c s0 t1 t2 : flow_flat n c (flow_flat n c s0 t1) t2 = flow_flat n c s0 (t1 + t2).
Proof. unfold flow_flat. ring. Qed.

(* the code's time-to-breakpoint  t = log((x2 + n/m)/(soc + n/m)) * c/m  reaches x2 exactly *)
Lemma flow_time m n c s0 x2 : m <> 0 -> c <> 0 -> 0 < (x2 + n / m) / (s0 + n / m) ->
  flow m n c s0 (ln ((x2 + n / m) / (s0 + n / m)) * c / m) = x2.
Proof.
  intros Hm Hc Hq. unfold flow.
  assert (Hd : s0 + n / m <> 0).
  { intros E. rewrite E in Hq. unfold Rdiv in Hq. rewrite Rinv_0, Rmult_0_r in Hq. lra. }
  replace (m / c * (ln ((x2 + n / m) / (s0 + n / m)) * c / m)) with (ln ((x2 + n / m) / (s0 + n / m))) by (field; repeat split; assumption).
  rewrite exp_ln by exact Hq. field. split; [assumption|].
  intros E. apply Hd. field_simplify; [|exact Hm]. rewrite E. unfold Rdiv. ring.
Qed.
Lemma flow_flat_time n c s0 x2 : n <> 0 -> c <> 0 -> flow_flat n c s0 ((x2 - s0) * c / n) = x2.
Proof. intros Hn Hc. unfold flow_flat. field. split; assumption. Qed.

(* the affine quantity P(s)/m = s + n/m evolves by a positive factor: the flow never
   crosses the zero of P and moves monotonically in t *)
Lemma flow_affine m n c s0 t : m <> 0 -> flow m n c s0 t + n / m = (s0 + n / m) * exp (m / c * t).
Proof. intros Hm. unfold flow. field. exact Hm. Qed.

(* used time never beyond the time to the breakpoint => the new SoC lies between the
   current SoC and the breakpoint (charging: s0 <= new <= x2; discharging: x2 <= new <= s0) *)
Lemma flow_between m n c s0 x2 t : m <> 0 -> c <> 0 -> 0 < (x2 + n / m) / (s0 + n / m) ->
  let t0 := ln ((x2 + n / m) / (s0 + n / m)) * c / m in
  (0 <= t <= t0 \/ t0 <= t <= 0) ->
  (s0 <= flow m n c s0 t <= x2) \/ (x2 <= flow m n c s0 t <= s0).
Proof.
  intros Hm Hc Hq t0 Ht.
  set (A := s0 + n / m) in *. set (B := x2 + n / m) in *.
  assert (HA : A <> 0).
  { intros E. rewrite E in Hq. unfold Rdiv in Hq. rewrite Rinv_0, Rmult_0_r in Hq. lra. }
  pose proof (flow_affine m n c s0 t Hm) as Hf. fold A in Hf.
  set (u := m / c * t) in *.
  set (L := ln (B / A)).
  assert (Hu : (0 <= u <= L) \/ (L <= u <= 0)).
  { assert (HL : L = m / c * t0) by (unfold L, t0; field; split; assumption).
    unfold u. rewrite HL.
    destruct (Rlt_dec 0 (m / c)) as [Hp|Hn].
    - destruct Ht as [Ht|Ht]; [left|right]; split; try (apply Rmult_le_compat_l; lra); nra.
    - assert (m / c < 0).
      { destruct (Req_dec (m / c) 0) as [E|E]; [|lra]. exfalso. apply Hm.
        unfold Rdiv in E. apply Rmult_integral in E. destruct E as [E|E]; [exact E|].
        exfalso. revert E. apply Rinv_neq_0_compat. exact Hc. }
      destruct Ht as [Ht|Ht]; [right|left]; split; nra. }
  assert (He : (1 <= exp u <= B / A) \/ (B / A <= exp u <= 1)).
  { assert (exp L = B / A) by (unfold L; apply exp_ln; exact Hq).
    destruct Hu as [[H1 H2]|[H1 H2]]; [left|right]; rewrite <- H, <- exp_0; split.
    - destruct (Req_dec 0 u) as [<-|]; [lra|]. left. apply exp_increasing. lra.
    - destruct (Req_dec u L) as [->|]; [lra|]. left. apply exp_increasing. lra.
    - destruct (Req_dec u L) as [->|]; [lra|]. left. apply exp_increasing. lra.
    - destruct (Req_dec 0 u) as [<-|]; [lra|]. left. apply exp_increasing. lra. }
  assert (HB : B = A * (B / A)) by (field; exact HA).
  assert (HBA : x2 + n / m = (s0 + n / m) * (B / A)) by (exact HB).
  assert (Hs : flow m n c s0 t - s0 = A * (exp u - 1)) by (unfold A in *; lra).
  assert (Hx : x2 - flow m n c s0 t = A * (B / A - exp u)) by (unfold A in *; lra).
  destruct (Rlt_dec 0 A) as [Hpos|Hneg].
  - destruct He as [[H1 H2]|[H1 H2]]; [left|right]; split; nra.
  - assert (A < 0) by lra. destruct He as [[H1 H2]|[H1 H2]]; [right|left]; split; nra.
Qed.

(* the average power on a section is monotone between its end-point powers:
   (e^x - 1) lies between x and x e^x, so energy/time lies between P(s0) and P(new) *)
Lemma exp_minus_1_bounds x : x <= exp x - 1 <= x * exp x.
Proof.
  split.
  - pose proof (exp_ineq1_le x). lra.
  - (* e^x - 1 <= x e^x  <=>  1 - e^-x <= x  <=>  e^-x >= 1 - x *)
    pose proof (exp_ineq1_le (- x)) as H. pose proof (exp_pos x) as Hp.
    assert (exp (-x) * exp x = 1) by (rewrite <- exp_plus; replace (-x + x) with 0 by ring; apply exp_0).
    nra.
Qed.

Lemma flow_energy_bounds m n c s0 t : m <> 0 -> 0 < c -> 0 <= t ->
  let new := flow m n c s0 t in
  let P0 := m * s0 + n in let P1 := m * new + n in
  (Rmin P0 P1 * t <= c * (new - s0) <= Rmax P0 P1 * t).
Proof.
  intros Hm Hc Ht new P0 P1.
  pose proof (flow_affine m n c s0 t Hm) as Hf. fold new in Hf.
  set (x := m / c * t) in *.
  assert (HP0 : P0 = m * (s0 + n / m)) by (unfold P0; field; exact Hm).
  assert (HP1 : P1 = P0 * exp x) by (unfold P1; rewrite HP0; replace (m * new + n) with (m * (new + n / m)) by (field; exact Hm); rewrite Hf; ring).
  assert (Hd : c * (new - s0) = c / m * P0 * (exp x - 1)).
  { replace (new - s0) with ((new + n / m) - (s0 + n / m)) by ring. rewrite Hf, HP0. field. exact Hm. }
  assert (Hx : c / m * x = t) by (unfold x; field; split; lra).
  pose proof (exp_minus_1_bounds x) as [B1 B2]. pose proof (exp_pos x) as Hep.
  (* c/m * (e^x - 1) lies between t and t*e^x (both orders, depending on the sign of m) *)
  assert (Hk : (t <= c / m * (exp x - 1) <= t * exp x) \/ (t * exp x <= c / m * (exp x - 1) <= t)).
  { destruct (Rlt_dec 0 m) as [Hpm|Hnm].
    - left. assert (0 < c / m) by (apply Rdiv_lt_0_compat; lra). rewrite <- Hx. split; nra.
    - assert (m < 0) by lra. assert (c / m < 0).
      { unfold Rdiv. assert (/ m < 0) by (apply Rinv_lt_0_compat; lra). nra. }
      assert (c / m * (exp x - 1) <= c / m * x) by nra.
      assert (c / m * (x * exp x) <= c / m * (exp x - 1)) by nra.
      right. rewrite <- Hx. split; nra. }
  rewrite Hd. replace (c / m * P0 * (exp x - 1)) with (P0 * (c / m * (exp x - 1))) by ring.
  rewrite HP1.
  set (K := c / m * (exp x - 1)) in *.
  unfold Rmin, Rmax. destruct (Rle_dec P0 (P0 * exp x)); destruct (Rle_dec 0 P0); destruct Hk as [[K1 K2]|[K1 K2]]; split; nra.
Qed.
