(* TransferK.v — Q -> R transfer for the kernels of Kernel.v (clamp_power, get_cost, apply_battery_losses,
   the GridOperatorSignal limit rule) and report.split_feedin. *)
From Coq Require Import ZArith QArith Qreals Reals List Bool Lia Lra String.
From Param Require Import Param.
From SV Require Import Num RNum Transfer Kernel Report.
Import ListNotations.

Parametricity Recursive clamp_power.
Parametricity Recursive cost.
Parametricity Recursive get_cost.
Parametricity Recursive apply_losses.
Parametricity Recursive apply_limit.

(* exp/ln-freeness, checked by conversion *)
Lemma clamp_power_expfree tbl : @clamp_power R (RNumT tbl) = @clamp_power R RNum. Proof. reflexivity. Qed.
Lemma get_cost_expfree tbl : @get_cost R (RNumT tbl) = @get_cost R RNum. Proof. reflexivity. Qed.
Lemma apply_losses_expfree tbl : @apply_losses R (RNumT tbl) = @apply_losses R RNum. Proof. reflexivity. Qed.
Lemma apply_limit_expfree tbl : @apply_limit R (RNumT tbl) = @apply_limit R RNum. Proof. reflexivity. Qed.

Theorem clamp_power_transfer tbl p cur mx mn vm :
  Q2R (@clamp_power Q (QNum tbl) p cur mx mn vm) = @clamp_power R RNum (Q2R p) (Q2R cur) (Q2R mx) (Q2R mn) (Q2R vm).
Proof. rewrite <- (clamp_power_expfree tbl).
  exact (clamp_power_R Q R QR _ _ (QNum_RNumT tbl) p _ eq_refl cur _ eq_refl mx _ eq_refl mn _ eq_refl vm _ eq_refl). Qed.

Definition cost_Q2R (c:@cost Q) : @cost R := match c with
  | CFixed v => CFixed (Q2R v) | CPoly cs => CPoly (map Q2R cs) | CNone => CNone end.
Lemma cost_QR c : cost_R Q R QR c (cost_Q2R c).
Proof. destruct c; cbn; constructor; [reflexivity|apply list_QR]. Qed.
Theorem get_cost_transfer tbl x c :
  @get_cost R RNum (Q2R x) (cost_Q2R c) = mapres Q2R (@get_cost Q (QNum tbl) x c).
Proof. rewrite <- (get_cost_expfree tbl). apply res_QR_map.
  exact (get_cost_R Q R QR _ _ (QNum_RNumT tbl) x _ eq_refl c _ (cost_QR c)). Qed.

Theorem apply_losses_transfer tbl soc cap rel fr fa :
  @apply_losses R RNum (Q2R soc) (Q2R cap) (Q2R rel) (Q2R fr) (Q2R fa) = mapres Q2R (@apply_losses Q (QNum tbl) soc cap rel fr fa).
Proof. rewrite <- (apply_losses_expfree tbl). apply res_QR_map.
  exact (apply_losses_R Q R QR _ _ (QNum_RNumT tbl) soc _ eq_refl cap _ eq_refl rel _ eq_refl fr _ eq_refl fa _ eq_refl). Qed.

Theorem apply_limit_transfer tbl rating cur ev :
  @apply_limit R RNum (Q2R rating) (option_map Q2R cur) (option_map Q2R ev) = option_map Q2R (@apply_limit Q (QNum tbl) rating cur ev).
Proof. rewrite <- (apply_limit_expfree tbl). apply option_QR_inv.
  exact (apply_limit_R Q R QR _ _ (QNum_RNumT tbl) rating _ eq_refl cur _ (option_QR cur) ev _ (option_QR ev)). Qed.
