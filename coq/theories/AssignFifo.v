(* AssignFifo.v — the idle list of assign_vehicle_id is ordered by the time its vehicles became available: together
   with first-match selection this is the "idle longest first" reading of FIFO (property C20).  Axiom-free. *)
From Coq Require Import ZArith List Bool String Lia Sorted Permutation.
From SV Require Import Assign AssignProps.
Import ListNotations.
Open Scope Z_scope.

Section Fifo.
Variable st : string -> Z.
Hypothesis st_nonneg : forall t, 0 <= st t.

(* J s d: rotations in progress end no earlier than the last departure d, idle vehicles became available before d,
   both lists are ordered by availability time *)
Record J (s:state) (d:Z) : Prop := {
  j_ip_sorted : sortedE (inprog s);
  j_ip_lb : Forall (fun e => d <= fst e) (inprog s);
  j_idle_sorted : sortedE (idle s);
  j_idle_ub : Forall (fun e => fst e < d) (idle s) }.

Lemma sorted_app (a b:list entry) : sortedE a -> sortedE b -> (forall x y, In x a -> In y b -> fst x <= fst y) -> sortedE (a ++ b).
Proof.
  induction a as [|x a IH]; cbn; intros Ha Hb Hc; [exact Hb|].
  apply StronglySorted_inv in Ha. destruct Ha as [Ha1 Ha2]. constructor.
  - apply IH; [exact Ha1|exact Hb|]. intros x0 y0 Hx0 Hy0. apply Hc; [right; exact Hx0|exact Hy0].
  - rewrite Forall_forall in *. intros y Hy. apply in_app_iff in Hy. destruct Hy as [Hy|Hy].
    + apply Ha2, Hy.
    + unfold le_e. apply Hc; [left; reflexivity|exact Hy].
Qed.
Lemma sorted_app_l (a b:list entry) : sortedE (a ++ b) -> sortedE a.
Proof.
  induction a as [|x a IH]; cbn; intros H; [constructor|].
  apply StronglySorted_inv in H. destruct H as [H1 H2]. constructor; [apply IH, H1|].
  rewrite Forall_forall in *. intros y Hy. apply H2. apply in_app_iff. left; exact Hy.
Qed.
Lemma sorted_remove (l1 l2:list entry) e : sortedE (l1 ++ e :: l2) -> sortedE (l1 ++ l2).
Proof.
  induction l1 as [|x l1 IH]; cbn; intros H.
  - apply StronglySorted_inv in H. tauto.
  - apply StronglySorted_inv in H. destruct H as [H1 H2]. constructor; [apply IH, H1|].
    rewrite Forall_forall in *. intros y Hy. apply H2. apply in_app_iff in Hy. apply in_app_iff.
    destruct Hy as [Hy|Hy]; [left; exact Hy|right; right; exact Hy].
Qed.

Lemma J_init types d : J (init types) d.
Proof. constructor; cbn; constructor. Qed.

Lemma step_J s d t s' v : J s d -> d <= dep t -> dep t <= arr t -> step st s t = Some (s', v) -> J s' (dep t).
Proof.
  intros [Hs Hlb His Hub] Hd Hda H. unfold step, step_gen in H.
  destruct (pop (dep t) (inprog s) (idle s)) as [ip idl] eqn:P.
  destruct (pop_spec _ _ _ _ _ P) as (mv & P1 & P2 & P3 & P4).
  destruct (get (ty t) (counts s)) as [n|] eqn:G; [|discriminate].
  rewrite P1 in Hs, Hlb.
  pose proof (sorted_app_r _ _ Hs) as Hsip. pose proof (sorted_app_l _ _ Hs) as Hsmv.
  pose proof (sorted_head_lb (dep t) ip Hsip P4) as Hlbip.
  apply Forall_app in Hlb. destruct Hlb as [Hlbmv _].
  assert (Hidl_sorted : sortedE idl).
  { rewrite P2. apply sorted_app; [exact His|exact Hsmv|]. intros x y Hx Hy.
    rewrite Forall_forall in Hub, Hlbmv. specialize (Hub x Hx). specialize (Hlbmv y Hy). lia. }
  assert (Hidl_ub : Forall (fun e => fst e < dep t) idl).
  { rewrite P2. apply Forall_app. split; [|exact P3]. rewrite Forall_forall in *. intros x Hx. specialize (Hub x Hx). lia. }
  pose proof (st_nonneg (ty t)) as Hst.
  destruct (take_first (same_type (ty t)) idl) as [[e r]|] eqn:TF.
  - injection H as <- <-. destruct (take_first_some _ _ _ _ TF) as (l1 & l2 & T1 & T2 & _ & _).
    constructor; cbn [inprog idle].
    + apply ins_sorted, Hsip.
    + rewrite Forall_forall in *. intros x Hx. apply (Permutation_in _ (ins_perm _ ip)) in Hx.
      destruct Hx as [<-|Hx]; [cbn; lia|apply Hlbip, Hx].
    + rewrite T2. rewrite T1 in Hidl_sorted. eapply sorted_remove; exact Hidl_sorted.
    + rewrite T2. rewrite T1 in Hidl_ub. apply Forall_app in Hidl_ub. destruct Hidl_ub as [A B].
      apply Forall_app. split; [exact A|]. inversion B; assumption.
  - injection H as <- <-. constructor; cbn [inprog idle].
    + apply ins_sorted, Hsip.
    + rewrite Forall_forall in *. intros x Hx. apply (Permutation_in _ (ins_perm _ ip)) in Hx.
      destruct Hx as [<-|Hx]; [cbn; lia|apply Hlbip, Hx].
    + exact Hidl_sorted.
    + exact Hidl_ub.
Qed.

(* every reachable state: the idle list is ordered by availability time *)
Theorem idle_fifo_order : forall ts s d s' vs, J s d -> dep_sorted ts -> Forall (fun t => d <= dep t /\ dep t <= arr t) ts ->
  run_gen (step st) s ts = Some (s', vs) -> sortedE (idle s').
Proof.
  induction ts as [|t ts IH]; intros s d s' vs HJ Hsd HF H; cbn in H.
  - injection H as <- _. apply (j_idle_sorted _ _ HJ).
  - destruct (step st s t) as [[s1 v]|] eqn:E; [|discriminate].
    destruct (run_gen (step st) s1 ts) as [[s2 vs2]|] eqn:R; [|discriminate]. injection H as <- _.
    inversion HF as [|? ? [Hd Hda] HF']; subst. apply StronglySorted_inv in Hsd. destruct Hsd as [Hsd1 Hsd2].
    eapply (IH s1 (dep t)); [eapply step_J; eauto|exact Hsd1| |exact R].
    rewrite Forall_forall in *. intros x Hx. split; [apply Hsd2, Hx|apply (HF' x Hx)].
Qed.
End Fifo.
