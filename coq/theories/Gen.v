(* Gen.v — models of the scenario generators (property C19):
   - spice_ev/generate/generate_from_statistics.py: the daily trip loop, projected on one vehicle
     (the random trips produced by generate_trip are an input stream);
   - spice_ev/generate/generate_from_csv.py: the per-vehicle trip loop with desired-SoC back-patching.
   Times are integers (minutes for the statistics generator, seconds for the trip table). *)
From Coq Require Import ZArith QArith List Bool Lia.
From SV Require Import Num.
Import ListNotations.
Open Scope Z_scope.

Section Gen.
Context {T} {N:Num T}.

(* vehicle events: departure (time, announced arrival) / arrival (time, announced departure,
   desired SoC, soc_delta) *)
Inductive gev := GDep (t eta : Z) | GArr (t : Z) (etd : option Z) (dsoc sdelta : T).

(* ---------- statistics generator ---------- *)
(* one generated trip of the vehicle: day index (now = start + day), absolute departure, duration, soc_delta *)
Record strip := { s_day : nat; s_dep : Z; s_dur : Z; s_sd : T }.
(* v_info["estimated_time_of_departure"], v_info["desired_soc"], the vehicle's events (latest first) *)
Record sstate := { st_etd : option Z; st_dsoc : option T; st_rev : list gev }.
Definition sinit : sstate := {| st_etd := None; st_dsoc := None; st_rev := [] |}.

(* Python  a or b  on None / numbers *)
Definition py_or (a:option T) (b:T) : T := match a with Some x => if neqb x zero then b else x | None => b end.

Definition stat_append (days:nat) (tr:strip) (s:sstate) : sstate :=
  if (days <=? s_day tr)%nat then s
  else {| st_etd := st_etd s; st_dsoc := st_dsoc s;
          st_rev := GArr (s_dep tr + s_dur tr) None zero (nneg (s_sd tr)) :: GDep (s_dep tr) (s_dep tr + s_dur tr) :: st_rev s |}.

Definition stat_step (min_soc buffer:T) (days:nat) (s:sstate) (tr:strip) : sstate :=
  let desired := nmax min_soc (nmul (s_sd tr) (nadd one buffer)) in
  let d0 := py_or (st_dsoc s) desired in
  match st_rev s with
  | GArr a etd ds sd :: rest =>
      if a >=? s_dep tr then {| st_etd := st_etd s; st_dsoc := Some d0; st_rev := st_rev s |}
      else stat_append days tr {| st_etd := st_etd s; st_dsoc := Some d0;
                                  st_rev := GArr a (Some (s_dep tr)) desired sd :: rest |}
  | _ => stat_append days tr {| st_etd := Some (s_dep tr); st_dsoc := Some desired; st_rev := st_rev s |}
  end.

Definition stat_vehicle (min_soc buffer:T) (days:nat) (trips:list strip) : sstate :=
  fold_left (stat_step min_soc buffer days) trips sinit.

(* ---------- trip-table (csv) generator ---------- *)
Record crow := { c_dep : Z; c_arr : Z; c_delta : T; c_conn : bool }.
(* sum_delta_soc, vehicles[v_id]["soc"], last_arrival_event is not None, the vehicle's events (latest first) *)
Record cstate := { cs_sum : T; cs_init : T; cs_has : bool; cs_rev : list gev }.

Definition upd_last_arr (d:T) (rev:list gev) : list gev := match rev with
  | GArr a e _ sd :: r => GArr a e d sd :: r
  | x :: GArr a e _ sd :: r => x :: GArr a e d sd :: r
  | l => l end.

Fixpoint csv_rows (min_soc:T) (stop:Z) (s:cstate) (rows:list crow) : cstate := match rows with
  | [] => s
  | r :: tl =>
      let departure := match tl with n :: _ => c_dep n | [] => Z.max (c_arr r + 28800) stop end in
      let sum := nadd (cs_sum s) (c_delta r) in
      if c_conn r then
        let above := nltb min_soc sum in
        let init1 := if above && negb (cs_has s) then sum else cs_init s in
        let rev0 := if above && cs_has s then upd_last_arr sum (cs_rev s) else cs_rev s in
        let rev1 := GArr (c_arr r) (Some departure) min_soc (nneg sum) :: rev0 in
        let rev2 := match tl with n :: _ => GDep departure (c_arr n) :: rev1 | [] => rev1 end in
        csv_rows min_soc stop {| cs_sum := zero; cs_init := init1; cs_has := true; cs_rev := rev2 |} tl
      else csv_rows min_soc stop {| cs_sum := sum; cs_init := cs_init s; cs_has := cs_has s; cs_rev := cs_rev s |} tl
  end.

(* sorted(v_id_list, key=departure_time): stable *)
Fixpoint ins_row (r:crow) (l:list crow) : list crow := match l with
  | [] => [r]
  | x :: tl => if c_dep r <=? c_dep x then r :: l else x :: ins_row r tl end.
Definition sort_rows (l:list crow) : list crow := fold_right ins_row [] l.

Definition csv_vehicle (min_soc:T) (stop:Z) (rows:list crow) : cstate :=
  csv_rows min_soc stop {| cs_sum := zero; cs_init := min_soc; cs_has := false; cs_rev := [] |} (sort_rows rows).

End Gen.
Arguments gev T : clear implicits.
Arguments strip T : clear implicits.
Arguments sstate T : clear implicits.
Arguments crow T : clear implicits.
Arguments cstate T : clear implicits.
