(* EventsShift.v — time-relabelling invariance of the event model (property C16): shifting every
   timestamp (clock, event start/signal times, announced arrival/departure times) by the same
   amount d commutes with event delivery and with the pre-step; no power, SoC, load, limit or
   counter depends on d.  Holds for any number type; axiom-free. *)
From Coq Require Import ZArith List Bool String Lia.
From SV Require Import Num Kernel Events.
Import ListNotations.
Open Scope Z_scope.

Section Shift.
Context {T} {N: Num T}.
Variable d : Z.

Definition sh_oz (x:option Z) : option Z := match x with Some t => Some (t + d) | None => None end.
Definition sh_ooz (x:option (option Z)) : option (option Z) := match x with Some t => Some (sh_oz t) | None => None end.
Definition sh_upd (u:@update T) : @update T :=
  {| u_cs := u_cs u; u_etd := sh_ooz (u_etd u); u_eta := sh_ooz (u_eta u); u_desired := u_desired u; u_delta := u_delta u; u_schedule := u_schedule u |}.
Definition sh_kind (k:@ekind T) : @ekind T := match k with EVeh v t u => EVeh v t (sh_upd u) | x => x end.
Definition sh_ev (e:@event_t T) : @event_t T := {| e_start := e_start e + d; e_signal := e_signal e + d; e_kind := sh_kind (e_kind e) |}.
Definition sh_veh (v:@vehicle T) : @vehicle T :=
  {| v_cs := v_cs v; v_soc := v_soc v; v_desired := v_desired v; v_etd := sh_oz (v_etd v); v_eta := sh_oz (v_eta v);
     v_schedule := v_schedule v; v_delta := v_delta v |}.
Definition sh_tr (tr:list (string * list Z)) := map (fun kl => (fst kl, map (fun x => x + d) (snd kl))) tr.
Definition sh_world (w:@world T) : @world T :=
  {| w_time := w_time w + d; w_gcs := w_gcs w; w_veh := map (fun kv => (fst kv, sh_veh (snd kv))) (w_veh w);
     w_cs := w_cs w; w_bat := w_bat w; w_future := map sh_ev (w_future w);
     w_desired_cnt := w_desired_cnt w; w_margin_cnt := w_margin_cnt w;
     w_tracker := sh_tr (w_tracker w) |}.

(* delivery: the step an event is delivered to does not change *)
Lemma event_index_shift t0 delta (e:@event_t T) : event_index (t0 + d) delta (sh_ev e) = event_index t0 delta e.
Proof. unfold event_index. cbn. f_equal. f_equal. lia. Qed.
Lemma bucket_shift t0 delta n (evs:list (@event_t T)) i :
  bucket (t0 + d) delta n (map sh_ev evs) i = map sh_ev (bucket t0 delta n evs i).
Proof. induction evs as [|e r IH]; cbn [map bucket]; [reflexivity|]. rewrite event_index_shift, IH.
  destruct (if event_index t0 delta e <? 0 then _ else _); reflexivity. Qed.
Lemma event_steps_shift t0 delta n (evs:list (@event_t T)) :
  event_steps (t0 + d) delta n (map sh_ev evs) = map (map sh_ev) (event_steps t0 delta n evs).
Proof. unfold event_steps. rewrite map_map. apply map_ext. intros i. apply bucket_shift. Qed.

(* the queue: sorting commutes with the shift *)
Lemma ins_ev_shift e : forall l, ins_ev (sh_ev e) (map sh_ev l) = map sh_ev (@ins_ev T e l).
Proof. induction l as [|x r IH]; cbn; [reflexivity|].
  replace (e_start x + d <? e_start e + d) with (e_start x <? e_start e) by (destruct (Z.ltb_spec (e_start x) (e_start e)); symmetry; [apply Z.ltb_lt|apply Z.ltb_ge]; lia).
  destruct (e_start x <? e_start e); cbn; [rewrite IH|]; reflexivity. Qed.
Lemma sort_events_shift l : sort_events (map sh_ev l) = map sh_ev (@sort_events T l).
Proof. induction l as [|x r IH]; [reflexivity|]. cbn [map sort_events fold_right].
  change (fold_right ins_ev [] (map sh_ev r)) with (sort_events (map sh_ev r)). rewrite IH. apply ins_ev_shift. Qed.

Lemma lookup_map_veh k (l:list (string * @vehicle T)) :
  lookup k (map (fun kv => (fst kv, sh_veh (snd kv))) l) = match lookup k l with Some v => Some (sh_veh v) | None => None end.
Proof. induction l as [|[k' v] r IH]; cbn; [reflexivity|]. destruct (String.eqb k k'); [reflexivity|exact IH]. Qed.
Lemma assign_map_veh k v (l:list (string * @vehicle T)) :
  assign k (sh_veh v) (map (fun kv => (fst kv, sh_veh (snd kv))) l) = map (fun kv => (fst kv, sh_veh (snd kv))) (assign k v l).
Proof. induction l as [|[k' v'] r IH]; cbn; [reflexivity|]. destruct (String.eqb k k'); cbn; [reflexivity|rewrite IH; reflexivity]. Qed.
Lemma lookup_sh_tr k tr : lookup k (sh_tr tr) = match lookup k tr with Some l => Some (map (fun x => x + d) l) | None => None end.
Proof. induction tr as [|[k' l] r IH]; cbn; [reflexivity|]. destruct (String.eqb k k'); [reflexivity|exact IH]. Qed.
Lemma assign_sh_tr k l tr : assign k (map (fun x => x + d) l) (sh_tr tr) = sh_tr (assign k l tr).
Proof. induction tr as [|[k' l'] r IH]; cbn; [reflexivity|]. destruct (String.eqb k k'); cbn; [reflexivity|].
  f_equal. exact IH. Qed.
Lemma track_shift k t (tr:list (string * list Z)) : track k (t + d) (sh_tr tr) = sh_tr (track k t tr).
Proof.
  unfold track. rewrite lookup_sh_tr. destruct (lookup k tr) as [l|].
  - rewrite <- assign_sh_tr, map_app. reflexivity.
  - unfold sh_tr. rewrite map_app. reflexivity.
Qed.

(* one event *)
Lemma apply_event_shift o (w:@world T) e :
  apply_event o (sh_world w) (sh_ev e) = (sh_world (fst (apply_event o w e)), snd (apply_event o w e)).
Proof.
  unfold apply_event. cbn [e_kind sh_ev]. destruct (e_kind e) as [gc name v|gc name v|gc mp c t wd|vid et u]; cbn [sh_kind].
  - cbn [w_gcs w_cs sh_world]. destruct (lookup gc (w_gcs w)); [|reflexivity]. destruct (mem name (w_cs w)); reflexivity.
  - cbn [w_gcs w_cs sh_world]. destruct (mem name (w_cs w)); [reflexivity|]. destruct (lookup gc (w_gcs w)); reflexivity.
  - cbn [w_gcs sh_world]. destruct (lookup gc (w_gcs w)); reflexivity.
  - cbn [w_veh sh_world]. rewrite lookup_map_veh. destruct (lookup vid (w_veh w)) as [v0|]; [|reflexivity].
    cbv zeta. 
    assert (HU : apply_update (sh_veh v0) (sh_upd u) = sh_veh (apply_update v0 u)).
    { unfold apply_update, sh_veh, sh_upd; cbn. f_equal; destruct (u_etd u) as [[|]|]; destruct (u_eta u) as [[|]|]; reflexivity. }
    rewrite HU. destruct et.
    + (* arrival *)
      cbn [v_delta sh_veh]. destruct (v_delta (apply_update v0 u)) as [dl|].
      * cbn [with_soc v_soc sh_veh w_time sh_world e_start sh_ev].
        destruct (nltb (nadd (nadd (v_soc (apply_update v0 u)) dl) (o_eps o)) zero).
        -- destruct (o_allow_neg o).
           ++ destruct (o_reset_neg o); cbn [fst snd]; unfold sh_world; cbn; rewrite <- assign_map_veh, <- track_shift; reflexivity.
           ++ cbn [fst snd]; unfold sh_world; cbn; rewrite <- assign_map_veh, <- track_shift; reflexivity.
        -- cbn [fst snd]; unfold sh_world; cbn; rewrite <- assign_map_veh; reflexivity.
      * cbn [fst snd]; unfold sh_world; cbn; rewrite <- assign_map_veh; reflexivity.
    + (* departure *)
      cbn [e_start sh_ev w_time sh_world].
      replace (e_start e + d <? w_time w + d - o_interval o) with (e_start e <? w_time w - o_interval o)
        by (destruct (Z.ltb_spec (e_start e) (w_time w - o_interval o)); symmetry; [apply Z.ltb_lt|apply Z.ltb_ge]; lia).
      cbn [v_cs sh_veh].
      destruct (e_start e <? w_time w - o_interval o); cbn [fst snd]; unfold sh_world; cbn; rewrite <- assign_map_veh; reflexivity.
    + cbn [fst snd]; unfold sh_world; cbn; rewrite <- assign_map_veh; reflexivity.
Qed.
End Shift.

Section Shift2.
Context {T} {N: Num T}.
Variable d : Z.
Notation shw := (@sh_world T d).
Notation she := (@sh_ev T d).

Lemma set_future_shift (w:@world T) r : set_future (shw w) (map she r) = shw (set_future w r).
Proof. reflexivity. Qed.

Lemma apply_due_shift o : forall (evs:list (@event_t T)) w,
  apply_due o (shw w) (map she evs) = (shw (fst (apply_due o w evs)), snd (apply_due o w evs)).
Proof.
  induction evs as [|e r IH]; intros w; cbn [map apply_due].
  - reflexivity.
  - cbn [e_start sh_ev w_time sh_world].
    replace (e_start e + d <=? w_time w + d) with (e_start e <=? w_time w)
      by (destruct (Z.leb_spec (e_start e) (w_time w)); symmetry; [apply Z.leb_le|apply Z.leb_gt]; lia).
    destruct (e_start e <=? w_time w).
    + rewrite set_future_shift, apply_event_shift.
      destruct (apply_event o (set_future w r) e) as [w' [x|]]; cbn [fst snd].
      * reflexivity.
      * apply IH.
    + reflexivity.
Qed.

Lemma finish_go_shift (w:@world T) : forall todo done, finish_go (shw w) done todo = finish_go w done todo.
Proof. induction todo as [|[k g] r IH]; intros done; cbn [finish_go]; [reflexivity|].
  change (reset_loads (shw w) g) with (reset_loads w g). destruct (cost_empty _ && _); [reflexivity|apply IH]. Qed.
Lemma finish_shift (w:@world T) : finish (shw w) = (shw (fst (finish w)), snd (finish w)).
Proof. unfold finish. cbn [w_gcs sh_world]. rewrite finish_go_shift. destruct (finish_go w [] (w_gcs w)) as [gcs2 e]. reflexivity. Qed.

(* the pre-step commutes with the time shift: same loads, limits, SoCs, counters, errors *)
Lemma pre_step_shift o (w:@world T) evs :
  pre_step o (shw w) (map she evs) = (shw (fst (pre_step o w evs)), snd (pre_step o w evs)).
Proof.
  unfold pre_step. cbn [w_time w_gcs w_veh w_cs w_bat w_future w_desired_cnt w_margin_cnt w_tracker sh_world].
  rewrite <- map_app, sort_events_shift.
  set (w1 := {| w_time := w_time w + o_interval o; w_gcs := w_gcs w; w_veh := w_veh w; w_cs := w_cs w; w_bat := w_bat w;
               w_future := w_future w; w_desired_cnt := w_desired_cnt w; w_margin_cnt := w_margin_cnt w; w_tracker := w_tracker w |}).
  replace ({| w_time := w_time w + d + o_interval o; w_gcs := w_gcs w;
              w_veh := map (fun kv => (fst kv, sh_veh d (snd kv))) (w_veh w); w_cs := w_cs w; w_bat := w_bat w;
              w_future := map she (w_future w); w_desired_cnt := w_desired_cnt w; w_margin_cnt := w_margin_cnt w;
              w_tracker := sh_tr d (w_tracker w) |}) with (shw w1) by (unfold sh_world, w1; cbn; f_equal; lia).
  rewrite apply_due_shift.
  match goal with |- context [apply_due o w1 ?l] => destruct (apply_due o w1 l) as [w2 [x|]] end; cbn [fst snd].
  - reflexivity.
  - apply finish_shift.
Qed.
End Shift2.
