(* KernelRun.v — executable comparison of the Kernel model. *)
From Coq Require Import ZArith QArith List Bool.
From SV Require Import Num Kernel CurveRun.
Import ListNotations.
Inductive kop := KClamp (p cur mx mn vm:Q) | KCost (x:Q) (c:@cost Q) | KLoss (soc cap rel fr fa:Q).
Record kcase := { k_op : kop; k_exp : res Q }.
Definition N0 := QNum0.
Definition run_kcase (c:kcase) : res Q := match k_op c with
  | KClamp p cur mx mn vm => Ok (@clamp_power Q N0 p cur mx mn vm)
  | KCost x co => @get_cost Q N0 x co
  | KLoss s cp r f a => @apply_losses Q N0 s cp r f a end.
Fixpoint failing (i:nat) (cs:list kcase) : list nat := match cs with [] => []
  | c::r => if same_rq (run_kcase c) (k_exp c) then failing (S i) r else i :: failing (S i) r end.
Definition tag (c:kcase) : nat := match run_kcase c with Ok v => if Qeq_bool v 0 then 0%nat else 1%nat | Err _ => 2%nat end.
