(* CurveGrid.v — exhaustive finite sweep of lookup/clamped on a rational grid
   (executable Q instance), lifted to a universally quantified statement by
   forallb_forall.  The bound of the grid is part of the theorem. *)
From Coq Require Import ZArith QArith Qminmax List Bool Lia.
From SV Require Import Num Curve.
Import ListNotations.
Open Scope Q_scope.

Definition N0 := QNum0.
(* independent spec: first pair of neighbours enclosing s, linear interpolation *)
Fixpoint spec_lerp (l:list (Q*Q)) (s:Q) : option Q := match l with
  | p :: ((q :: _) as r) =>
      if Qle_bool (fst p) s && Qle_bool s (fst q)
      then Some (snd p + (snd q - snd p) * ((s - fst p) / (fst q - fst p)))
      else spec_lerp r s
  | _ => None end.

Definition interiors : list (list Q) := [[]; [1#4]; [1#2]; [3#4]; [1#4;1#2]; [1#4;3#4]; [1#2;3#4]].
Definition powers : list Q := [0; 5; 10; 20].
Definition limits : list Q := [0; 4; 5; 8; 10; 25].
Definition scales : list Q := [1#2; 1; 2].
Definition probes : list Q := map (fun k => inject_Z k / 16) [0;1;2;3;4;5;6;7;8;9;10;11;12;13;14;15;16]%Z.

Fixpoint assignments (xs:list Q) : list (list (Q*Q)) := match xs with
  | [] => [[]]
  | x :: r => flat_map (fun tl => map (fun y => (x,y) :: tl) powers) (assignments r) end.
Definition grid_curves : list (list (Q*Q)) :=
  flat_map (fun mid => assignments (0 :: mid ++ [1])) interiors.

Definition grid_params : list (Q*Q*Q) :=
  flat_map (fun lim => flat_map (fun pre => map (fun post => (lim,pre,post)) scales) scales) limits.

Definition eqo (a:res Q) (b:option Q) : bool := match a,b with Ok x, Some y => Qeq_bool x y | _,_ => false end.

(* lookup = interpolation at all probes *)
Definition check_lookup (l:list (Q*Q)) : bool := match @mk_curve Q N0 l with
  | Ok c => forallb (fun s => eqo (@power_from_soc Q N0 c s) (spec_lerp l s)) probes
            && Qeq_bool (maxp c) (fold_right (fun p m => Qmax (snd p) m) 0 l)
  | Err _ => false end.

(* clamped = post * min (pre * curve, limit) at all probes and at the result's own points *)
Definition check_clamp (l:list (Q*Q)) (prm:Q*Q*Q) : bool :=
  let '(lim,pre,post) := prm in
  match @mk_curve Q N0 l with
  | Ok c => match @clamped Q N0 c lim pre post with
     | Ok c' => forallb (fun s => match spec_lerp l s with
                          | Some v => eqo (@power_from_soc Q N0 c' s) (Some (post * Qmin (pre * v) lim))
                          | None => false end) (probes ++ map fst (pts c'))
                && Qeq_bool (maxp c') (fold_right (fun p m => Qmax (snd p) m) 0 (pts c'))
     | Err _ => false end
  | Err _ => false end.

Lemma grid_ok_true :
  forallb (fun l => check_lookup l && forallb (check_clamp l) grid_params) grid_curves = true.
Proof. vm_cast_no_check (eq_refl true). Qed.

Lemma grid_exhaustive : forall l prm, In l grid_curves -> In prm grid_params ->
  check_lookup l = true /\ check_clamp l prm = true.
Proof.
  intros l prm Hl Hp.
  pose proof (proj1 (forallb_forall _ _) grid_ok_true l Hl) as H.
  apply andb_true_iff in H. destruct H as [H1 H2].
  split; [exact H1|]. exact (proj1 (forallb_forall _ _) H2 prm Hp).
Qed.

Lemma grid_size : (length grid_curves = 976)%nat /\ (length grid_params = 54)%nat.
Proof. vm_compute. split; reflexivity. Qed.

(* The pinned upstream revision of clamped() (defect D1) violates the pointwise law:
   curve [[0,11],[1,11]], limit 11, pre-scale 1/2, evaluated at SoC 1. *)
Definition d1_curve : list (Q*Q) := [(0,11);(1,11)].
Definition violates (cl : @curve Q -> Q -> Q -> Q -> res (@curve Q)) : bool :=
  match @mk_curve Q N0 d1_curve with
  | Ok c => match cl c 11 (1#2) 1, spec_lerp d1_curve 1 with
            | Ok c', Some v0 => match @power_from_soc Q N0 c' 1 with
                                | Ok v => negb (Qeq_bool v (1 * Qmin ((1#2) * v0) 11))
                                | Err _ => false end
            | _, _ => false end
  | Err _ => false end.
Lemma clamped_orig_refuted : violates (@clamped_orig Q N0) = true.
Proof. vm_cast_no_check (eq_refl true). Qed.
(* ... and the repaired one satisfies it on the same input *)
Lemma clamped_fixed_witness : violates (@clamped Q N0) = false.
Proof. vm_cast_no_check (eq_refl false). Qed.
