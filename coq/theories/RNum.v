(* RNum.v — the proof instance of Num on Coq's classical reals, with the small
   reflection lemmas and the [dres] tactic used by every *Props.v file. *)
From Coq Require Import ZArith QArith Qreals Reals List Bool Lia Lra.
From SV Require Import Num.
Import ListNotations.
Open Scope R_scope.

Definition Rleb (a b:R) : bool := if Rle_dec a b then true else false.
Definition Rltb (a b:R) : bool := if Rlt_dec a b then true else false.
Definition Reqb (a b:R) : bool := if Req_EM_T a b then true else false.
Definition Rdivr (a b:R) : res R := if Req_EM_T b 0 then Err ZeroDiv else Ok (a / b).
Definition Rlnr (x:R) : res R := if Rle_dec x 0 then Err ValueErr else Ok (ln x).
#[export] Instance RNum : Num R := {| nofQ := Q2R; nadd := Rplus; nsub := Rminus; nmul := Rmult;
  ndiv := Rdivr; nleb := Rleb; nltb := Rltb; neqb := Reqb;
  nexp := fun x => Ok (exp x); nln := Rlnr |}.

Lemma Rleb_t a b : Rleb a b = true -> a <= b. Proof. unfold Rleb; destruct Rle_dec; auto; discriminate. Qed.
Lemma Rleb_f a b : Rleb a b = false -> b < a. Proof. unfold Rleb; destruct Rle_dec; try discriminate; lra. Qed.
Lemma Rltb_t a b : Rltb a b = true -> a < b. Proof. unfold Rltb; destruct Rlt_dec; auto; discriminate. Qed.
Lemma Rltb_f a b : Rltb a b = false -> b <= a. Proof. unfold Rltb; destruct Rlt_dec; try discriminate; lra. Qed.
Lemma Reqb_t a b : Reqb a b = true -> a = b. Proof. unfold Reqb; destruct Req_EM_T; auto; discriminate. Qed.
Lemma Reqb_f a b : Reqb a b = false -> a <> b. Proof. unfold Reqb; destruct Req_EM_T; auto; discriminate. Qed.
Lemma Rleb_true a b : a <= b -> Rleb a b = true. Proof. unfold Rleb; destruct Rle_dec; auto; lra. Qed.
Lemma Rleb_false a b : b < a -> Rleb a b = false. Proof. unfold Rleb; destruct Rle_dec; auto; lra. Qed.
Lemma Rltb_true a b : a < b -> Rltb a b = true. Proof. unfold Rltb; destruct Rlt_dec; auto; lra. Qed.
Lemma Rltb_false a b : b <= a -> Rltb a b = false. Proof. unfold Rltb; destruct Rlt_dec; auto; lra. Qed.
Lemma Reqb_true a b : a = b -> Reqb a b = true. Proof. unfold Reqb; destruct Req_EM_T; auto; contradiction. Qed.
Lemma Reqb_false a b : a <> b -> Reqb a b = false. Proof. unfold Reqb; destruct Req_EM_T; auto; contradiction. Qed.
Lemma Rdivr_ok a b : b <> 0 -> Rdivr a b = Ok (a / b). Proof. unfold Rdivr; destruct Req_EM_T; auto; contradiction. Qed.
Lemma Rdivr_inv a b r : Rdivr a b = Ok r -> b <> 0 /\ r = a / b.
Proof. unfold Rdivr; destruct Req_EM_T; intros H; [discriminate|]. injection H as <-. auto. Qed.

Lemma zero_0 : @zero R RNum = 0. Proof. unfold zero; cbn. apply RMicromega.Q2R_0. Qed.
Lemma one_1 : @one R RNum = 1. Proof. unfold one; cbn. apply RMicromega.Q2R_1. Qed.
Lemma nneg_R x : @nneg R RNum x = - x. Proof. unfold nneg. rewrite zero_0. cbn. lra. Qed.
Lemma nmin_R a b : @nmin R RNum a b = Rmin a b.
Proof. unfold nmin; cbn. unfold Rmin. destruct (Rltb b a) eqn:E; [apply Rltb_t in E|apply Rltb_f in E];
  destruct (Rle_dec a b); lra. Qed.
Lemma nmax_R a b : @nmax R RNum a b = Rmax a b.
Proof. unfold nmax; cbn. unfold Rmax. destruct (Rltb a b) eqn:E; [apply Rltb_t in E|apply Rltb_f in E];
  destruct (Rle_dec a b); lra. Qed.
Lemma nabs_R a : @nabs R RNum a = Rabs a.
Proof. unfold nabs. rewrite nneg_R, zero_0. cbn. unfold Rabs. destruct (Rltb a 0) eqn:E; [apply Rltb_t in E|apply Rltb_f in E];
  destruct (Rcase_abs a); lra. Qed.

(* turn every boolean comparison hypothesis on R into a Prop *)
Ltac rbool := repeat match goal with
  | H : Rleb _ _ = true |- _ => apply Rleb_t in H
  | H : Rleb _ _ = false |- _ => apply Rleb_f in H
  | H : Rltb _ _ = true |- _ => apply Rltb_t in H
  | H : Rltb _ _ = false |- _ => apply Rltb_f in H
  | H : Reqb _ _ = true |- _ => apply Reqb_t in H
  | H : Reqb _ _ = false |- _ => apply Reqb_f in H
  | H : _ && _ = true |- _ => apply andb_true_iff in H; destruct H
  | H : _ || _ = false |- _ => apply orb_false_iff in H; destruct H
  | H : negb _ = true |- _ => apply negb_true_iff in H
  | H : negb _ = false |- _ => apply negb_false_iff in H
  end.

(* split a [let!] chain that is known to evaluate to Ok *)
Ltac dres := repeat match goal with
  | H : bind ?r _ = Ok _ |- _ => destruct r eqn:?; cbn [bind] in H; [| discriminate H]
  | H : match ?r with Ok _ => _ | Err _ => _ end = Ok _ |- _ => destruct r eqn:?; [| try discriminate H]
  | H : (let (_,_) := ?p in _) = Ok _ |- _ => destruct p eqn:?
  | H : (if ?b then _ else _) = Ok _ |- _ => destruct b eqn:?; try discriminate H
  | H : Ok _ = Ok _ |- _ => injection H as H; try subst
  end.
