(* ExecProps.v — theorems about the EXECUTABLE (Q) instance, i.e. about the very terms that the correspondence
   check evaluates with vm_compute and compares with /repo, obtained from the theorems on R through Transfer. *)
From Coq Require Import ZArith QArith Qminmax Qreals Reals List Bool Lia Lra String.
From SV Require Import Num RNum Transfer TransferK TransferAll Kernel KernelProps Report ReportProps RunLoop RunLoopProps.
Import ListNotations.

Lemma Q2R_0' : Q2R 0 = 0%R. Proof. apply RMicromega.Q2R_0. Qed.

(* ---- util.clamp_power on rationals ---- *)
Theorem clamp_exec_nonneg tbl p cur mx mn vm : (0 <= @clamp_power Q (QNum tbl) p cur mx mn vm)%Q.
Proof. apply Rle_Qle. rewrite Q2R_0', clamp_power_transfer. apply clamp_nonneg. Qed.
Theorem clamp_exec_within_max tbl p cur mx mn vm : (cur <= mx)%Q -> (cur + @clamp_power Q (QNum tbl) p cur mx mn vm <= mx)%Q.
Proof. intros H. apply Rle_Qle. rewrite Q2R_plus, clamp_power_transfer. apply clamp_within_max. apply Qle_Rle, H. Qed.
Theorem clamp_exec_le_power tbl p cur mx mn vm : (0 <= p)%Q -> (@clamp_power Q (QNum tbl) p cur mx mn vm <= p)%Q.
Proof. intros H. apply Rle_Qle. rewrite clamp_power_transfer. apply clamp_le_power. rewrite <- Q2R_0'. apply Qle_Rle, H. Qed.
Theorem clamp_exec_positive_respects_min tbl p cur mx mn vm : (0 < @clamp_power Q (QNum tbl) p cur mx mn vm)%Q ->
  (mn <= cur + @clamp_power Q (QNum tbl) p cur mx mn vm)%Q /\ (vm <= cur + @clamp_power Q (QNum tbl) p cur mx mn vm)%Q.
Proof. intros H. apply Qlt_Rlt in H. rewrite Q2R_0', clamp_power_transfer in H.
  destruct (clamp_positive_respects_min _ _ _ _ _ H) as (A & B & _).
  split; apply Rle_Qle; rewrite Q2R_plus, clamp_power_transfer; assumption. Qed.

(* ---- report.split_feedin on rationals ---- *)
Theorem split_exec_nonneg tbl g ge cs :
  let '(gen, v2g, bat) := @split_feedin Q (QNum tbl) g ge cs in (0 <= gen)%Q /\ (0 <= v2g)%Q /\ (0 <= bat)%Q.
Proof. pose proof (split_feedin_transfer tbl g ge cs) as H. pose proof (split_nonneg (Q2R g) (Q2R ge) (Q2R cs)) as P.
  destruct (@split_feedin Q (QNum tbl) g ge cs) as [[a b] c]. destruct (@split_feedin R RNum (Q2R g) (Q2R ge) (Q2R cs)) as [[a' b'] c'].
  inversion H as [? ? H1 ? ? H2]; subst. inversion H1 as [? ? H3 ? ? H4]; subst. unfold QR in *. subst.
  destruct P as (A & B & C). repeat split; apply Rle_Qle; rewrite Q2R_0'; assumption. Qed.
Theorem split_exec_sum tbl g ge cs : (ge <= 0)%Q -> (cs <= 0)%Q ->
  let '(gen, v2g, bat) := @split_feedin Q (QNum tbl) g ge cs in (gen + v2g + bat == Qmax g 0)%Q.
Proof. intros Hg Hc. pose proof (split_feedin_transfer tbl g ge cs) as H.
  assert (Hg' : (Q2R ge <= 0)%R) by (rewrite <- Q2R_0'; apply Qle_Rle, Hg).
  assert (Hc' : (Q2R cs <= 0)%R) by (rewrite <- Q2R_0'; apply Qle_Rle, Hc).
  pose proof (split_spec (Q2R g) (Q2R ge) (Q2R cs) Hg' Hc') as P.
  destruct (@split_feedin Q (QNum tbl) g ge cs) as [[a b] c]. destruct (@split_feedin R RNum (Q2R g) (Q2R ge) (Q2R cs)) as [[a' b'] c'].
  inversion H as [? ? H1 ? ? H2]; subst. inversion H1 as [? ? H3 ? ? H4]; subst. unfold QR in *. subst.
  destruct P as (_ & _ & _ & S & _). apply eqR_Qeq. rewrite !Q2R_plus, S.
  destruct (Qlt_le_dec g 0) as [L|L].
  - rewrite Q.max_r by (apply Qlt_le_weak, L). rewrite Q2R_0'. apply Rmax_right. rewrite <- Q2R_0'. apply Qle_Rle, Qlt_le_weak, L.
  - rewrite Q.max_l by exact L. apply Rmax_left. rewrite <- Q2R_0'. apply Qle_Rle, L. Qed.

(* ---- Scenario.run on rationals: the run is complete iff every step passes the safety check ---- *)
Lemma forallb_step_ok_transfer tbl eps steps steps' : list_R _ _ (SV_o_RunLoop_o_stepobs_R Q R QR) steps steps' ->
  forallb (@step_ok Q (QNum tbl) eps) steps = forallb (@step_ok R RNum (Q2R eps)) steps'.
Proof. induction 1 as [|s s' Hs l l' Hl IH]; cbn; [reflexivity|]. rewrite IH, (step_ok_transfer tbl eps s s' Hs). reflexivity. Qed.
Theorem run_exec_abort_iff_invalid_step tbl eps (steps:list (@stepobs Q)) :
  @aborted Q (QNum tbl) eps steps = false <-> forallb (@step_ok Q (QNum tbl) eps) steps = true.
Proof. destruct (total steps) as [steps' H]. rewrite (forallb_step_ok_transfer tbl eps steps steps' H).
  rewrite <- (proj1 (run_complete (Q2R eps) steps')). unfold aborted.
  pose proof (run_transfer tbl eps steps steps' H) as P.
  destruct (@run Q (QNum tbl) eps steps) as [r b], (@run R RNum (Q2R eps) steps') as [r' b']. cbn.
  inversion P as [? ? _ ? ? Hb]; subst. apply bool_R_eq in Hb. subst. reflexivity. Qed.
Theorem run_exec_rows_bounded tbl eps (steps:list (@stepobs Q)) :
  (List.length (fst (@run Q (QNum tbl) eps steps)) <= List.length steps)%nat.
Proof. apply run_length. Qed.

(* ---- loading_curve.power_from_soc on rationals: defined on [0,1] and within [0, max_power] ---- *)
From SV Require Import Curve CurveProps.
From Param Require Import Param.
Definition curveQ2R (c:@curve Q) : @curve R :=
  {| pts := map (fun p => (Q2R (fst p), Q2R (snd p))) (pts c); maxp := Q2R (maxp c) |}.
Lemma ptsQ2R_rel (l:list (Q*Q)) : list_R _ _ (prod_R Q R QR Q R QR) l (map (fun p => (Q2R (fst p), Q2R (snd p))) l).
Proof. induction l as [|[a b] l IH]; cbn; constructor; [constructor; reflexivity|exact IH]. Qed.
Lemma curveQ2R_rel (c:@curve Q) : SV_o_Curve_o_curve_R Q R QR c (curveQ2R c).
Proof. destruct c as [p m]. unfold curveQ2R; cbn. constructor; [apply ptsQ2R_rel|reflexivity]. Qed.

Theorem lookup_exec_total_bounded tbl (c:@curve Q) (s:Q) :
  wf_curve (curveQ2R c) -> maxp (curveQ2R c) = maxfold (pts (curveQ2R c)) -> nonneg (pts (curveQ2R c)) ->
  (0 <= s)%Q -> (s <= 1)%Q ->
  exists v, @power_from_soc Q (QNum tbl) c s = Ok v /\ (0 <= v)%Q /\ (v <= maxp c)%Q.
Proof. intros Hwf Hmax Hnn H0 H1.
  assert (Hs : (0 <= Q2R s <= 1)%R).
  { split; [rewrite <- Q2R_0'|replace 1%R with (Q2R 1) by (apply RMicromega.Q2R_1)]; apply Qle_Rle; assumption. }
  destruct (lookup_total (curveQ2R c) (Q2R s) Hwf Hs) as [vr Hvr].
  pose proof (power_from_soc_transfer tbl c (curveQ2R c) s (curveQ2R_rel c)) as T.
  rewrite Hvr in T. inversion T as [v ? Hv Hq|]; subst. unfold QR in Hv. subst vr.
  exists v. split; [reflexivity|].
  destruct (max_power_bounds_curve (curveQ2R c) (Q2R s) (Q2R v) Hwf Hmax Hnn Hs Hvr) as [A B].
  split; apply Rle_Qle; [rewrite Q2R_0'|]; assumption. Qed.

(* ---- Strategy.apply_battery_losses on rationals ---- *)
Theorem losses_exec_bounds tbl soc cap rel fr fa s' :
  (0 < cap)%Q -> (0 <= soc)%Q -> (0 <= rel)%Q -> (rel <= 100)%Q -> (0 <= fr)%Q -> (0 <= fa)%Q ->
  @apply_losses Q (QNum tbl) soc cap rel fr fa = Ok s' -> (0 <= s')%Q /\ (s' <= soc)%Q.
Proof. intros Hc Hs Hr0 Hr1 Hf Ha H.
  pose proof (apply_losses_transfer tbl soc cap rel fr fa) as T. rewrite H in T. cbn [mapres] in T.
  assert (H100 : Q2R 100 = 100%R) by (unfold Q2R; cbn; lra).
  assert (A : (0 <= Q2R s' <= Q2R soc)%R).
  { apply (losses_bounds (Q2R soc) (Q2R cap) (Q2R rel) (Q2R fr) (Q2R fa)); try exact T.
    - rewrite <- Q2R_0'. apply Qlt_Rlt, Hc.
    - rewrite <- Q2R_0'. apply Qle_Rle, Hs.
    - split; [rewrite <- Q2R_0'|rewrite <- H100]; apply Qle_Rle; assumption.
    - rewrite <- Q2R_0'. apply Qle_Rle, Hf.
    - rewrite <- Q2R_0'. apply Qle_Rle, Ha. }
  destruct A as [A B]. split; apply Rle_Qle; [rewrite Q2R_0'|]; assumption. Qed.

(* ---- costs.find_prices on rationals: tariff class by the 100 000 kWh/a boundary ---- *)
From SV Require Import Costs CostsProps.
Lemma find_prices_expfree tbl : @find_prices R (RNumT tbl) = @find_prices R RNum. Proof. reflexivity. Qed.
Theorem tariff_class_exec tbl (sh:@sheet Q) ft util e :
  let f := snd (@find_prices Q (QNum tbl) sh ft util e) in
  (ft = Some RLM -> f = RLM) /\ (ft <> Some RLM -> (f = SLP <-> (-(100000) <= e)%Q /\ (e <= 100000)%Q)).
Proof. destruct (sheet_total sh) as [sh' Hsh].
  assert (Hft : option_R _ _ SV_o_Costs_o_fee_R ft ft) by (destruct ft as [[|]|]; repeat constructor).
  pose proof (SV_o_Costs_o_find_prices_R Q R QR _ _ (QNum_RNumT tbl) sh sh' Hsh ft ft Hft util _ eq_refl e _ eq_refl) as T.
  rewrite (find_prices_expfree tbl) in T.
  pose proof (tariff_class sh' ft (Q2R util) (Q2R e)) as P. cbv zeta in P |- *.
  destruct (@find_prices Q (QNum tbl) sh ft util e) as [[a b] f], (@find_prices R RNum sh' ft (Q2R util) (Q2R e)) as [[a' b'] f'].
  inversion T as [? ? _ ? ? Hf]; subst. assert (f = f') by (destruct Hf; reflexivity). subst f'. cbn [snd] in *.
  destruct P as [P1 P2]. split; [exact P1|]. intros Hne. rewrite (P2 Hne).
  assert (E : Q2R 100000 = 100000%R) by (unfold Q2R; cbn; lra).
  split.
  - intros Ha. assert (-100000 <= Q2R e <= 100000)%R as [L U] by (revert Ha; unfold Rabs; destruct Rcase_abs; lra).
    split; apply Rle_Qle; [rewrite Q2R_opp, E|rewrite E]; assumption.
  - intros [L U]. apply Qle_Rle in L, U. rewrite Q2R_opp, E in L. rewrite E in U. unfold Rabs; destruct Rcase_abs; lra. Qed.
