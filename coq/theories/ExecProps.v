(* ExecProps.v — theorems about the EXECUTABLE (Q) instance, i.e. about the very terms that the correspondence
   check evaluates with vm_compute and compares with /repo, obtained from the theorems on R through Transfer. *)
From Coq Require Import ZArith QArith Qminmax Qreals Reals List Bool Lia Lra String.
From SV Require Import Num RNum Transfer TransferK TransferAll Kernel KernelProps Report ReportProps RunLoop RunLoopProps.
Import ListNotations.

Lemma Q2R_0' : Q2R 0 = 0%R. Proof. apply RMicromega.Q2R_0. Qed.

(* ---- util.clamp_power on rationals ---- *)
Theorem clamp_exec_nonneg tbl p cur mx mn vm : (0 <= @clamp_power Q (QNum tbl) p cur mx mn vm)%Q.
Proof. apply Rle_Qle. rewrite Q2R_0', clamp_power_transfer. apply clamp_nonneg. Qed.
Theorem clamp_exec_within_max tbl p cur mx mn vm : (cur <= mx)%Q -> (cur + @clamp_power Q (QNum tbl) p cur mx mn vm <= mx)%Q.
Proof. intros H. apply Rle_Qle. rewrite Q2R_plus, clamp_power_transfer. apply clamp_within_max. apply Qle_Rle, H. Qed.
Theorem clamp_exec_le_power tbl p cur mx mn vm : (0 <= p)%Q -> (@clamp_power Q (QNum tbl) p cur mx mn vm <= p)%Q.
Proof. intros H. apply Rle_Qle. rewrite clamp_power_transfer. apply clamp_le_power. rewrite <- Q2R_0'. apply Qle_Rle, H. Qed.
Theorem clamp_exec_positive_respects_min tbl p cur mx mn vm : (0 < @clamp_power Q (QNum tbl) p cur mx mn vm)%Q ->
  (mn <= cur + @clamp_power Q (QNum tbl) p cur mx mn vm)%Q /\ (vm <= cur + @clamp_power Q (QNum tbl) p cur mx mn vm)%Q.
Proof. intros H. apply Qlt_Rlt in H. rewrite Q2R_0', clamp_power_transfer in H.
  destruct (clamp_positive_respects_min _ _ _ _ _ H) as (A & B & _).
  split; apply Rle_Qle; rewrite Q2R_plus, clamp_power_transfer; assumption. Qed.

(* ---- report.split_feedin on rationals ---- *)
Theorem split_exec_nonneg tbl g ge cs :
  let '(gen, v2g, bat) := @split_feedin Q (QNum tbl) g ge cs in (0 <= gen)%Q /\ (0 <= v2g)%Q /\ (0 <= bat)%Q.
Proof. pose proof (split_feedin_transfer tbl g ge cs) as H. pose proof (split_nonneg (Q2R g) (Q2R ge) (Q2R cs)) as P.
  destruct (@split_feedin Q (QNum tbl) g ge cs) as [[a b] c]. destruct (@split_feedin R RNum (Q2R g) (Q2R ge) (Q2R cs)) as [[a' b'] c'].
  inversion H as [? ? H1 ? ? H2]; subst. inversion H1 as [? ? H3 ? ? H4]; subst. unfold QR in *. subst.
  destruct P as (A & B & C). repeat split; apply Rle_Qle; rewrite Q2R_0'; assumption. Qed.
Theorem split_exec_sum tbl g ge cs : (ge <= 0)%Q -> (cs <= 0)%Q ->
  let '(gen, v2g, bat) := @split_feedin Q (QNum tbl) g ge cs in (gen + v2g + bat == Qmax g 0)%Q.
Proof. intros Hg Hc. pose proof (split_feedin_transfer tbl g ge cs) as H.
  assert (Hg' : (Q2R ge <= 0)%R) by (rewrite <- Q2R_0'; apply Qle_Rle, Hg).
  assert (Hc' : (Q2R cs <= 0)%R) by (rewrite <- Q2R_0'; apply Qle_Rle, Hc).
  pose proof (split_spec (Q2R g) (Q2R ge) (Q2R cs) Hg' Hc') as P.
  destruct (@split_feedin Q (QNum tbl) g ge cs) as [[a b] c]. destruct (@split_feedin R RNum (Q2R g) (Q2R ge) (Q2R cs)) as [[a' b'] c'].
  inversion H as [? ? H1 ? ? H2]; subst. inversion H1 as [? ? H3 ? ? H4]; subst. unfold QR in *. subst.
  destruct P as (_ & _ & _ & S & _). apply eqR_Qeq. rewrite !Q2R_plus, S.
  destruct (Qlt_le_dec g 0) as [L|L].
  - rewrite Q.max_r by (apply Qlt_le_weak, L). rewrite Q2R_0'. apply Rmax_right. rewrite <- Q2R_0'. apply Qle_Rle, Qlt_le_weak, L.
  - rewrite Q.max_l by exact L. apply Rmax_left. rewrite <- Q2R_0'. apply Qle_Rle, L. Qed.

(* ---- Scenario.run on rationals: the run is complete iff every step passes the safety check ---- *)
Lemma forallb_step_ok_transfer tbl eps steps steps' : list_R _ _ (SV_o_RunLoop_o_stepobs_R Q R QR) steps steps' ->
  forallb (@step_ok Q (QNum tbl) eps) steps = forallb (@step_ok R RNum (Q2R eps)) steps'.
Proof. induction 1 as [|s s' Hs l l' Hl IH]; cbn; [reflexivity|]. rewrite IH, (step_ok_transfer tbl eps s s' Hs). reflexivity. Qed.
Theorem run_exec_abort_iff_invalid_step tbl eps (steps:list (@stepobs Q)) :
  @aborted Q (QNum tbl) eps steps = false <-> forallb (@step_ok Q (QNum tbl) eps) steps = true.
Proof. destruct (total steps) as [steps' H]. rewrite (forallb_step_ok_transfer tbl eps steps steps' H).
  rewrite <- (proj1 (run_complete (Q2R eps) steps')). unfold aborted.
  pose proof (run_transfer tbl eps steps steps' H) as P.
  destruct (@run Q (QNum tbl) eps steps) as [r b], (@run R RNum (Q2R eps) steps') as [r' b']. cbn.
  inversion P as [? ? _ ? ? Hb]; subst. apply bool_R_eq in Hb. subst. reflexivity. Qed.
Theorem run_exec_rows_bounded tbl eps (steps:list (@stepobs Q)) :
  (List.length (fst (@run Q (QNum tbl) eps steps)) <= List.length steps)%nat.
Proof. apply run_length. Qed.
