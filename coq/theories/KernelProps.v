(* KernelProps.v — theorems about the kernels on R (properties C05, C06, C04/C07 limit rule). *)
From Coq Require Import ZArith QArith Qreals Reals List Bool Lia Lra Psatz.
From SV Require Import Num RNum Kernel.
Import ListNotations.
Open Scope R_scope.

Notation Rclamp := (@clamp_power R RNum).

Lemma clamp_unfold p cur mx mn vm : Rclamp p cur mx mn vm =
  if (Rltb (Rmin (cur + p) mx) mn || Rltb (Rmin (cur + p) mx) vm)%bool then 0 else Rmax (Rmin p (mx - cur)) 0.
Proof. unfold clamp_power. rewrite !nmin_R, nmax_R, zero_0. cbn [nltb nadd nsub RNum]. reflexivity. Qed.

Lemma clamp_nonneg p cur mx mn vm : 0 <= Rclamp p cur mx mn vm.
Proof. rewrite clamp_unfold. destruct (_ || _)%bool; [lra|apply Rmax_r]. Qed.

Lemma clamp_le_headroom p cur mx mn vm : Rclamp p cur mx mn vm <= Rmax (mx - cur) 0.
Proof. rewrite clamp_unfold. destruct (_ || _)%bool; [apply Rmax_r|].
  apply Rmax_case_strong; intros; [|apply Rmax_r]. eapply Rle_trans; [apply Rmin_r|apply Rmax_l]. Qed.

Lemma clamp_le_power p cur mx mn vm : 0 <= p -> Rclamp p cur mx mn vm <= p.
Proof. intros Hp. rewrite clamp_unfold. destruct (_ || _)%bool; [lra|].
  apply Rmax_case_strong; intros; [apply Rmin_l|lra]. Qed.

(* a positive result keeps the station at or above both minimum powers, and within its maximum *)
Lemma clamp_positive_respects_min p cur mx mn vm : 0 < Rclamp p cur mx mn vm ->
  mn <= cur + Rclamp p cur mx mn vm /\ vm <= cur + Rclamp p cur mx mn vm /\ cur + Rclamp p cur mx mn vm <= mx.
Proof.
  rewrite clamp_unfold. destruct (_ || _)%bool eqn:E; [lra|]. apply orb_false_iff in E. destruct E as [E1 E2].
  apply Rltb_f in E1. apply Rltb_f in E2. intros Hpos.
  assert (Hr : Rmax (Rmin p (mx - cur)) 0 = Rmin p (mx - cur)).
  { apply Rmax_left. unfold Rmax in Hpos. destruct (Rle_dec (Rmin p (mx - cur)) 0); lra. }
  rewrite Hr in *. assert (cur + Rmin p (mx - cur) = Rmin (cur + p) mx).
  { unfold Rmin. destruct (Rle_dec p (mx - cur)), (Rle_dec (cur + p) mx); lra. }
  pose proof (Rmin_r (cur + p) mx). lra.
Qed.

Lemma clamp_mono p1 p2 cur mx mn vm : p1 <= p2 -> Rclamp p1 cur mx mn vm <= Rclamp p2 cur mx mn vm.
Proof.
  intros H. rewrite !clamp_unfold.
  assert (Ht : Rmin (cur + p1) mx <= Rmin (cur + p2) mx) by (apply Rle_min_compat_r; lra).
  destruct (Rltb (Rmin (cur + p1) mx) mn || Rltb (Rmin (cur + p1) mx) vm)%bool eqn:E1.
  - destruct (Rltb (Rmin (cur + p2) mx) mn || Rltb (Rmin (cur + p2) mx) vm)%bool; [lra|apply Rmax_r].
  - apply orb_false_iff in E1. destruct E1 as [A B]. apply Rltb_f in A. apply Rltb_f in B.
    rewrite (Rltb_false (Rmin (cur + p2) mx) mn), (Rltb_false (Rmin (cur + p2) mx) vm) by lra. cbn.
    apply Rle_max_compat_r. apply Rle_min_compat_r. exact H.
Qed.

(* the station never exceeds its maximum: cur + result <= max whenever cur <= max *)
Lemma clamp_within_max p cur mx mn vm : cur <= mx -> cur + Rclamp p cur mx mn vm <= mx.
Proof. intros H. pose proof (clamp_le_headroom p cur mx mn vm). rewrite Rmax_left in H0 by lra. lra. Qed.

(* ---------- losses ---------- *)
Notation Rlosses := (@apply_losses R RNum).
Lemma losses_spec soc cap rel fr fa : cap <> 0 ->
  Rlosses soc cap rel fr fa = Ok (Rmax (soc * (1 - rel / 100) - fr / 100 - fa / cap) 0).
Proof.
  intros Hc. unfold apply_losses, hundred. cbn [ndiv nofQ nmul nsub RNum bind].
  assert (H100 : Q2R 100 = 100). { unfold Q2R; cbn. lra. }
  rewrite H100. rewrite !Rdivr_ok by (lra || exact Hc). cbn [bind].
  rewrite nmax_R, one_1, zero_0. reflexivity.
Qed.
(* self-discharge only lowers the SoC and never takes it below zero *)
Lemma losses_bounds soc cap rel fr fa s' : 0 < cap -> 0 <= soc -> 0 <= rel <= 100 -> 0 <= fr -> 0 <= fa ->
  Rlosses soc cap rel fr fa = Ok s' -> 0 <= s' <= soc.
Proof.
  intros Hc Hs Hr Hf Ha H. rewrite losses_spec in H by lra. injection H as <-. split; [apply Rmax_r|].
  apply Rmax_lub; [|exact Hs].
  assert (0 <= fa / cap) by (apply Rmult_le_pos; [lra|left; apply Rinv_0_lt_compat; lra]).
  assert (soc * (1 - rel / 100) <= soc) by nra. lra.
Qed.

(* ---------- grid operator limit: the current limit never exceeds the rating ---------- *)
Lemma apply_limit_le_rating (rating:R) cur ev : rating <> 0 ->
  (match cur with Some c => c <= rating | None => True end) ->
  match @apply_limit R RNum rating cur ev with Some c => c <= rating | None => cur = None /\ ev = None end.
Proof.
  intros Hr Hc. unfold apply_limit. cbn [neqb RNum]. rewrite zero_0, Reqb_false by exact Hr.
  destruct ev as [m|]; [rewrite nmin_R; apply Rmin_l|]. destruct cur; auto.
Qed.
Lemma apply_limit_is_min (rating:R) cur m : rating <> 0 -> @apply_limit R RNum rating cur (Some m) = Some (Rmin rating m).
Proof. intros Hr. unfold apply_limit. cbn [neqb RNum]. rewrite zero_0, Reqb_false by exact Hr. rewrite nmin_R. reflexivity. Qed.
