(* GenRun.v — executable comparison of the generator models with recorded implementation output. *)
From Coq Require Import ZArith QArith List Bool.
From SV Require Import Num Gen.
Import ListNotations.
Open Scope Z_scope.
Local Instance QN : Num Q := QNum0.

Definition eqoz (a b:option Z) : bool := match a,b with Some x, Some y => Z.eqb x y | None, None => true | _,_ => false end.
Definition eqoq (a b:option Q) : bool := match a,b with Some x, Some y => Qeq_bool x y | None, None => true | _,_ => false end.
Definition eqgev (a b:gev Q) : bool := match a,b with
  | GDep t e, GDep t' e' => Z.eqb t t' && Z.eqb e e'
  | GArr t e d s, GArr t' e' d' s' => Z.eqb t t' && eqoz e e' && Qeq_bool d d' && Qeq_bool s s'
  | _,_ => false end.
Fixpoint all2g (a b:list (gev Q)) : bool := match a,b with [],[] => true | x::r,y::s => eqgev x y && all2g r s | _,_ => false end.

(* statistics: inputs + expected (initial etd, initial desired soc, events in order) *)
Record scase := { sc_min : Q; sc_buf : Q; sc_days : nat; sc_trips : list (strip Q);
                  sc_etd : option Z; sc_dsoc : option Q; sc_evs : list (gev Q) }.
Definition run_scase (c:scase) := stat_vehicle (sc_min c) (sc_buf c) (sc_days c) (sc_trips c).
Definition ok_s (c:scase) : bool := let s := run_scase c in
  eqoz (st_etd s) (sc_etd c) && eqoq (st_dsoc s) (sc_dsoc c) && all2g (rev (st_rev s)) (sc_evs c).
Fixpoint failing_s (i:nat) (cs:list scase) : list nat := match cs with [] => [] | c::r => if ok_s c then failing_s (S i) r else i :: failing_s (S i) r end.
(* tag: 0 no events, 1 events only, 2 some trip discarded (overlap), 3 trips past the end *)
Definition tag_s (c:scase) : nat :=
  let n := length (sc_evs c) in
  if Nat.eqb n 0 then 0%nat
  else if existsb (fun t => Nat.leb (sc_days c) (s_day t)) (sc_trips c) then
         (if Nat.ltb (2 * length (filter (fun t => negb (Nat.leb (sc_days c) (s_day t))) (sc_trips c))) (S n) then 3%nat else 2%nat)
       else 1%nat.

(* csv: inputs + expected (initial soc, events) *)
Record ccase := { cc_min : Q; cc_stop : Z; cc_rows : list (crow Q); cc_init : Q; cc_evs : list (gev Q) }.
Definition run_ccase (c:ccase) := csv_vehicle (cc_min c) (cc_stop c) (cc_rows c).
Definition ok_c (c:ccase) : bool := let s := run_ccase c in
  Qeq_bool (cs_init s) (cc_init c) && all2g (rev (cs_rev s)) (cc_evs c).
Fixpoint failing_c (i:nat) (cs:list ccase) : list nat := match cs with [] => [] | c::r => if ok_c c then failing_c (S i) r else i :: failing_c (S i) r end.
(* tag: 0 no events, 1 all connect, 2 some rows without connection, 3 desired soc patched *)
Definition tag_c (c:ccase) : nat :=
  if Nat.eqb (length (cc_evs c)) 0 then 0%nat
  else if existsb (fun e => match e with GArr _ _ d _ => negb (Qeq_bool d (cc_min c)) | _ => false end) (cc_evs c) then 3%nat
  else if existsb (fun r => negb (c_conn r)) (cc_rows c) then 2%nat else 1%nat.
