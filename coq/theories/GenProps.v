(* GenProps.v — theorems about the generator models on R (property C19). *)
From Coq Require Import ZArith QArith Qreals Reals List Bool Lia Lra Permutation.
From SV Require Import Num RNum Gen.
Import ListNotations.
Open Scope R_scope.

Notation Rgev := (gev R).

(* ================= statistics generator ================= *)
(* head_ok: the newest arrival either still carries the placeholder (no later trip seen yet) or
   announces a departure strictly after the arrival, with a desired SoC of at least the minimum *)
Definition head_ok (m:R) (a:Z) (etd:option Z) (ds:R) : Prop :=
  (etd = None /\ ds = 0) \/ (exists d', etd = Some d' /\ (a < d')%Z /\ m <= ds).

(* well-formed event list of one vehicle, newest first: (departure, arrival) pairs; a departure announces
   exactly the following arrival and is not after it; an arrival that is followed by a trip announces exactly
   that trip's departure, lies strictly before it, and its desired SoC is at least the minimum and covers the
   trip's consumption times (1 + buffer) *)
Inductive swf (m b1:R) : list Rgev -> Prop :=
| swf_nil : swf m b1 []
| swf_first a etd ds sd d : (d <= a)%Z -> head_ok m a etd ds -> swf m b1 [GArr a etd ds sd; GDep d a]
| swf_more a etd ds sd d a0 ds0 sd0 rest : (d <= a)%Z -> head_ok m a etd ds ->
    (a0 < d)%Z -> m <= ds0 -> (- sd) * b1 <= ds0 ->
    swf m b1 (GArr a0 (Some d) ds0 sd0 :: rest) ->
    swf m b1 (GArr a etd ds sd :: GDep d a :: GArr a0 (Some d) ds0 sd0 :: rest).

Lemma swf_rehead m b1 a etd ds sd rest etd' ds' : swf m b1 (GArr a etd ds sd :: rest) -> head_ok m a etd' ds' ->
  swf m b1 (GArr a etd' ds' sd :: rest).
Proof. intros Hw Hh. inversion Hw; subst; [apply swf_first|apply swf_more]; assumption. Qed.

Lemma zero_R0 : @zero R RNum = 0. Proof. apply zero_0. Qed.

Lemma stat_append_wf m b1 days tr (s:sstate R) :
  (0 <= s_dur tr)%Z ->
  (st_rev s = [] \/ exists a ds sd rest, st_rev s = GArr a (Some (s_dep tr)) ds sd :: rest /\ (a < s_dep tr)%Z /\ m <= ds /\ s_sd tr * b1 <= ds) ->
  swf m b1 (st_rev s) -> swf m b1 (st_rev (stat_append days tr s)).
Proof.
  intros Hd Hs Hw. unfold stat_append. destruct (days <=? s_day tr)%nat; [exact Hw|]. cbn [st_rev].
  destruct Hs as [E|(a & ds & sd & rest & E & Ha & Hm & Hc)]; rewrite E in *.
  - apply swf_first; [lia|]. left. split; [reflexivity|apply zero_R0].
  - apply swf_more; try assumption; try lia.
    + left. split; [reflexivity|apply zero_R0].
    + rewrite nneg_R. lra.
Qed.

Lemma stat_step_wf m buf days (s:sstate R) tr : (0 <= s_dur tr)%Z ->
  swf m (1 + buf) (st_rev s) -> swf m (1 + buf) (st_rev (stat_step m buf days s tr)).
Proof.
  intros Hd Hw. unfold stat_step.
  assert (Hdes : m <= @nmax R RNum m (nmul (s_sd tr) (nadd one buf)) /\
                 s_sd tr * (1 + buf) <= @nmax R RNum m (nmul (s_sd tr) (nadd one buf))).
  { rewrite nmax_R. cbn [nmul nadd RNum]. rewrite one_1. split; [apply Rmax_l|apply Rmax_r]. }
  destruct Hdes as [Hm Hc].
  destruct (st_rev s) as [|[t eta|a etd ds sd] rest] eqn:E.
  - apply stat_append_wf; [exact Hd|left; reflexivity|]. cbn [st_rev]. rewrite ?E. constructor.
  - inversion Hw.
  - destruct (a >=? s_dep tr)%Z eqn:Ea; cbn [st_rev]; [rewrite ?E; exact Hw|].
    apply stat_append_wf; [exact Hd| |].
    + right. cbn [st_rev]. eexists _, _, _, _. split; [reflexivity|]. split; [lia|]. split; assumption.
    + cbn [st_rev]. eapply swf_rehead; [exact Hw|]. right. eexists. split; [reflexivity|]. split; [lia|exact Hm].
Qed.

Lemma stat_vehicle_wf m buf days trips : Forall (fun tr => (0 <= s_dur tr)%Z) trips ->
  swf m (1 + buf) (st_rev (@stat_vehicle R RNum m buf days trips)).
Proof.
  unfold stat_vehicle. assert (H0 : swf m (1 + buf) (st_rev (@sinit R))) by constructor.
  revert H0. generalize (@sinit R). induction trips as [|tr trips IH]; intros s H0 HF; cbn [fold_left]; [exact H0|].
  inversion HF; subst. apply IH; [apply stat_step_wf; assumption|assumption].
Qed.

(* the vehicle's initial announcement: whenever it has events, the first one is a departure at exactly the
   initially announced departure time, and the initial desired SoC is at least the minimum *)
Definition sinit_ok (m:R) (s:sstate R) : Prop := match st_rev s with [] => True | _ =>
  exists d eta x, last (st_rev s) (GDep 0 0) = GDep d eta /\ st_etd s = Some d /\ st_dsoc s = Some x /\ m <= x end.

Lemma last_cons2 {A} (x y:A) l d : last (x :: y :: l) d = last (y :: l) d. Proof. reflexivity. Qed.

Lemma py_or_ge m (o:option R) des : m <= des -> (match o with Some x => m <= x | None => True end) -> m <= @py_or R RNum o des.
Proof. intros Hd Ho. unfold py_or. destruct o as [x|]; [|exact Hd]. cbn [neqb RNum]. destruct (Reqb x zero); assumption. Qed.

Lemma stat_step_init m buf days (s:sstate R) tr :
  swf m (1 + buf) (st_rev s) -> sinit_ok m s -> sinit_ok m (stat_step m buf days s tr).
Proof.
  intros Hw Hi. unfold stat_step.
  assert (Hm : m <= @nmax R RNum m (nmul (s_sd tr) (nadd one buf))) by (rewrite nmax_R; apply Rmax_l).
  destruct (st_rev s) as [|[t eta|a etd ds sd] rest] eqn:E.
  - unfold stat_append, sinit_ok. destruct (days <=? s_day tr)%nat; cbn [st_rev st_etd st_dsoc]; rewrite ?E; [exact I|].
    cbn [last]. eexists _, _, _. repeat split; try reflexivity. exact Hm.
  - inversion Hw.
  - unfold sinit_ok in Hi. rewrite ?E in Hi. destruct Hi as (d & eta & x & Hl & He & Hx & Hmx).
    assert (Hrest : exists y r', rest = y :: r') by (inversion Hw; subst; eauto). destruct Hrest as (y & r' & ->).
    assert (Hpo : m <= @py_or R RNum (st_dsoc s) (@nmax R RNum m (nmul (s_sd tr) (nadd one buf)))).
    { apply py_or_ge; [exact Hm|]. rewrite Hx. exact Hmx. }
    destruct (a >=? s_dep tr)%Z.
    + unfold sinit_ok. cbn [st_rev st_etd st_dsoc]. rewrite ?E. eexists _, _, _. repeat split; try eassumption; try reflexivity.
    + unfold stat_append, sinit_ok. destruct (days <=? s_day tr)%nat; cbn [st_rev st_etd st_dsoc].
      * rewrite last_cons2 in *. eexists _, _, _. repeat split; try eassumption; try reflexivity.
      * rewrite !last_cons2 in *. eexists _, _, _. repeat split; try eassumption; try reflexivity.
Qed.

Lemma stat_vehicle_init m buf days trips : Forall (fun tr => (0 <= s_dur tr)%Z) trips ->
  sinit_ok m (@stat_vehicle R RNum m buf days trips).
Proof.
  unfold stat_vehicle. assert (H0 : swf m (1 + buf) (st_rev (@sinit R)) /\ sinit_ok m (@sinit R)) by (split; [constructor|exact I]).
  revert H0. generalize (@sinit R). induction trips as [|tr trips IH]; intros s [H0 H1] HF; cbn [fold_left]; [exact H1|].
  inversion HF; subst. apply IH; [|assumption]. split; [apply stat_step_wf|apply stat_step_init]; assumption.
Qed.

(* the placeholder survives exactly when no later trip departs after the last arrival *)
Lemma stat_open_end m buf days (s:sstate R) tr a ds sd rest :
  st_rev (stat_step m buf days s tr) = GArr a None ds sd :: rest ->
  (st_rev s = GArr a None ds sd :: rest /\ (s_dep tr <= a)%Z) \/ (days > s_day tr)%nat.
Proof.
  unfold stat_step, stat_append. destruct (st_rev s) as [|[t eta|a0 etd0 ds0 sd0] rest0] eqn:E.
  - destruct (days <=? s_day tr)%nat eqn:Ed; cbn [st_rev]; rewrite ?E; [discriminate|]. intros _. right. apply Nat.leb_gt in Ed. lia.
  - destruct (days <=? s_day tr)%nat eqn:Ed; cbn [st_rev]; rewrite ?E; [discriminate|]. intros _. right. apply Nat.leb_gt in Ed. lia.
  - destruct (a0 >=? s_dep tr)%Z eqn:Ea; cbn [st_rev].
    + rewrite ?E. intros H. left. split; [exact H|]. injection H as -> _ _ _ _. lia.
    + destruct (days <=? s_day tr)%nat eqn:Ed; cbn [st_rev]; [discriminate|]. intros _. right. apply Nat.leb_gt in Ed. lia.
Qed.

(* ================= trip-table generator ================= *)
(* events of one vehicle, newest first, when the list starts with an arrival: every arrival announces exactly
   the following departure (not before the arrival), with a desired SoC >= minimum that covers the consumption
   until the next connection; every departure announces an arrival not before itself and not after the next
   arrival event *)
Inductive cw (m:R) : list Rgev -> Prop :=
| cw_one a d ds sd : (a <= d)%Z -> m <= ds -> cw m [GArr a (Some d) ds sd]
| cw_more a d ds sd d0 eta0 a0 ds0 sd0 rest :
    (a <= d)%Z -> m <= ds -> (d0 <= eta0)%Z -> (eta0 <= a)%Z -> - sd <= ds0 ->
    cw m (GArr a0 (Some d0) ds0 sd0 :: rest) ->
    cw m (GArr a (Some d) ds sd :: GDep d0 eta0 :: GArr a0 (Some d0) ds0 sd0 :: rest).
Definition cfinal (m:R) (r:list Rgev) : Prop :=
  r = [] \/ cw m r \/ exists d eta a ds sd rest, r = GDep d eta :: GArr a (Some d) ds sd :: rest /\ (d <= eta)%Z /\ cw m (GArr a (Some d) ds sd :: rest).

Lemma cw_rehead m a e ds sd rest ds' : cw m (GArr a e ds sd :: rest) -> m <= ds' -> cw m (GArr a e ds' sd :: rest).
Proof. intros Hw Hd. inversion Hw; subst; [apply cw_one|apply cw_more]; assumption. Qed.

(* input trips of the vehicle in departure order: each trip departs no earlier than the previous arrival
   and arrives no earlier than it departs *)
Fixpoint chain (prev:Z) (rows:list (crow R)) : Prop := match rows with
  | [] => True | r :: tl => (prev <= c_dep r)%Z /\ (c_dep r <= c_arr r)%Z /\ chain (c_arr r) tl end.

Definition cinv (m:R) (s:cstate R) (rows:list (crow R)) : Prop :=
  (cs_has s = false /\ cs_rev s = []) \/
  (cs_has s = true /\ exists d eta a sd rest, cs_rev s = GDep d eta :: GArr a (Some d) m sd :: rest /\
     cw m (GArr a (Some d) m sd :: rest) /\ (d <= eta)%Z /\ match rows with r :: _ => (eta <= c_arr r)%Z | [] => True end).

Lemma csv_rows_wf m stop : forall rows (s:cstate R) prev, chain prev rows -> cinv m s rows ->
  cfinal m (cs_rev (@csv_rows R RNum m stop s rows)).
Proof.
  induction rows as [|r tl IH]; intros s prev Hch Hinv.
  - cbn [csv_rows]. destruct Hinv as [[_ E]|[_ (d & eta & a & sd & rest & E & Hw & Hde & _)]]; rewrite E.
    + left; reflexivity.
    + right; right. eexists _, _, _, _, _, _. split; [reflexivity|]. split; assumption.
  - cbn [csv_rows]. destruct Hch as (Hp & Hda & Hch).
    destruct (c_conn r) eqn:Ec.
    + (* connecting trip: arrival event, patched predecessor *)
      set (sum := nadd (cs_sum s) (c_delta r)).
      set (departure := match tl with n :: _ => c_dep n | [] => Z.max (c_arr r + 28800) stop end).
      assert (Hdep : (c_arr r <= departure)%Z).
      { unfold departure. destruct tl as [|n tl']; [lia|]. cbn [chain] in Hch. lia. }
      set (rev0 := if (nltb m sum && cs_has s)%bool then upd_last_arr sum (cs_rev s) else cs_rev s).
      assert (Hrev1 : cw m (GArr (c_arr r) (Some departure) m (nneg sum) :: rev0)).
      { destruct Hinv as [[Eh E]|[Eh (d & eta & a & sd & rest & E & Hw & Hde & Heta)]].
        - unfold rev0. rewrite Eh, E, andb_false_r. apply cw_one; [exact Hdep|lra].
        - unfold rev0. rewrite Eh, E, andb_true_r. cbn [nltb RNum].
          destruct (Rltb m sum) eqn:El; [apply Rltb_t in El|apply Rltb_f in El]; cbn [upd_last_arr].
          + apply cw_more; try assumption; try lra. * rewrite nneg_R. lra. * eapply cw_rehead; [exact Hw|lra].
          + apply cw_more; try assumption; try lra. rewrite nneg_R. lra. }
      destruct tl as [|n tl'].
      * cbn [csv_rows cs_rev]. right; left. exact Hrev1.
      * eapply IH; [exact Hch|]. right. cbn [cs_has cs_rev]. split; [reflexivity|].
        cbn [chain] in Hch. eexists _, _, _, _, _. split; [reflexivity|]. split; [exact Hrev1|]. split; [lia|lia].
    + (* trip without connection: only the consumption accumulates *)
      eapply IH; [exact Hch|]. destruct Hinv as [[Eh E]|[Eh (d & eta & a & sd & rest & E & Hw & Hde & Heta)]]; cbn [cs_has cs_rev].
      * left. split; assumption.
      * right. split; [exact Eh|]. eexists _, _, _, _, _. split; [exact E|]. split; [exact Hw|]. split; [exact Hde|].
        destruct tl as [|n tl']; [exact I|]. cbn [chain] in Hch. lia.
Qed.

Lemma csv_vehicle_sorted_wf m stop rows prev : chain prev rows ->
  cfinal m (cs_rev (@csv_rows R RNum m stop {| cs_sum := zero; cs_init := m; cs_has := false; cs_rev := [] |} rows)).
Proof. intros H. eapply csv_rows_wf; [exact H|]. left. split; reflexivity. Qed.

(* the stable insertion sort used for sorted(..., key=departure_time) returns a permutation ordered by departure *)
Fixpoint dep_sorted (l:list (crow R)) : Prop := match l with
  | [] => True | x :: tl => (match tl with y :: _ => (c_dep x <= c_dep y)%Z | [] => True end) /\ dep_sorted tl end.
Lemma ins_row_sorted (r:crow R) l : dep_sorted l -> dep_sorted (ins_row r l).
Proof.
  induction l as [|x tl IH]; intros H; cbn [ins_row]; [cbn; auto|].
  destruct (c_dep r <=? c_dep x)%Z eqn:E.
  - cbn [dep_sorted]. split; [lia|exact H].
  - cbn [dep_sorted] in H. destruct H as [Hx Ht]. specialize (IH Ht). cbn [dep_sorted]. split; [|exact IH].
    destruct tl as [|y tl']; cbn [ins_row]; [lia|]. destruct (c_dep r <=? c_dep y)%Z; lia.
Qed.
Lemma sort_rows_sorted (l:list (crow R)) : dep_sorted (sort_rows l).
Proof. induction l as [|x l IH]; cbn; [exact I|apply ins_row_sorted; exact IH]. Qed.
Lemma ins_row_perm (r:crow R) l : Permutation (r :: l) (ins_row r l).
Proof.
  induction l as [|x tl IH]; cbn [ins_row]; [reflexivity|]. destruct (c_dep r <=? c_dep x)%Z; [reflexivity|].
  eapply perm_trans; [apply perm_swap|]. apply perm_skip. exact IH.
Qed.
Lemma sort_rows_perm (l:list (crow R)) : Permutation l (sort_rows l).
Proof. induction l as [|x l IH]; cbn; [constructor|]. eapply perm_trans; [|apply ins_row_perm]. apply perm_skip. exact IH. Qed.
