(* StratProps.v — theorems about the per-vehicle decision of greedy and balanced (property C10), R instance. *)
From Coq Require Import ZArith QArith Qreals Reals List Bool Lia Lra String.
From SV Require Import Num RNum Curve Battery Kernel KernelProps Strat Service.
Import ListNotations.
Open Scope R_scope.

Notation Rcharge := (@vehicle_charge R RNum).
Notation Rload := (@load R RNum).
Definition clampv (v:@veh R) (cs:@cstation R) (p:R) : R := @clamp_power R RNum p (cs_cur cs) (cs_maxp cs) (cs_minp cs) (vh_minp v).

(* 1. neither cheap nor in need: nothing happens (greedy) *)
Lemma greedy_idle o v cs left av : vh_desired v - soc (vh_bat v) <= so_eps o ->
  Rcharge SGreedy o v cs left av false = Ok (vh_bat v, 0, false).
Proof.
  intros H. unfold vehicle_charge. cbn [nltb nsub RNum]. rewrite Rltb_false by lra. rewrite zero_0. reflexivity.
Qed.

(* 2. greedy, normal price, vehicle in need: one battery request with a target power p that is the clamped minimum of
      the power needed to reach the desired SoC within this step and the remaining connector power (with supporting
      batteries); p is non-negative, at most the station's remaining rating, at most the power needed, at most the head room *)
Lemma greedy_request o v cs left av r : so_eps o < vh_desired v - soc (vh_bat v) -> eff (vh_bat v) <> 0 -> 0 <= so_eps o ->
  0 <= cap (vh_bat v) -> 0 < eff (vh_bat v) -> 0 <= so_tsph o ->
  Rcharge SGreedy o v cs left av false = r ->
  let pn := (vh_desired v - soc (vh_bat v)) * cap (vh_bat v) / eff (vh_bat v) * so_tsph o in
  let p := clampv v cs (Rmin pn (left + av)) in
  r = (let! (b', a, _) := Rload (vh_bat v) (so_hours o) None (TPower p) in Ok (b', a, true)) /\
  0 <= p /\ p <= Rmax (cs_maxp cs - cs_cur cs) 0 /\ p <= pn /\ (0 <= left + av -> p <= left + av).
Proof.
  intros Hd He Heps Hcap Heff Hts Hr pn p. unfold vehicle_charge in Hr. cbn [nltb nsub nmul ndiv nadd RNum] in Hr.
  rewrite Rltb_true in Hr by lra. rewrite Rdivr_ok in Hr by exact He. cbn [bind] in Hr. rewrite nmin_R in Hr.
  split; [symmetry; exact Hr|].
  assert (Hpn : 0 <= pn).
  { unfold pn. apply Rmult_le_pos; [|exact Hts]. apply Rmult_le_pos; [apply Rmult_le_pos; lra|]. left. apply Rinv_0_lt_compat. exact Heff. }
  unfold p, clampv. split; [apply clamp_nonneg|]. split; [apply clamp_le_headroom|].
  split.
  - destruct (Rle_dec 0 (left + av)) as [Hl|Hl].
    + eapply Rle_trans; [apply clamp_le_power; apply Rmin_glb; assumption|apply Rmin_l].
    + assert (Hneg : Rmin pn (left + av) < 0) by (eapply Rle_lt_trans; [apply Rmin_r|lra]).
      rewrite clamp_unfold. destruct (_ || _)%bool; [exact Hpn|].
      apply Rmax_lub; [|exact Hpn]. eapply Rle_trans; [apply Rmin_l|]. lra.
  - intros Hl. eapply Rle_trans; [apply clamp_le_power; apply Rmin_glb; assumption|apply Rmin_r].
Qed.

(* 3. cheap price (greedy): one unrestricted-target request limited to the clamped remaining connector power *)
Lemma greedy_cheap o v cs left av :
  Rcharge SGreedy o v cs left av true = (let! (b', a, _) := Rload (vh_bat v) (so_hours o) (Some (clampv v cs left)) TNone in Ok (b', a, false)) /\
  0 <= clampv v cs left <= Rmax (cs_maxp cs - cs_cur cs) 0 /\ (0 <= left -> clampv v cs left <= left).
Proof.
  split; [reflexivity|]. unfold clampv. split; [split; [apply clamp_nonneg|apply clamp_le_headroom]|]. intros H. apply clamp_le_power. exact H.
Qed.

(* 4. balanced, normal price, in need, k = ceil(time to departure / interval) > 0 steps left: the request is the clamped
      minimum of (power needed / k) and the remaining connector power — never more than an even share *)
Lemma balanced_request o v cs left av etd r : so_eps o < vh_desired v - soc (vh_bat v) -> 0 < eff (vh_bat v) -> 0 <= so_eps o ->
  0 <= cap (vh_bat v) -> 0 <= so_tsph o -> vh_etd v = Some etd -> (0 < steps_left (etd - so_now o) (so_interval o))%Z ->
  Rcharge SBalanced o v cs left av false = r ->
  let k := steps_left (etd - so_now o) (so_interval o) in
  let q := (vh_desired v - soc (vh_bat v)) * cap (vh_bat v) / eff (vh_bat v) * so_tsph o / IZR k in
  let p := clampv v cs (Rmin q left) in
  r = (let! (b', a, _) := Rload (vh_bat v) (so_hours o) None (TPower p) in Ok (b', a, true)) /\
  0 <= p /\ p <= Rmax (cs_maxp cs - cs_cur cs) 0 /\ p <= q /\ (0 <= left -> p <= left).
Proof.
  intros Hd Heff Heps Hcap Hts Hetd Hk Hr k q p. unfold vehicle_charge in Hr. cbn [nltb nsub nmul ndiv nadd RNum] in Hr.
  rewrite Rltb_true in Hr by lra. rewrite Hetd in Hr. rewrite Rdivr_ok in Hr by lra. cbn [bind] in Hr.
  change (- ((etd - so_now o) / - so_interval o))%Z with k in Hr.
  assert (Hkb : (0 <? k)%Z = true) by (apply Z.ltb_lt; exact Hk). rewrite Hkb in Hr.
  assert (HkR : 0 < IZR k) by (apply IZR_lt; exact Hk).
  assert (Hq2r : Q2R (inject_Z k) = IZR k). { unfold Q2R, inject_Z. cbn. field. }
  cbn [nofQ RNum] in Hr. rewrite Hq2r in Hr. rewrite Rdivr_ok in Hr by lra. cbn [bind] in Hr. rewrite nmin_R in Hr.
  split; [symmetry; exact Hr|].
  assert (Hq : 0 <= q).
  { unfold q. apply Rmult_le_pos; [|left; apply Rinv_0_lt_compat; exact HkR]. apply Rmult_le_pos; [|exact Hts].
    apply Rmult_le_pos; [apply Rmult_le_pos; lra|]. left. apply Rinv_0_lt_compat. exact Heff. }
  unfold p, clampv. split; [apply clamp_nonneg|]. split; [apply clamp_le_headroom|]. split.
  - destruct (Rle_dec 0 left) as [Hl|Hl].
    + eapply Rle_trans; [apply clamp_le_power; apply Rmin_glb; assumption|apply Rmin_l].
    + rewrite clamp_unfold. destruct (_ || _)%bool; [exact Hq|]. apply Rmax_lub; [|exact Hq]. eapply Rle_trans; [apply Rmin_l|]. apply Rmin_l.
  - intros Hl. eapply Rle_trans; [apply clamp_le_power; apply Rmin_glb; assumption|apply Rmin_r].
Qed.
