(* Assign.v — model of generate_from_csv.assign_vehicle_id (trip table -> vehicle ids).
   Times are integers (seconds); a trip is (departure, arrival, vehicle type).
   State: rotations in progress ordered by earliest next departure, idle vehicles in
   the order they became idle, per-type counters.
   [assign] models the repaired code (exact type match, insertion at the end when the
   new rotation is the latest); [assign_orig] the pinned upstream revision (substring
   match "v_type in v_id", insertion before the last element) — defects D3a/D3b. *)
From Coq Require Import ZArith List Bool String Ascii Lia DecimalString.
Import ListNotations.
Open Scope Z_scope.

Record trip := { dep : Z; arr : Z; ty : string }.
Definition vid := (string * nat)%type.            (* (type, running number) *)
Definition entry := (Z * vid)%type.               (* (min_departure_time, vehicle) *)
Record state := { inprog : list entry; idle : list entry; counts : list (string * nat) }.

Definition render (v:vid) : string :=
  String.append (fst v) (String.append "_"%string (NilEmpty.string_of_uint (Nat.to_uint (snd v)))).

(* while rotations_in_progress: r = pop(0); if departure > r.min_departure_time: idle.append else: reinsert; break *)
Fixpoint pop (d:Z) (ip idl:list entry) : list entry * list entry := match ip with
  | [] => ([], idl)
  | e :: r => if fst e <? d then pop d r (idl ++ [e])%list else (ip, idl) end.

(* next(v_id for v_id in idle_vehicles if <match>); idle_vehicles.remove(v_id) *)
Fixpoint take_first (m:vid -> bool) (idl:list entry) : option (entry * list entry) := match idl with
  | [] => None
  | e :: r => if m (snd e) then Some (e, r)
              else match take_first m r with Some (x, r') => Some (x, e :: r') | None => None end end.

Fixpoint get (k:string) (c:list (string*nat)) : option nat := match c with
  | [] => None | (k',n)::r => if String.eqb k k' then Some n else get k r end.
Fixpoint bump (k:string) (c:list (string*nat)) : list (string*nat) := match c with
  | [] => [] | (k',n)::r => if String.eqb k k' then (k', S n)::r else (k',n) :: bump k r end.

(* for i, r in enumerate(in_progress): if r.min_dep >= min_dep: break   [else: i = len]  ; insert(i, rot) *)
Fixpoint ins (e:entry) (l:list entry) : list entry := match l with
  | [] => [e]
  | r :: t => if fst e <=? fst r then e :: r :: t else r :: ins e t end.

Definition same_type (t:string) (v:vid) : bool := String.eqb (fst v) t.

Definition step_gen (matchf : string -> vid -> bool) (insf : entry -> list entry -> list entry)
                    (st : string -> Z) (s:state) (t:trip) : option (state * vid) :=
  let '(ip, idl) := pop (dep t) (inprog s) (idle s) in
  match get (ty t) (counts s) with
  | None => None                                    (* KeyError: unknown vehicle type *)
  | Some n =>
    let '(v, idl', cnt') := match take_first (matchf (ty t)) idl with
        | Some (e, r) => (snd e, r, counts s)
        | None => ((ty t, S n), idl, bump (ty t) (counts s)) end in
    Some ({| inprog := insf (arr t + st (ty t), v) ip; idle := idl'; counts := cnt' |}, v) end.
Definition step := step_gen same_type ins.

Fixpoint run_gen (stp : state -> trip -> option (state * vid)) (s:state) (ts:list trip) : option (state * list vid) :=
  match ts with
  | [] => Some (s, [])
  | t :: r => match stp s t with None => None
      | Some (s', v) => match run_gen stp s' r with None => None | Some (s'', vs) => Some (s'', v :: vs) end end end.

(* sorted(input, key=departure_time): stable insertion sort on (index, trip) *)
Fixpoint sins (x:nat*trip) (l:list (nat*trip)) : list (nat*trip) := match l with
  | [] => [x] | y :: r => if dep (snd y) <? dep (snd x) then y :: sins x r else x :: y :: r end.
Definition sort_trips (l:list (nat*trip)) : list (nat*trip) := fold_right sins [] l.
Fixpoint number {A} (i:nat) (l:list A) : list (nat*A) := match l with [] => [] | a::r => (i,a) :: number (S i) r end.

Definition init (types:list string) : state := {| inprog := []; idle := []; counts := map (fun t => (t,O)) types |}.

Fixpoint nins (x:nat*vid) (l:list (nat*vid)) : list (nat*vid) := match l with
  | [] => [x] | y :: r => if Nat.ltb (fst y) (fst x) then y :: nins x r else x :: y :: r end.

Definition assign_gen stp (types:list string) (input:list trip) : option (list vid) :=
  let sorted := sort_trips (number 0 input) in
  match run_gen stp (init types) (map snd sorted) with
  | None => None
  | Some (_, vs) => Some (map snd (fold_right nins [] (combine (map fst sorted) vs))) end.
Definition assign (st:string->Z) := assign_gen (step st).

(* ---------- the pinned upstream revision ---------- *)
Fixpoint prefixb (a b:string) : bool := match a, b with
  | EmptyString, _ => true
  | String x a', String y b' => Ascii.eqb x y && prefixb a' b'
  | _, _ => false end.
Fixpoint infixb (a b:string) : bool :=    (* Python: a in b *)
  prefixb a b || match b with EmptyString => false | String _ b' => infixb a b' end.
Definition substr_type (t:string) (v:vid) : bool := infixb t (render v).
Fixpoint find_ge (m:Z) (l:list entry) (i:nat) : option nat := match l with
  | [] => None | r :: t => if m <=? fst r then Some i else find_ge m t (S i) end.
Definition ins_orig (e:entry) (l:list entry) : list entry :=
  let i := match find_ge (fst e) l 0 with Some i => i | None => (List.length l - 1)%nat end in
  (firstn i l ++ e :: skipn i l)%list.
Definition step_orig := step_gen substr_type ins_orig.
Definition assign_orig (st:string->Z) := assign_gen (step_orig st).
