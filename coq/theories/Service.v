(* Service.v — planning arithmetic of the greedy and balanced strategies and the induction behind the
   service guarantee (property C09); the individual-schedule command (property C11). *)
From Coq Require Import ZArith QArith Qreals Reals List Bool Lia Lra Psatz.
From SV Require Import Num RNum Kernel KernelProps.
Import ListNotations.

(* ---------- remaining steps: -(dt // -interval) is the ceiling ---------- *)
Open Scope Z_scope.
Definition steps_left (dt interval:Z) : Z := - (dt / - interval).
Lemma steps_left_ceil dt i : 0 < i -> (steps_left dt i - 1) * i < dt <= steps_left dt i * i.
Proof.
  intros Hi. unfold steps_left.
  pose proof (Z.div_mod dt (- i) ltac:(lia)) as Hdm.
  pose proof (Z.mod_neg_bound dt (- i) ltac:(lia)) as Hb. nia.
Qed.
(* hence: no step is lost (k steps cover the time to departure) and none is invented (k-1 would not) *)
Lemma steps_left_pos dt i : 0 < i -> (0 < steps_left dt i <-> 0 < dt).
Proof. intros Hi. pose proof (steps_left_ceil dt i Hi). nia. Qed.
Lemma steps_left_least dt i k : 0 < i -> dt <= k * i -> steps_left dt i <= k.
Proof. intros Hi Hk. pose proof (steps_left_ceil dt i Hi). nia. Qed.
Close Scope Z_scope.

Open Scope R_scope.
(* ---------- greedy: the requested power aims exactly at the desired SoC ---------- *)
(* energy_needed = delta*capacity/efficiency; power_needed = energy_needed * ts_per_hour; a battery that takes
   average power p for one step of `hours` gains p*efficiency*hours/capacity *)
Lemma greedy_request_hits_desired soc desired cap eff tsph hours :
  0 < cap -> 0 < eff -> tsph * hours = 1 ->
  let pn := (desired - soc) * cap / eff * tsph in
  soc + pn * eff * hours / cap = desired.
Proof.
  intros Hc He Ht pn. unfold pn.
  replace (soc + (desired - soc) * cap / eff * tsph * eff * hours / cap) with (soc + (desired - soc) * (tsph * hours)) by (field; split; lra).
  rewrite Ht. ring.
Qed.

(* any smaller request (connector, station or curve limit) aims below the desired SoC: greedy never plans to overshoot *)
Lemma greedy_request_below soc desired cap eff tsph hours p :
  0 < cap -> 0 < eff -> 0 < hours -> tsph * hours = 1 ->
  p <= (desired - soc) * cap / eff * tsph -> soc + p * eff * hours / cap <= desired.
Proof.
  intros Hc He Hh Ht Hp. rewrite <- (greedy_request_hits_desired soc desired cap eff tsph hours Hc He Ht).
  apply Rplus_le_compat_l. unfold Rdiv. apply Rmult_le_compat_r; [left; apply Rinv_0_lt_compat; exact Hc|].
  apply Rmult_le_compat_r; [lra|]. apply Rmult_le_compat_r; [lra|]. exact Hp.
Qed.

(* ---------- balanced: k equal steps of need/k deliver the need ---------- *)
Lemma balanced_plan_covers soc desired cap eff tsph hours (k:Z) :
  0 < cap -> 0 < eff -> tsph * hours = 1 -> (0 < k)%Z ->
  let q := (desired - soc) * cap / eff * tsph / IZR k in
  soc + IZR k * (q * eff * hours / cap) = desired.
Proof.
  intros Hc He Ht Hk q. unfold q. assert (IZR k <> 0) by (apply not_0_IZR; lia).
  rewrite <- (greedy_request_hits_desired soc desired cap eff tsph hours Hc He Ht) at 2. field. repeat split; lra.
Qed.

(* ---------- the induction behind "greedy leaves with at least min(desired, full-power reach)" ---------- *)
Section Guarantee.
  Variable F : R -> R.                 (* one step at full available power *)
  Variable step : R -> R.              (* one step of the strategy *)
  Variable desired tol : R.
  Hypothesis F_mono : forall a b, a <= b -> F a <= F b.
  Hypothesis step_noloss : forall s, s <= step s.
  Hypothesis step_dichotomy : forall s, desired - tol <= step s \/ F s <= step s.

  Fixpoint iter (f:R->R) (n:nat) (s:R) : R := match n with O => s | S k => iter f k (f s) end.

  Lemma iter_noloss n : forall s, s <= iter step n s.
  Proof. induction n as [|n IH]; intros s; cbn; [lra|]. eapply Rle_trans; [apply step_noloss|apply IH]. Qed.

  Theorem service_guarantee n : forall s, Rmin (desired - tol) (iter F n s) <= iter step n s.
  Proof.
    induction n as [|n IH]; intros s; cbn [iter]; [apply Rmin_r|].
    destruct (step_dichotomy s) as [Hd|Hf].
    - eapply Rle_trans; [apply Rmin_l|]. eapply Rle_trans; [exact Hd|apply iter_noloss].
    - eapply Rle_trans; [|apply IH]. apply Rle_min_compat_l.
      clear IH. revert Hf. generalize (F s) (step s). induction n as [|n IHn]; intros a b Hab; cbn [iter]; [exact Hab|].
      apply IHn. apply F_mono. exact Hab.
  Qed.
End Guarantee.

(* ---------- individual schedule: the command is never below the scheduled power as far as limits allow ---------- *)
Notation Rclamp := (@clamp_power R RNum).
Definition indiv_command (sched add cur mx mn vm left:R) : R := Rmin (Rclamp (sched + add) cur mx mn vm) left.
Lemma indiv_command_ge_schedule sched add cur mx mn vm left : 0 <= add ->
  Rmin (Rclamp sched cur mx mn vm) left <= indiv_command sched add cur mx mn vm left.
Proof. intros Ha. unfold indiv_command. apply Rle_min_compat_r. apply clamp_mono. lra. Qed.
Lemma indiv_command_le_left sched add cur mx mn vm left : indiv_command sched add cur mx mn vm left <= left.
Proof. apply Rmin_r. Qed.
