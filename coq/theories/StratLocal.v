(* StratLocal.v — locality of the per-vehicle step of greedy/balanced (properties C14, C16): a vehicle's step touches
   only its own connector, station and vehicle entry; any number type, no axioms. *)
From Coq Require Import ZArith QArith List Bool String.
From SV Require Import Num Curve Battery Kernel Strat.
Import ListNotations.

Section Local.
Context {T} {N:Num T}.

Lemma lookup_assign_other {A} k k' (v:A) l : k' <> k -> Strat.lookup k' (Strat.assign k v l) = Strat.lookup k' l.
Proof.
  intros Hne. induction l as [|[k2 v2] r IH]; cbn.
  - destruct (String.eqb k' k) eqn:E; [apply String.eqb_eq in E; congruence|reflexivity].
  - destruct (String.eqb k k2) eqn:E; cbn.
    + apply String.eqb_eq in E. subst k2. destruct (String.eqb k' k) eqn:E2; [apply String.eqb_eq in E2; congruence|reflexivity].
    + destruct (String.eqb k' k2); [reflexivity|exact IH].
Qed.

(* one vehicle's step: every other connector keeps its loads, limit and cost; every other station keeps its power;
   every other vehicle keeps its battery; the supporting-battery budget of every other connector is unchanged *)
Theorem vehicle_step_local (s:strat) (o:sopts) w cmds avail vid w' cmds' avail' :
  vehicle_step s o (w, cmds, avail) vid = Ok (w', cmds', avail') ->
  exists g0 c0, (forall g, g <> g0 -> Strat.lookup g (sw_gcs w') = Strat.lookup g (sw_gcs w) /\ Strat.lookup g avail' = Strat.lookup g avail) /\
                (forall c, c <> c0 -> Strat.lookup c (sw_css w') = Strat.lookup c (sw_css w) /\ Strat.lookup c cmds' = Strat.lookup c cmds) /\
                (forall v, v <> vid -> Strat.lookup v (sw_veh w') = Strat.lookup v (sw_veh w)) /\
                sw_bats w' = sw_bats w /\ sw_order w' = sw_order w.
Proof.
  unfold vehicle_step. intros H.
  destruct (get vid (sw_veh w)) as [v|] eqn:Ev; cbn [bind] in H; [|discriminate].
  destruct (vh_cs v) as [csid|] eqn:Ecs.
  2:{ injection H as <- <- <-. exists EmptyString, EmptyString. repeat split; reflexivity. }
  destruct (get csid (sw_css w)) as [cs|] eqn:Ec; cbn [bind] in H; [|discriminate].
  destruct (get (cs_parent cs) (sw_gcs w)) as [g|] eqn:Eg; cbn [bind] in H; [|discriminate].
  destruct (cheap o g) as [ch|] eqn:Ech; cbn [bind] in H; [|discriminate].
  destruct (get (cs_parent cs) avail) as [av|] eqn:Eav; cbn [bind] in H; [|discriminate].
  destruct (vehicle_charge s o v cs _ av ch) as [[[b' avg] used]|] eqn:Evc; cbn [bind] in H; [|discriminate].
  destruct (add_load g csid avg) as [g' nv] eqn:Eal. injection H as <- <- <-.
  exists (cs_parent cs), csid. cbn [sw_gcs sw_css sw_veh sw_bats sw_order set_gc set_cs set_veh].
  repeat split; intros; try reflexivity.
  - apply lookup_assign_other; assumption.
  - destruct used; [apply lookup_assign_other; assumption|reflexivity].
  - apply lookup_assign_other; assumption.
  - apply lookup_assign_other; assumption.
  - apply lookup_assign_other; assumption.
Qed.
End Local.
