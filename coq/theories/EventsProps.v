(* EventsProps.v — theorems about the Events model (properties C07, C08). Scheduling facts are
   number-type independent (axiom-free); value facts are stated on the R instance. *)
From Coq Require Import ZArith QArith Qreals Reals List Bool String Lia Lra Sorted Permutation.
From SV Require Import Num RNum Kernel KernelProps Events.
Import ListNotations.
Open Scope Z_scope.

Ltac destruct_matches := repeat match goal with
  | |- context [match ?x with _ => _ end] => destruct x
  end.

Section Sched.
Context {T} {N: Num T}.
Notation ev := (@event_t T).

(* ---------- get_event_steps ---------- *)
(* the index is the ceiling of (signal - t0)/interval: first step at or after the signal time *)
Lemma event_index_ceil t0 delta (e:ev) : 0 < delta ->
  let i := event_index t0 delta e in (i - 1) * delta < e_signal e - t0 <= i * delta.
Proof.
  intros Hd. unfold event_index. cbv zeta.
  pose proof (Z.div_mod (t0 - e_signal e) delta ltac:(lia)) as H.
  pose proof (Z.mod_pos_bound (t0 - e_signal e) delta Hd) as Hm. nia.
Qed.

Definition delivered_at (t0 delta:Z) (n:nat) (e:ev) : option nat :=
  let idx := event_index t0 delta e in
  if idx <? 0 then (match n with O => None | _ => Some O end) else if Z.of_nat n <=? idx then None else Some (Z.to_nat idx).

Lemma bucket_spec t0 delta n (evs:list ev) i : (i < n)%nat ->
  bucket t0 delta n evs i = filter (fun e => match delivered_at t0 delta n e with Some j => Nat.eqb j i | None => false end) evs.
Proof.
  intros Hi. induction evs as [|e r IH]; cbn; [reflexivity|]. rewrite IH. unfold delivered_at.
  destruct (event_index t0 delta e <? 0) eqn:E1.
  - destruct n; [lia|]. rewrite Nat.eqb_sym. reflexivity.
  - destruct (Z.of_nat n <=? event_index t0 delta e) eqn:E2; [reflexivity|].
    apply Z.ltb_ge in E1. apply Z.leb_gt in E2.
    replace (Z.eqb (event_index t0 delta e) (Z.of_nat i)) with (Nat.eqb (Z.to_nat (event_index t0 delta e)) i); [reflexivity|].
    destruct (Nat.eqb_spec (Z.to_nat (event_index t0 delta e)) i) as [H|H]; symmetry; [apply Z.eqb_eq|apply Z.eqb_neq]; lia.
Qed.

(* an event is dropped iff it is signalled at or after the end of the horizon *)
Lemma ignored_iff_late t0 delta n (e:ev) : (0 < n)%nat ->
  (delivered_at t0 delta n e = None <-> Z.of_nat n <= event_index t0 delta e).
Proof.
  intros Hn. unfold delivered_at. destruct (event_index t0 delta e <? 0) eqn:E1.
  - apply Z.ltb_lt in E1. destruct n; [lia|]. split; [discriminate|lia].
  - apply Z.ltb_ge in E1. destruct (Z.of_nat n <=? event_index t0 delta e) eqn:E2.
    + apply Z.leb_le in E2. tauto.
    + apply Z.leb_gt in E2. split; [discriminate|lia].
Qed.
Lemma delivered_bound t0 delta n (e:ev) j : delivered_at t0 delta n e = Some j -> (j < n)%nat.
Proof.
  unfold delivered_at. destruct (event_index t0 delta e <? 0) eqn:E1.
  - destruct n; [discriminate|]. intros H; injection H as <-. lia.
  - destruct (Z.of_nat n <=? event_index t0 delta e) eqn:E2; [discriminate|]. apply Z.ltb_ge in E1. apply Z.leb_gt in E2.
    intros H; injection H as <-. lia.
Qed.

(* ---------- sorting the queue ---------- *)
Definition le_start (a b:ev) : Prop := e_start a <= e_start b.
Definition sortedS (l:list ev) : Prop := StronglySorted le_start l.
Lemma ins_ev_perm (e:ev) : forall l, Permutation (ins_ev e l) (e :: l).
Proof. induction l as [|x r IH]; cbn; [reflexivity|]. destruct (e_start x <? e_start e); [|reflexivity].
  rewrite IH. apply perm_swap. Qed.
Lemma sort_events_perm l : Permutation (@sort_events T l) l.
Proof. induction l as [|x r IH]; cbn; [reflexivity|]. rewrite ins_ev_perm. constructor. exact IH. Qed.
Lemma ins_ev_sorted (e:ev) : forall l, sortedS l -> sortedS (ins_ev e l).
Proof.
  induction l as [|x r IH]; intros H; cbn; [repeat constructor|].
  destruct (e_start x <? e_start e) eqn:E.
  - apply Z.ltb_lt in E. apply StronglySorted_inv in H. destruct H as [H1 H2]. constructor; [apply IH, H1|].
    rewrite Forall_forall in *. intros y Hy. apply (Permutation_in _ (ins_ev_perm e r)) in Hy.
    destruct Hy as [<-|Hy]; [unfold le_start; lia | apply H2, Hy].
  - apply Z.ltb_ge in E. constructor; [exact H|]. apply StronglySorted_inv in H. destruct H as [_ H].
    constructor; [unfold le_start; lia|]. rewrite Forall_forall in *. intros y Hy. specialize (H y Hy). unfold le_start in *. lia.
Qed.
Lemma sort_events_sorted l : sortedS (@sort_events T l).
Proof. induction l as [|x r IH]; cbn; [constructor|]. apply ins_ev_sorted, IH. Qed.
(* ---------- the queue loop ---------- *)
(* apply events one after the other, stop at the first error (no time test) *)
Fixpoint apply_all (o:@options T) (w:@world T) (evs rest:list ev) : @world T * option err := match evs with
  | [] => (set_future w rest, None)
  | e :: r => match apply_event o (set_future w (r ++ rest)) e with
      | (w', None) => apply_all o w' r rest
      | (w', Some x) => (set_future w' (r ++ rest), Some x) end end.

Lemma apply_event_time o w (e:ev) : w_time (fst (apply_event o w e)) = w_time w.
Proof. unfold apply_event, upd_gc. cbv zeta. destruct_matches; reflexivity. Qed.

(* the loop applies exactly the events that have started, in queue order, and leaves the rest queued *)
Lemma apply_due_split o : forall (evs:list ev) w, sortedS evs ->
  exists due later, evs = due ++ later /\ Forall (fun e => e_start e <= w_time w) due /\
    Forall (fun e => w_time w < e_start e) later /\ apply_due o w evs = apply_all o w due later.
Proof.
  induction evs as [|e r IH]; intros w Hs.
  - exists [], []. repeat split; constructor.
  - cbn [apply_due]. destruct (e_start e <=? w_time w) eqn:E.
    + apply Z.leb_le in E. apply StronglySorted_inv in Hs. destruct Hs as [Hs1 Hs2].
      destruct (apply_event o (set_future w r) e) as [w' [x|]] eqn:A.
      * (* error: the rest stays queued *)
        destruct (IH w Hs1) as (due & later & H1 & H2 & H3 & _).
        exists (e :: due), later. repeat split; [cbn; congruence | constructor; assumption | assumption |].
        cbn [apply_all]. rewrite <- H1. rewrite A. reflexivity.
      * assert (Ht : w_time w' = w_time w).
        { pose proof (apply_event_time o (set_future w r) e) as Hq. rewrite A in Hq. exact Hq. }
        destruct (IH w' Hs1) as (due & later & H1 & H2 & H3 & H4). rewrite Ht in *.
        exists (e :: due), later. repeat split; [cbn; congruence | constructor; assumption | assumption |].
        cbn [apply_all]. rewrite <- H1. rewrite A. exact H4.
    + apply Z.leb_gt in E. exists [], (e :: r). split; [reflexivity|]. split; [constructor|]. split; [|reflexivity].
      apply StronglySorted_inv in Hs. destruct Hs as [_ Hs]. constructor; [lia|].
      rewrite Forall_forall in *. intros y Hy. specialize (Hs y Hy). unfold le_start in Hs. lia.
Qed.

Lemma apply_all_future o : forall (due:list ev) w rest w', apply_all o w due rest = (w', None) -> w_future w' = rest.
Proof.
  induction due as [|e r IH]; intros w rest w' H; cbn in H.
  - injection H as <-. reflexivity.
  - destruct (apply_event o (set_future w (r ++ rest)) e) as [w1 [x|]]; [discriminate|]. apply (IH w1 rest w' H).
Qed.

Lemma apply_all_time o : forall (due:list ev) w rest w', apply_all o w due rest = (w', None) -> w_time w' = w_time w.
Proof.
  induction due as [|e r IH]; intros w rest w' H; cbn in H.
  - injection H as <-. reflexivity.
  - destruct (apply_event o (set_future w (r ++ rest)) e) as [w1 [x|]] eqn:B; [discriminate|].
    rewrite (IH w1 rest w' H). pose proof (apply_event_time o (set_future w (r ++ rest)) e) as Hq. rewrite B in Hq. exact Hq.
Qed.

(* after a successful pre-step the queue holds exactly the not-yet-started events, sorted *)
Lemma finish_future (w w':@world T) e : finish w = (w', e) -> w_future w' = w_future w /\ w_time w' = w_time w.
Proof. unfold finish. match goal with |- context [let '(a,b) := ?X in _] => destruct X end. intros H; injection H as <- _. auto. Qed.

Lemma pre_step_queue o w (evs:list ev) w' : pre_step o w evs = (w', None) ->
  w_time w' = w_time w + o_interval o /\
  sortedS (w_future w') /\
  Forall (fun e => w_time w' < e_start e) (w_future w') /\
  exists due, Permutation (w_future w ++ evs) (due ++ w_future w') /\ Forall (fun e => e_start e <= w_time w') due /\ sortedS due.
Proof.
  unfold pre_step. intros H.
  set (w1 := {| w_time := w_time w + o_interval o; w_gcs := w_gcs w; w_veh := w_veh w; w_cs := w_cs w; w_bat := w_bat w;
               w_future := w_future w; w_desired_cnt := w_desired_cnt w; w_margin_cnt := w_margin_cnt w; w_tracker := w_tracker w |}) in *.
  pose proof (sort_events_sorted (w_future w1 ++ evs)) as Hs.
  destruct (apply_due_split o _ w1 Hs) as (due & later & H1 & H2 & H3 & H4).
  rewrite H4 in H. destruct (apply_all o w1 due later) as [w2 [x|]] eqn:A; [discriminate|].
  pose proof (apply_all_future o due w1 later w2 A) as Hf.
  pose proof (apply_all_time o due w1 later w2 A) as Ht2.
  destruct (finish_future w2 w' None H) as (Hq & Ht). rewrite Hq, Hf, Ht, Ht2. cbn [w_time w1].
  assert (Hsd : sortedS due /\ sortedS later).
  { rewrite H1 in Hs. clear - Hs. induction due as [|a d IH]; cbn in *; [split; [constructor|exact Hs]|].
    apply StronglySorted_inv in Hs. destruct Hs as [Hs1 Hs2]. destruct (IH Hs1) as [I1 I2]. split; [|exact I2].
    constructor; [exact I1|]. rewrite Forall_forall in *. intros y Hy. apply Hs2. apply in_app_iff. left; exact Hy. }
  split; [reflexivity|]. split; [apply Hsd|]. split; [exact H3|].
  exists due. split; [|split; [exact H2|apply Hsd]].
  rewrite <- H1. symmetry. apply sort_events_perm.
Qed.
End Sched.

(* ---------- dictionaries ---------- *)
Lemma lookup_assign_same {A} k (v:A) l : lookup k (assign k v l) = Some v.
Proof. induction l as [|[k' v'] r IH]; cbn; [rewrite String.eqb_refl; reflexivity|].
  destruct (String.eqb k k') eqn:E; cbn; rewrite E; [reflexivity|exact IH]. Qed.
Lemma lookup_assign_other {A} k k' (v:A) l : k' <> k -> lookup k' (assign k v l) = lookup k' l.
Proof. intros Hne. induction l as [|[k2 v2] r IH]; cbn.
  - destruct (String.eqb k' k) eqn:E; [apply String.eqb_eq in E; congruence|reflexivity].
  - destruct (String.eqb k k2) eqn:E; cbn.
    + apply String.eqb_eq in E. subst k2. destruct (String.eqb k' k) eqn:E2; [apply String.eqb_eq in E2; congruence|reflexivity].
    + destruct (String.eqb k' k2); [reflexivity|exact IH]. Qed.

(* ---------- value facts on R ---------- *)
Open Scope R_scope.
Notation Rapply := (@apply_event R RNum).
Notation Rworld := (@world R).
Notation Rveh := (@vehicle R).

(* C08: unknown vehicles are skipped *)
Lemma unknown_vehicle_skipped o (w:Rworld) ev vid et u : e_kind ev = EVeh vid et u -> lookup vid (w_veh w) = None ->
  Rapply o w ev = (w, None).
Proof. intros Hk Hl. unfold apply_event. rewrite Hk, Hl. reflexivity. Qed.

(* C08: events of other kinds / other vehicles never touch a vehicle *)
Lemma other_events_keep_vehicle o (w:Rworld) ev vid :
  (forall et u, e_kind ev <> EVeh vid et u) -> lookup vid (w_veh (fst (Rapply o w ev))) = lookup vid (w_veh w).
Proof.
  intros Hne. unfold apply_event, upd_gc. destruct (e_kind ev) as [gc name v|gc name v|gc mp c t wd|vid' et u] eqn:K.
  - destruct (lookup gc (w_gcs w)); [|reflexivity]. destruct (mem name (w_cs w)); reflexivity.
  - destruct (mem name (w_cs w)); [reflexivity|]. destruct (lookup gc (w_gcs w)); reflexivity.
  - destruct (lookup gc (w_gcs w)); reflexivity.
  - assert (vid <> vid') by (intros ->; apply (Hne et u); reflexivity).
    destruct (lookup vid' (w_veh w)) as [v0|]; [|reflexivity]. cbv zeta.
    destruct et; destruct_matches; cbn [fst w_veh]; apply lookup_assign_other; assumption.
Qed.

Record arrival_result (o:@options R) (v0:Rveh) (u:@update R) (d:R) (v':Rveh) : Prop := {
  ar_cs : v_cs v' = match u_cs u with Some x => x | None => v_cs v0 end;
  ar_etd : v_etd v' = match u_etd u with Some x => x | None => v_etd v0 end;
  ar_desired : v_desired v' = match u_desired u with Some x => x | None => v_desired v0 end }.

(* C08: an arrival lowers the SoC by exactly the trip consumption once, connects the vehicle with the
   announced departure time and desired SoC, and clears the consumption; the negative-SoC policy *)
Lemma arrival_effect o (w:Rworld) ev vid u v0 d : e_kind ev = EVeh vid VArrival u ->
  lookup vid (w_veh w) = Some v0 -> v_delta (apply_update v0 u) = Some d ->
  let s := v_soc v0 + d in
  exists w' res v', Rapply o w ev = (w', res) /\ lookup vid (w_veh w') = Some v' /\ arrival_result o v0 u d v' /\
    w_desired_cnt w' = w_desired_cnt w /\ w_margin_cnt w' = w_margin_cnt w /\ w_gcs w' = w_gcs w /\
    (0 <= s + o_eps o -> res = None /\ v_soc v' = s /\ v_delta v' = None /\ w_tracker w' = w_tracker w) /\
    (s + o_eps o < 0 -> w_tracker w' = track vid (w_time w) (w_tracker w) /\
        (o_allow_neg o = false -> res = Some RuntimeErr /\ v_soc v' = s) /\
        (o_allow_neg o = true -> res = None /\ v_delta v' = None /\ v_soc v' = if o_reset_neg o then 0 else s)).
Proof.
  intros Hk Hl Hd s. unfold apply_event. rewrite Hk, Hl. cbv zeta. rewrite Hd.
  cbn [nltb nadd RNum with_soc v_soc]. rewrite zero_0.
  assert (Hsoc : v_soc (apply_update v0 u) = v_soc v0) by reflexivity. rewrite Hsoc. fold s.
  destruct (Rltb (s + o_eps o) 0) eqn:E; [apply Rltb_t in E|apply Rltb_f in E].
  - destruct (o_allow_neg o) eqn:A.
    + destruct (o_reset_neg o) eqn:Rs.
      all: eexists _, _, _; split; [reflexivity|]; split; [apply lookup_assign_same|]; split; [constructor; reflexivity|].
      all: repeat split; intros; try reflexivity; try lra; try discriminate.
    + eexists _, _, _. split; [reflexivity|]. split; [apply lookup_assign_same|]. split; [constructor; reflexivity|].
      repeat split; intros; try reflexivity; try lra; try discriminate.
  - eexists _, _, _. split; [reflexivity|]. split; [apply lookup_assign_same|]. split; [constructor; reflexivity|].
    repeat split; intros; try reflexivity; try lra.
Qed.

(* C08: a departure disconnects the vehicle and clears the announced departure; the SoC changes only
   for an event dated more than one step in the past; the counters count exactly the departures of
   connected vehicles below the desired SoC (with and without margin) *)
Lemma departure_effect o (w:Rworld) ev vid u v0 : e_kind ev = EVeh vid VDeparture u ->
  lookup vid (w_veh w) = Some v0 ->
  let v1 := apply_update v0 u in
  let past := (e_start ev <? w_time w - o_interval o)%Z in
  let soc := if past then v_desired v1 else v_soc v0 in
  let connected := match v_cs v0 with Some _ => true | None => false end in
  exists w' v', Rapply o w ev = (w', None) /\ lookup vid (w_veh w') = Some v' /\
    v_cs v' = None /\ v_etd v' = None /\ v_soc v' = soc /\ w_tracker w' = w_tracker w /\ w_gcs w' = w_gcs w /\
    w_desired_cnt w' = (if connected && Rltb soc (v_desired v1 - o_eps o) then S (w_desired_cnt w) else w_desired_cnt w) /\
    w_margin_cnt w' = (if connected && Rleb 0 soc && Rltb soc ((1 - o_margin o) * v_desired v1 - o_eps o)
                       then S (w_margin_cnt w) else w_margin_cnt w).
Proof.
  intros Hk Hl v1 past soc connected. unfold apply_event. rewrite Hk, Hl. cbv zeta. fold v1. fold past.
  eexists _, _. split; [reflexivity|]. split; [apply lookup_assign_same|].
  cbn [v_cs v_etd v_soc w_tracker w_gcs w_desired_cnt w_margin_cnt].
  unfold soc, connected. destruct past; cbn [with_soc v_soc v_desired nltb nleb nsub nmul RNum]; rewrite ?zero_0, ?one_1;
    repeat split; reflexivity.
Qed.

(* C04/C07: processing any event never lifts the current limit of a connector above its rating *)
Definition limits_ok (w:Rworld) : Prop :=
  forall k g, lookup k (w_gcs w) = Some g -> g_maxp g <> 0 -> match g_cur g with Some c => c <= g_maxp g | None => True end.
Lemma limit_preserved o (w:Rworld) ev : limits_ok w -> limits_ok (fst (Rapply o w ev)).
Proof.
  intros H. unfold apply_event, upd_gc. destruct (e_kind ev) as [gc name v|gc name v|gc mp c t wd|vid et u].
  - destruct (lookup gc (w_gcs w)) as [g|] eqn:L; [|exact H]. destruct (mem name (w_cs w)); [exact H|].
    intros k g' Hl Hr. cbn [fst w_gcs] in Hl. destruct (String.eqb k gc) eqn:E.
    + apply String.eqb_eq in E. subst k. rewrite lookup_assign_same in Hl. injection Hl as <-. cbn. apply (H gc g L Hr).
    + apply String.eqb_neq in E. rewrite lookup_assign_other in Hl by exact E. apply (H k g' Hl Hr).
  - destruct (mem name (w_cs w)); [exact H|]. destruct (lookup gc (w_gcs w)) as [g|] eqn:L; [|exact H].
    intros k g' Hl Hr. cbn [fst w_gcs] in Hl. destruct (String.eqb k gc) eqn:E.
    + apply String.eqb_eq in E. subst k. rewrite lookup_assign_same in Hl. injection Hl as <-. cbn. apply (H gc g L Hr).
    + apply String.eqb_neq in E. rewrite lookup_assign_other in Hl by exact E. apply (H k g' Hl Hr).
  - destruct (lookup gc (w_gcs w)) as [g|] eqn:L; [|exact H].
    intros k g' Hl Hr. cbn [fst w_gcs] in Hl. destruct (String.eqb k gc) eqn:E.
    + apply String.eqb_eq in E. subst k. rewrite lookup_assign_same in Hl. injection Hl as <-. cbn [g_cur g_maxp] in *.
      pose proof (apply_limit_le_rating (g_maxp g) (g_cur g) mp Hr (H gc g L Hr)) as Q.
      destruct (apply_limit (g_maxp g) (g_cur g) mp); [exact Q|exact I].
    + apply String.eqb_neq in E. rewrite lookup_assign_other in Hl by exact E. apply (H k g' Hl Hr).
  - destruct (lookup vid (w_veh w)) as [v0|]; [|exact H]. cbv zeta.
    destruct et; destruct_matches; exact H.
Qed.

(* C07: a series yields factor*value at start + i*step and a final zero after its last value *)
Lemma series_nth mk gc name (step:Z) foresight (factor:R) start0 : forall (vals:list R) start i v,
  nth_error vals i = Some v ->
  exists e, nth_error (@series_events R RNum mk gc name start step foresight factor start0 vals) i = Some e /\
    e_start e = (start + Z.of_nat i * step)%Z /\ e_kind e = mk gc name (v * factor).
Proof.
  induction vals as [|x r IH]; intros start i v H; [destruct i; discriminate|].
  destruct i as [|i]; cbn in H.
  - injection H as <-. eexists. split; [reflexivity|]. cbn. split; [lia|reflexivity].
  - destruct (IH (start + step)%Z i v H) as (e & H1 & H2 & H3). exists e. split; [exact H1|]. split; [|exact H3]. rewrite H2. lia.
Qed.
Lemma series_tail_zero mk gc name (step:Z) foresight (factor:R) start0 : forall (vals:list R) start,
  exists e, nth_error (@series_events R RNum mk gc name start step foresight factor start0 vals) (List.length vals) = Some e /\
    e_start e = (start + Z.of_nat (List.length vals) * step)%Z /\ e_kind e = mk gc name 0.
Proof.
  induction vals as [|x r IH]; intros start.
  - eexists. split; [reflexivity|]. cbn [e_start e_kind List.length nth_error]. split; [lia|]. f_equal. cbn [nmul RNum]. rewrite zero_0. lra.
  - destruct (IH (start + step)%Z) as (e & H1 & H2 & H3). exists e. split; [exact H1|]. split; [|exact H3].
    rewrite H2. cbn [List.length]. lia.
Qed.
