(* Strat.v — model of the rule-like strategies' step functions: Greedy.step, Balanced.step
   (strategies/greedy.py, balanced.py) with Strategy.distribute_surplus_power and
   Strategy.update_batteries (strategy.py).  Generic in Num; batteries are the Battery model.
   Dictionaries are insertion-ordered association lists; [sw_order] is sorted(vehicles). *)
From Coq Require Import ZArith QArith List Bool String Lia.
From SV Require Import Num Curve Battery Kernel.
Import ListNotations.

Section Model.
Context {T} {N: Num T}.
Local Infix "+" := nadd. Local Infix "-" := nsub. Local Infix "*" := nmul.
Local Infix "<=?" := nleb. Local Infix "<?" := nltb.

Record cstation := { cs_maxp : T; cs_minp : T; cs_cur : T; cs_parent : string }.
Record veh := { vh_cs : option string; vh_bat : @bat T; vh_desired : T; vh_etd : option Z;
                vh_minp : T; vh_v2g : bool; vh_dlimit : T }.
Record sbat := { sb_bat : @bat T; sb_parent : string; sb_minp : T }.
Record gcon := { gc_cur : T; gc_loads : list (string * T); gc_cost : @cost T }.
Record sworld := { sw_gcs : list (string * gcon); sw_css : list (string * cstation);
                   sw_veh : list (string * veh); sw_order : list string; sw_bats : list (string * sbat) }.
Record sopts := { so_eps : T; so_thresh : T; so_tsph : T; so_hours : T; so_now : Z; so_interval : Z }.

Fixpoint lookup {A} (k:string) (l:list (string*A)) : option A := match l with
  | [] => None | (k',v)::r => if String.eqb k k' then Some v else lookup k r end.
Fixpoint assign {A} (k:string) (v:A) (l:list (string*A)) : list (string*A) := match l with
  | [] => [(k,v)] | (k',v')::r => if String.eqb k k' then (k',v)::r else (k',v') :: assign k v r end.
Definition get {A} (k:string) (l:list (string*A)) : res A := match lookup k l with Some v => Ok v | None => Err KeyErr end.

(* GridConnector.get_current_load / add_load *)
Definition current_load (g:gcon) : T := fold_left (fun a kv => a + snd kv) (gc_loads g) zero.
Definition add_load (g:gcon) (k:string) (v:T) : gcon * T :=
  let nv := match lookup k (gc_loads g) with Some old => old + v | None => v end in
  ({| gc_cur := gc_cur g; gc_loads := assign k nv (gc_loads g); gc_cost := gc_cost g |}, nv).

Definition set_gc (w:sworld) (k:string) (g:gcon) : sworld :=
  {| sw_gcs := assign k g (sw_gcs w); sw_css := sw_css w; sw_veh := sw_veh w; sw_order := sw_order w; sw_bats := sw_bats w |}.
Definition set_cs (w:sworld) (k:string) (c:cstation) : sworld :=
  {| sw_gcs := sw_gcs w; sw_css := assign k c (sw_css w); sw_veh := sw_veh w; sw_order := sw_order w; sw_bats := sw_bats w |}.
Definition set_veh (w:sworld) (k:string) (v:veh) : sworld :=
  {| sw_gcs := sw_gcs w; sw_css := sw_css w; sw_veh := assign k v (sw_veh w); sw_order := sw_order w; sw_bats := sw_bats w |}.
Definition set_sbat (w:sworld) (k:string) (b:sbat) : sworld :=
  {| sw_gcs := sw_gcs w; sw_css := sw_css w; sw_veh := sw_veh w; sw_order := sw_order w; sw_bats := assign k b (sw_bats w) |}.
Definition with_bat (v:veh) (b:@bat T) : veh :=
  {| vh_cs := vh_cs v; vh_bat := b; vh_desired := vh_desired v; vh_etd := vh_etd v; vh_minp := vh_minp v; vh_v2g := vh_v2g v; vh_dlimit := vh_dlimit v |}.
Definition with_cur (c:cstation) (x:T) : cstation := {| cs_maxp := cs_maxp c; cs_minp := cs_minp c; cs_cur := x; cs_parent := cs_parent c |}.

(* avail_bat_power[gcID] = sum of get_available_power over the connector's batteries *)
Definition avail_bat_power (o:sopts) (w:sworld) (gcid:string) : res T :=
  fold_left (fun acc kb => let! a := acc in
               if String.eqb (sb_parent (snd kb)) gcid
               then let! (_, p) := available_power (sb_bat (snd kb)) (so_hours o) in Ok (a + p) else Ok a)
            (sw_bats w) (Ok zero).
Definition avail_map (o:sopts) (w:sworld) : res (list (string*T)) :=
  fold_left (fun acc kg => let! l := acc in let! p := avail_bat_power o w (fst kg) in Ok (l ++ [(fst kg, p)])) (sw_gcs w) (Ok []).

Definition cheap (o:sopts) (g:gcon) : res bool := let! c := get_cost one (gc_cost g) in Ok (c <=? so_thresh o).

(* the shared head of the per-vehicle loop body *)
Inductive strat := SGreedy | SBalanced.

(* the strategy-specific part of the per-vehicle loop body: the battery after this step, the average power drawn,
   and whether supporting stationary-battery power was counted *)
Definition vehicle_charge (s:strat) (o:sopts) (v:veh) (cs:cstation) (left av:T) (ch:bool) : res (@bat T * T * bool) :=
  let delta := vh_desired v - soc (vh_bat v) in
  let clampv (p:T) := clamp_power p (cs_cur cs) (cs_maxp cs) (cs_minp cs) (vh_minp v) in
  match s with
  | SGreedy =>
     if ch then let! (b', a, _) := load (vh_bat v) (so_hours o) (Some (clampv left)) TNone in Ok (b', a, false)
     else if so_eps o <? delta then
       let! en := ndiv (delta * cap (vh_bat v)) (eff (vh_bat v)) in
       let pn := en * so_tsph o in
       let p := clampv (nmin pn (left + av)) in
       let! (b', a, _) := load (vh_bat v) (so_hours o) None (TPower p) in Ok (b', a, true)
     else Ok (vh_bat v, zero, false)
  | SBalanced =>
     let! (p, used) :=
       (if ch then Ok (clampv left, false)
        else if so_eps o <? delta then
          match vh_etd v with None => Err TypeErr | Some etd =>
            let dt := (etd - so_now o)%Z in
            let steps := (- (dt / - so_interval o))%Z in
            let! en := ndiv (delta * cap (vh_bat v)) (eff (vh_bat v)) in
            if (0 <? steps)%Z then
              let! q := ndiv (en * so_tsph o) (nofQ (inject_Z steps)) in
              Ok (clampv (nmin q left), true)
            else Ok (clampv left, true) end
        else Ok (zero, false)) in
     let! (b', a, _) := load (vh_bat v) (so_hours o) None (TPower p) in Ok (b', a, used)
  end.

Definition vehicle_step (s:strat) (o:sopts) (st:sworld * list (string*T) * list (string*T)) (vid:string)
  : res (sworld * list (string*T) * list (string*T)) :=
  let '(w, cmds, avail) := st in
  let! v := get vid (sw_veh w) in
  match vh_cs v with None => Ok st | Some csid =>
  let! cs := get csid (sw_css w) in
  let gcid := cs_parent cs in
  let! g := get gcid (sw_gcs w) in
  let left := gc_cur g - current_load g in
  let! ch := cheap o g in
  let! av := get gcid avail in
  let! (b', avg, used) := vehicle_charge s o v cs left av ch in
  let '(g', nv) := add_load g csid avg in
  let w1 := set_gc (set_veh w vid (with_bat v b')) gcid g' in
  let w2 := set_cs w1 csid (with_cur cs (cs_cur cs + avg)) in
  let avail' := if used then assign gcid (nmax (av - avg) zero) avail else avail in
  Ok (w2, assign csid nv cmds, avail') end.

(* Strategy.distribute_surplus_power: vehicles in dictionary order *)
Definition surplus_step (o:sopts) (cheapmap:list (string*bool)) (st:sworld * list (string*T)) (kv:string*veh)
  : res (sworld * list (string*T)) :=
  let '(w, cmds) := st in
  let vid := fst kv in
  let! v := get vid (sw_veh w) in
  match vh_cs v with None => Ok st | Some csid =>
  let! cs := get csid (sw_css w) in
  let gcid := cs_parent cs in
  let! g := get gcid (sw_gcs w) in
  let surplus := nneg (current_load g) in
  if so_eps o <? surplus then
    let p := clamp_power surplus (cs_cur cs) (cs_maxp cs) (cs_minp cs) (vh_minp v) in
    let! (b', avg, _) := load (vh_bat v) (so_hours o) (Some p) TNone in
    let '(g', nv) := add_load g csid avg in
    Ok (set_cs (set_gc (set_veh w vid (with_bat v b')) gcid g') csid (with_cur cs (cs_cur cs + avg)), assign csid nv cmds)
  else
    let! ch := get gcid cheapmap in
    let cur := match lookup csid (gc_loads g) with Some x => x | None => zero end in
    if (surplus <? nneg (so_eps o)) && (vh_desired v - soc (vh_bat v) <? nneg (so_eps o)) && vh_v2g v
       && (cur <? so_eps o) && negb ch then
      let dp := nmin (nmin (nneg surplus) (maxp (uc (vh_bat v)))) (nmax (cs_maxp cs + cs_cur cs) zero) in
      let tgt := nmax (vh_desired v) (vh_dlimit v) in
      let! (b', avg, _) := unload (vh_bat v) (so_hours o) (Some dp) (TSoc tgt) in
      let '(g', nv) := add_load g csid (nneg avg) in
      Ok (set_cs (set_gc (set_veh w vid (with_bat v b')) gcid g') csid (with_cur cs (cs_cur cs - avg)), assign csid nv cmds)
    else Ok st end.
Definition cheap_map (o:sopts) (w:sworld) : res (list (string*bool)) :=
  fold_left (fun acc kg => let! l := acc in let! c := cheap o (snd kg) in Ok (l ++ [(fst kg, c)])) (sw_gcs w) (Ok []).
Definition distribute_surplus (o:sopts) (w:sworld) : res (sworld * list (string*T)) :=
  let! cm := cheap_map o w in
  fold_left (fun acc kv => let! st := acc in surplus_step o cm st kv) (sw_veh w) (Ok (w, [])).

(* Strategy.update_batteries *)
Definition battery_step (o:sopts) (cheapmap:list (string*bool)) (w:sworld) (kb:string*sbat) : res sworld :=
  let bid := fst kb in
  let! sb := get bid (sw_bats w) in
  match lookup (sb_parent sb) (sw_gcs w) with None => Ok w | Some g =>
  let gcid := sb_parent sb in
  let cl := current_load g in
  let! ch := get gcid cheapmap in
  if ch then
    let p0 := gc_cur g - cl in
    let p := if p0 <? sb_minp sb then zero else p0 in
    let! (b', avg, _) := load (sb_bat sb) (so_hours o) (Some p) TNone in
    let '(g', _) := add_load g bid avg in
    Ok (set_gc (set_sbat w bid {| sb_bat := b'; sb_parent := gcid; sb_minp := sb_minp sb |}) gcid g')
  else if cl <? zero then
    let p0 := nneg cl in
    let p := if p0 <? sb_minp sb then zero else p0 in
    let! (b', avg, _) := load (sb_bat sb) (so_hours o) None (TPower p) in
    let '(g', _) := add_load g bid avg in
    Ok (set_gc (set_sbat w bid {| sb_bat := b'; sb_parent := gcid; sb_minp := sb_minp sb |}) gcid g')
  else
    let! (b', avg, _) := unload (sb_bat sb) (so_hours o) None (TPower cl) in
    let '(g', _) := add_load g bid (nneg avg) in
    Ok (set_gc (set_sbat w bid {| sb_bat := b'; sb_parent := gcid; sb_minp := sb_minp sb |}) gcid g') end.
Definition update_batteries (o:sopts) (w:sworld) : res sworld :=
  let! cm := cheap_map o w in
  fold_left (fun acc kb => let! w' := acc in battery_step o cm w' kb) (sw_bats w) (Ok w).

Fixpoint merge (a b:list (string*T)) : list (string*T) := match b with [] => a | (k,v)::r => merge (assign k v a) r end.  (* dict.update *)

Definition strategy_step (s:strat) (o:sopts) (w:sworld) : res (sworld * list (string*T)) :=
  let! avail := avail_map o w in
  let w0 := {| sw_gcs := sw_gcs w; sw_css := map (fun kc => (fst kc, with_cur (snd kc) zero)) (sw_css w);
               sw_veh := sw_veh w; sw_order := sw_order w; sw_bats := sw_bats w |} in
  let! (w1, cmds, _) := fold_left (fun acc vid => let! st := acc in vehicle_step s o st vid) (sw_order w0) (Ok (w0, [], avail)) in
  let! (w2, cmds2) := distribute_surplus o w1 in
  let! w3 := update_batteries o w2 in
  Ok (w3, merge cmds cmds2).
End Model.
