(* Num.v — error monad and the generic number class; executable instance on Q
   (with an oracle table for exp/ln), proof instance on R. *)
From Coq Require Import ZArith QArith Qminmax List Bool Lia.
Import ListNotations.

Inductive err := AssertFail (k:nat) | ZeroDiv | ValueErr | OracleMiss | IndexErr | OutOfFuel | Overflow
               | RuntimeErr | KeyErr | TypeErr | GenericErr.
Inductive res (A:Type) := Ok (a:A) | Err (e:err).
Arguments Ok {A} a. Arguments Err {A} e.
Definition bind {A B} (r:res A) (f:A->res B) : res B := match r with Ok a => f a | Err e => Err e end.
Notation "'let!' x ':=' r 'in' b" := (bind r (fun x => b)) (at level 200, x pattern, r at level 100, b at level 200).

Class Num (T:Type) := {
  nofQ : Q -> T; nadd : T->T->T; nsub : T->T->T; nmul : T->T->T; ndiv : T->T->res T;
  nleb : T->T->bool; nltb : T->T->bool; neqb : T->T->bool;
  nexp : T -> res T; nln : T -> res T }.

Section Generic.
Context {T} {N: Num T}.
Definition zero : T := nofQ 0.
Definition one : T := nofQ 1.
Definition nneg (x:T) : T := nsub zero x.
Definition nabs (x:T) : T := if nltb x zero then nneg x else x.
(* Python min(a,b) = b if b < a else a ; max(a,b) = b if b > a else a *)
Definition nmin (a b:T) : T := if nltb b a then b else a.
Definition nmax (a b:T) : T := if nltb a b then b else a.
End Generic.

(* ---------- executable instance: Q, reduced after every operation ---------- *)
Definition qdiv (a b:Q) : res Q := if Qeq_bool b 0 then Err ZeroDiv else Ok (Qred (a / b)).
(* oracle table recorded from the implementation run: (kind, argument, result)
   kind 0: exp ok   1: log ok   2: exp raised OverflowError   3: log raised ValueError on a
   positive argument (float underflow)   4: log raised OverflowError (argument too large for a float) *)
Definition oracle := list (nat*Q*Q).
Fixpoint lookup (isexp:bool) (x:Q) (tbl:oracle) : res Q := match tbl with
  | [] => Err OracleMiss
  | (k,a,r)::tl =>
      if Qeq_bool a x then
        match k, isexp with
        | 0%nat, true => Ok r | 2%nat, true => Err Overflow
        | 1%nat, false => Ok r | 3%nat, false => Err ValueErr | 4%nat, false => Err Overflow
        | _, _ => lookup isexp x tl end
      else lookup isexp x tl end.
Definition QNum (tbl:oracle) : Num Q := {|
  nofQ := fun q => q; nadd := fun a b => Qred (a+b); nsub := fun a b => Qred (a-b); nmul := fun a b => Qred (a*b);
  ndiv := qdiv; nleb := Qle_bool; nltb := fun a b => negb (Qle_bool b a); neqb := Qeq_bool;
  nexp := fun x => lookup true x tbl;
  nln := fun x => if Qle_bool x 0 then Err ValueErr else lookup false x tbl |}.
Definition QNum0 : Num Q := QNum [].
