(* AssignRun.v — executable comparison of the Assign model with recorded implementation results. *)
From Coq Require Import ZArith List Bool String Lia.
From SV Require Import Assign.
Import ListNotations.
Open Scope Z_scope.

Record acase := { ac_types : list (string * Z); ac_trips : list (Z * Z * string); ac_exp : option (list string) }.
Fixpoint standing (ts:list (string*Z)) (t:string) : Z := match ts with
  | [] => 0 | (k,v)::r => if String.eqb t k then v else standing r t end.
Definition mk_trip (x:Z*Z*string) : trip := let '(d,a,t) := x in {| dep := d; arr := a; ty := t |}.
Definition run_acase (c:acase) : option (list string) :=
  match assign (standing (ac_types c)) (map fst (ac_types c)) (map mk_trip (ac_trips c)) with
  | Some vs => Some (map render vs) | None => None end.
Definition run_acase_orig (c:acase) : option (list string) :=
  match assign_orig (standing (ac_types c)) (map fst (ac_types c)) (map mk_trip (ac_trips c)) with
  | Some vs => Some (map render vs) | None => None end.
Fixpoint eql (a b:list string) : bool := match a,b with [],[] => true | x::r,y::s => String.eqb x y && eql r s | _,_ => false end.
Definition same (a b:option (list string)) := match a,b with Some x, Some y => eql x y | None,None => true | _,_ => false end.
Fixpoint failing (i:nat) (cs:list acase) : list nat := match cs with [] => []
  | c::r => if same (run_acase c) (ac_exp c) then failing (S i) r else i :: failing (S i) r end.
(* tag: 0 = every trip got a fresh vehicle, 1 = some vehicle reused, 2 = error *)
Fixpoint has_dup (l:list string) : bool := match l with [] => false
  | x::r => existsb (String.eqb x) r || has_dup r end.
Definition tag (c:acase) : nat := match run_acase c with None => 2%nat | Some l => if has_dup l then 1%nat else 0%nat end.
