(* SchedCsvProps.v — theorems about reading a schedule back (property C13). Axiom-free. *)
From Coq Require Import ZArith QArith List Bool Lia.
From SV Require Import SchedCsv.
Import ListNotations.
Open Scope Z_scope.

(* no generated signal takes effect before it is sent *)
Definition ev_ok (e:sev) : Prop := match e with SGc st sg _ _ => sg <= st | SVeh st sg _ _ => sg <= st end.

Lemma veh_events_times st sg : forall vals i last, Forall (fun e => match e with SVeh s g _ _ => s = st /\ g = sg | _ => False end)
  (fst (veh_events st sg i vals last)).
Proof.
  induction vals as [|v vs IH]; intros i last; cbn; [constructor|]. destruct last as [|l ls]; [constructor|].
  specialize (IH (S i) ls). destruct (veh_events st sg (S i) vs ls) as [evs ls']. cbn in *.
  unfold eqoq. destruct (match l with Some y => Qeq_bool v y | None => false end); cbn; [exact IH|constructor; [auto|exact IH]].
Qed.

(* with the repaired reader every event — connector and vehicle — carries signal <= start *)
Lemma rows_events_signal start0 : forall rows lt lw lv evs,
  Forall (fun r => Z.max start0 (r_sigcand r) <= r_start r) rows ->
  rows_events start0 rows lt lw lv = Some evs -> Forall ev_ok evs.
Proof.
  induction rows as [|r rest IH]; intros lt lw lv evs HF H; cbn in H.
  - injection H as <-. constructor.
  - inversion HF as [|? ? Hr HF']; subst.
    pose proof (veh_events_times (r_start r) (Z.max start0 (r_sigcand r)) (r_veh r) 0%nat lv) as HV.
    destruct (veh_events (r_start r) (Z.max start0 (r_sigcand r)) 0 (r_veh r) lv) as [vevs lv'] eqn:EV. cbn in HV.
    destruct (_ && (r_start r <? _)) eqn:E; [discriminate|].
    destruct (rows_events start0 rest _ _ lv') as [tl|] eqn:ER; [|discriminate]. injection H as <-.
    apply Forall_app. split.
    + destruct (negb _ || negb _); constructor; [exact Hr|constructor].
    + apply Forall_app. split; [|eapply IH; eauto].
      rewrite Forall_forall in *. intros e He. specialize (HV e He). destruct e; [contradiction|]. destruct HV as [-> ->]. exact Hr.
Qed.

(* ---------- reading the written schedule back ---------- *)
Definition oqeq (a b:option Q) : Prop := match a, b with Some x, Some y => Qeq x y | None, None => True | _, _ => False end.
Lemma eqoq_iff a b : eqoq a b = true <-> oqeq a b.
Proof. destruct a, b; cbn; try tauto; try (split; [discriminate|tauto]). apply Qeq_bool_iff. Qed.
Lemma oqeq_trans a b c : oqeq a b -> oqeq b c -> oqeq a c.
Proof. destruct a, b, c; cbn; try tauto. apply Qeq_trans. Qed.
Lemma oqeq_sym a b : oqeq a b -> oqeq b a.
Proof. destruct a, b; cbn; try tauto. apply Qeq_sym. Qed.

Definition ev_start (e:sev) : Z := match e with SGc st _ _ _ => st | SVeh st _ _ _ => st end.
Lemma target_at_app a b t cur : target_at (a ++ b) t cur = target_at b t (target_at a t cur).
Proof. revert cur. induction a as [|e a IH]; intros cur; cbn; [reflexivity|]. destruct e; [destruct (_ <=? t)|]; apply IH. Qed.
Lemma target_at_later evs t cur : Forall (fun e => t < ev_start e) evs -> target_at evs t cur = cur.
Proof. revert cur. induction evs as [|e r IH]; intros cur H; cbn; [reflexivity|]. inversion H; subst.
  destruct e; cbn in *; [rewrite (proj2 (Z.leb_gt _ _)) by lia|]; apply IH; assumption. Qed.
Lemma target_at_veh evs t cur : Forall (fun e => match e with SVeh _ _ _ _ => True | _ => False end) evs -> target_at evs t cur = cur.
Proof. revert cur. induction evs as [|e r IH]; intros cur H; cbn; [reflexivity|]. inversion H; subst. destruct e; [contradiction|]. apply IH; assumption. Qed.
Lemma veh_events_only_veh st sg vals i last : Forall (fun e => match e with SVeh _ _ _ _ => True | _ => False end) (fst (veh_events st sg i vals last)).
Proof. pose proof (veh_events_times st sg vals i last) as H. rewrite Forall_forall in *. intros e He. specialize (H e He). destruct e; tauto. Qed.

Lemma rows_events_starts start0 : forall rows lt lw lv evs t,
  Forall (fun r => t < r_start r) rows -> rows_events start0 rows lt lw lv = Some evs -> Forall (fun e => t < ev_start e) evs.
Proof.
  induction rows as [|r rest IH]; intros lt lw lv evs t HF H; cbn in H.
  - injection H as <-. constructor.
  - inversion HF as [|? ? Hr HF']; subst.
    pose proof (veh_events_times (r_start r) (Z.max start0 (r_sigcand r)) (r_veh r) 0%nat lv) as HV.
    destruct (veh_events (r_start r) (Z.max start0 (r_sigcand r)) 0 (r_veh r) lv) as [vevs lv'] eqn:EV. cbn in HV.
    destruct (_ && (r_start r <? _)); [discriminate|].
    destruct (rows_events start0 rest _ _ lv') as [tl|] eqn:ER; [|discriminate]. injection H as <-.
    apply Forall_app. split; [destruct (negb _ || negb _); constructor; [exact Hr|constructor]|].
    apply Forall_app. split; [|eapply IH; eauto].
    rewrite Forall_forall in *. intros e He. specialize (HV e He). destruct e; [contradiction|]. destruct HV as [-> _]. exact Hr.
Qed.

Fixpoint increasing (rows:list row) : Prop := match rows with
  | r :: ((r' :: _) as rest) => r_start r < r_start r' /\ increasing rest | _ => True end.
Lemma increasing_later r rest : increasing (r :: rest) -> Forall (fun x => r_start r < r_start x) rest.
Proof.
  revert r. induction rest as [|r' rest IH]; intros r H; [constructor|]. cbn in H. destruct H as [H1 H2].
  constructor; [exact H1|]. specialize (IH r' H2). rewrite Forall_forall in *. intros x Hx. specialize (IH x Hx). lia.
Qed.

(* only changed targets generate events, yet a reader that applies the events up to a row's time sees
   exactly that row's target: the written schedule, read back, yields the scheduled target at every step *)
Lemma readback_target start0 : forall rows lt lw lv evs cur, increasing rows -> oqeq cur lt ->
  rows_events start0 rows lt lw lv = Some evs ->
  forall r, In r rows -> oqeq (target_at evs (r_start r) cur) (Some (r_target r)).
Proof.
  induction rows as [|r rest IH]; intros lt lw lv evs cur Hinc Hcur H x Hx; [contradiction|]. cbn in H.
  pose proof (veh_events_only_veh (r_start r) (Z.max start0 (r_sigcand r)) (r_veh r) 0%nat lv) as HV.
  destruct (veh_events (r_start r) (Z.max start0 (r_sigcand r)) 0 (r_veh r) lv) as [vevs lv'] eqn:EV. cbn in HV.
  destruct (_ && (r_start r <? _)) eqn:E; [discriminate|].
  destruct (rows_events start0 rest _ _ lv') as [tl|] eqn:ER; [|discriminate]. injection H as <-.
  pose proof (increasing_later r rest Hinc) as Hlater.
  assert (Hinc' : increasing rest) by (destruct rest; cbn in *; tauto).
  set (changed := negb (eqoq (Some (r_target r)) lt) || negb (match lw with Some w => eqow (r_window r) w | None => false end)) in *.
  (* the reader's value after this row's connector event *)
  assert (Hc1 : forall t, r_start r <= t ->
     oqeq (target_at (if changed then [SGc (r_start r) (Z.max start0 (r_sigcand r)) (r_target r) (r_window r)] else []) t cur)
          (if changed then Some (r_target r) else lt)).
  { intros t Ht. destruct changed; cbn; [rewrite (proj2 (Z.leb_le _ _)) by lia; cbn; apply Qeq_refl|exact Hcur]. }
  rewrite !target_at_app. rewrite (target_at_veh vevs) by exact HV.
  destruct Hx as [<-|Hx].
  - rewrite (target_at_later tl); [|eapply rows_events_starts; eauto].
    specialize (Hc1 (r_start r) ltac:(lia)). eapply oqeq_trans; [exact Hc1|].
    destruct changed eqn:Ech; [cbn; apply Qeq_refl|].
    unfold changed in Ech. apply orb_false_iff in Ech. destruct Ech as [E1 _]. apply negb_false_iff, eqoq_iff in E1.
    apply oqeq_sym. exact E1.
  - assert (Ht : r_start r <= r_start x). { rewrite Forall_forall in Hlater. specialize (Hlater x Hx). lia. }
    eapply (IH _ _ _ tl _ Hinc' (Hc1 (r_start x) Ht) ER x Hx).
Qed.

(* The pinned upstream revision (D4): a vehicle schedule that changes while the connector target stays the
   same is stamped with the start time of the LAST connector change, i.e. it takes effect too early. *)
Definition d4_rows : list row :=
  [ {| r_start := 0; r_sigcand := -100; r_target := 5; r_window := None; r_veh := [1%Q] |};
    {| r_start := 10; r_sigcand := -90; r_target := 5; r_window := None; r_veh := [2%Q] |} ].
Lemma orig_vehicle_schedule_early :
  match rows_events_orig (-1000) d4_rows None None [None] (0,0) with
  | Some evs => eqoq (veh_at evs 0 0 None) (Some 2%Q) | None => false end = true.
Proof. vm_compute. reflexivity. Qed.
Lemma fixed_vehicle_schedule_on_time :
  match schedule_events (-1000) 1 d4_rows with
  | Some evs => eqoq (veh_at evs 0 0 None) (Some 1%Q) && eqoq (veh_at evs 0 10 None) (Some 2%Q) | None => false end = true.
Proof. vm_compute. reflexivity. Qed.
