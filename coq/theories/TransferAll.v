(* TransferAll.v — Q -> R transfer for every Num-generic model: Curve, Battery, Costs, Events, RunLoop, Strat, Gen,
   Report.  Statements are relational: inputs related by the parametricity relation at [QR q r := Q2R q = r]
   give related results (equal up to Q2R, same error).  [Total] shows that every executable (Q) input HAS a
   related R input, so the statements are not vacuous.  Battery / Strat use exp and ln: their R side is [RNumT tbl]
   (exp/ln answered from the recorded, validated table); all others are shown exp/ln-free by conversion and are
   stated against [RNum], the instance every theorem in *Props.v is about. *)
From Coq Require Import ZArith QArith Qreals Reals List Bool Lia Lra String.
From Param Require Import Param.
From SV Require Import Num RNum Transfer TransferK Kernel Curve Battery Costs Events RunLoop Strat Gen Report.
Import ListNotations.

Ltac destruct_reflexivity :=
  intros ; repeat match goal with
    | [ x : _ |- _ = _ ] => destruct x; reflexivity; fail
  end.
Global Parametricity Tactic := ((destruct_reflexivity; fail) || auto).

Parametricity Recursive Curve.mk_curve qualified.
Parametricity Recursive Curve.power_from_soc qualified.
Parametricity Recursive Curve.clamped qualified.
Parametricity Recursive Curve.section_boundary qualified.
Parametricity Recursive Curve.default_discharge qualified.
Parametricity Recursive Battery.load qualified.
Parametricity Recursive Battery.unload qualified.
Parametricity Recursive Battery.available_power qualified.
Parametricity Recursive Costs.calculate_costs qualified.
Parametricity Recursive Events.event_steps qualified.
Parametricity Recursive Events.sort_events qualified.
Parametricity Recursive Events.pre_step qualified.
Parametricity Recursive RunLoop.run qualified.
Parametricity Recursive RunLoop.step_ok qualified.
Parametricity Recursive Strat.strategy_step qualified.
Parametricity Recursive Strat.vehicle_charge qualified.
Parametricity Recursive Gen.stat_vehicle qualified.
Parametricity Recursive Gen.csv_vehicle qualified.
Parametricity Recursive Report.split_feedin qualified.

(* ---------- totality: every Q value has a related R value ---------- *)
Class Total {A B} (AR:A->B->Type) := total : forall a, {b & AR a b}.
#[export] Instance QR_total : Total QR := fun q => existT _ (Q2R q) eq_refl.
#[export] Instance Z_total : Total Z_R := fun z => existT _ z (Z_R_refl z).
#[export] Instance nat_total : Total nat_R := fun z => existT _ z (nat_R_refl z).
#[export] Instance bool_total : Total bool_R := fun z => existT _ z (bool_R_refl z).
#[export] Instance string_total : Total string_R := fun z => existT _ z (string_R_refl z).
#[export] Instance list_total {A B} (AR:A->B->Type) `{Total A B AR} : Total (list_R A B AR).
Proof. intros l. induction l as [|a l [l' Hl]]; [exists []; constructor|]. destruct (total a) as [b Hb].
  exists (b::l'). constructor; assumption. Defined.
#[export] Instance option_total {A B} (AR:A->B->Type) `{Total A B AR} : Total (option_R A B AR).
Proof. intros [a|]; [destruct (total a) as [b Hb]; exists (Some b)|exists None]; constructor; assumption. Defined.
#[export] Instance prod_total {A B} (AR:A->B->Type) {C D} (CR:C->D->Type) `{Total A B AR} `{Total C D CR} : Total (prod_R A B AR C D CR).
Proof. intros [a c]. destruct (total a) as [b Hb]. destruct (total c) as [d Hd]. exists (b,d). constructor; assumption. Defined.
Ltac field_total := match goal with |- ?AR ?a _ => apply (projT2 (@total _ _ AR _ a)) end.
Ltac rec_total := intros x; destruct x; eexists; econstructor; field_total.

#[export] Instance cost_total : Total (cost_R Q R QR). Proof. rec_total. Defined.
#[export] Instance curve_total : Total (SV_o_Curve_o_curve_R Q R QR). Proof. rec_total. Defined.
#[export] Instance bat_total : Total (SV_o_Battery_o_bat_R Q R QR). Proof. rec_total. Defined.
#[export] Instance target_total : Total (SV_o_Battery_o_target_R Q R QR). Proof. rec_total. Defined.
#[export] Instance sheet_total : Total (SV_o_Costs_o_sheet_R Q R QR). Proof. rec_total. Defined.
#[export] Instance cctype_total : Total SV_o_Costs_o_cctype_R. Proof. rec_total. Defined.
#[export] Instance fee_total : Total SV_o_Costs_o_fee_R. Proof. rec_total. Defined.
#[export] Instance inputs_total : Total (SV_o_Costs_o_inputs_R Q R QR). Proof. rec_total. Defined.
#[export] Instance load_total : Total (SV_o_RunLoop_o_load_R Q R QR). Proof. rec_total. Defined.
#[export] Instance csobs_total : Total (SV_o_RunLoop_o_csobs_R Q R QR). Proof. rec_total. Defined.
#[export] Instance gcobs_total : Total (SV_o_RunLoop_o_gcobs_R Q R QR). Proof. rec_total. Defined.
#[export] Instance stepobs_total : Total (SV_o_RunLoop_o_stepobs_R Q R QR). Proof. rec_total. Defined.

(* ---------- exp/ln-freeness by conversion ---------- *)
Lemma mk_curve_expfree tbl : @mk_curve R (RNumT tbl) = @mk_curve R RNum. Proof. reflexivity. Qed.
Lemma power_from_soc_expfree tbl : @power_from_soc R (RNumT tbl) = @power_from_soc R RNum. Proof. reflexivity. Qed.
Lemma clamped_expfree tbl : @clamped R (RNumT tbl) = @clamped R RNum. Proof. reflexivity. Qed.
Lemma section_boundary_expfree tbl : @section_boundary R (RNumT tbl) = @section_boundary R RNum. Proof. reflexivity. Qed.
Lemma calculate_costs_expfree tbl : @calculate_costs R (RNumT tbl) = @calculate_costs R RNum. Proof. reflexivity. Qed.
Lemma pre_step_expfree tbl : @pre_step R (RNumT tbl) = @pre_step R RNum. Proof. reflexivity. Qed.
Lemma run_expfree tbl : @RunLoop.run R (RNumT tbl) = @RunLoop.run R RNum. Proof. reflexivity. Qed.
Lemma step_ok_expfree tbl : @RunLoop.step_ok R (RNumT tbl) = @RunLoop.step_ok R RNum. Proof. reflexivity. Qed.
Lemma stat_vehicle_expfree tbl : @stat_vehicle R (RNumT tbl) = @stat_vehicle R RNum. Proof. reflexivity. Qed.
Lemma csv_vehicle_expfree tbl : @csv_vehicle R (RNumT tbl) = @csv_vehicle R RNum. Proof. reflexivity. Qed.
Lemma split_feedin_expfree tbl : @split_feedin R (RNumT tbl) = @split_feedin R RNum. Proof. reflexivity. Qed.

(* ---------- transfer theorems ---------- *)
Section T.
Variable tbl : oracle.
Let NR := QNum_RNumT tbl.
Notation "x ~ y" := (QR x y) (at level 70).

Theorem mk_curve_transfer l l' : list_R _ _ (prod_R Q R QR Q R QR) l l' ->
  res_R _ _ (SV_o_Curve_o_curve_R Q R QR) (@mk_curve Q (QNum tbl) l) (@mk_curve R RNum l').
Proof. intros H. rewrite <- (mk_curve_expfree tbl). exact (SV_o_Curve_o_mk_curve_R Q R QR _ _ NR l l' H). Qed.

Theorem power_from_soc_transfer c c' s : SV_o_Curve_o_curve_R Q R QR c c' ->
  res_R Q R QR (@power_from_soc Q (QNum tbl) c s) (@power_from_soc R RNum c' (Q2R s)).
Proof. intros H. rewrite <- (power_from_soc_expfree tbl). exact (SV_o_Curve_o_power_from_soc_R Q R QR _ _ NR c c' H s _ eq_refl). Qed.

Theorem clamped_transfer c c' lim pre post : SV_o_Curve_o_curve_R Q R QR c c' ->
  res_R _ _ (SV_o_Curve_o_curve_R Q R QR) (@clamped Q (QNum tbl) c lim pre post) (@clamped R RNum c' (Q2R lim) (Q2R pre) (Q2R post)).
Proof. intros H. rewrite <- (clamped_expfree tbl).
  exact (SV_o_Curve_o_clamped_R Q R QR _ _ NR c c' H lim _ eq_refl pre _ eq_refl post _ eq_refl). Qed.

Theorem section_boundary_transfer c c' s : SV_o_Curve_o_curve_R Q R QR c c' ->
  res_R _ _ (prod_R nat nat nat_R nat nat nat_R) (@section_boundary Q (QNum tbl) c s) (@section_boundary R RNum c' (Q2R s)).
Proof. intros H. rewrite <- (section_boundary_expfree tbl). exact (SV_o_Curve_o_section_boundary_R Q R QR _ _ NR c c' H s _ eq_refl). Qed.

(* battery: the R side answers exp/ln from the same table *)
Theorem load_transfer b b' h mp mp' tg tg' : SV_o_Battery_o_bat_R Q R QR b b' -> option_R Q R QR mp mp' -> SV_o_Battery_o_target_R Q R QR tg tg' ->
  res_R _ _ (prod_R _ _ (prod_R _ _ (SV_o_Battery_o_bat_R Q R QR) Q R QR) Q R QR)
    (@Battery.load Q (QNum tbl) b h mp tg) (@Battery.load R (RNumT tbl) b' (Q2R h) mp' tg').
Proof. intros Hb Hm Ht. exact (SV_o_Battery_o_load_R Q R QR _ _ NR b b' Hb h _ eq_refl mp mp' Hm tg tg' Ht). Qed.
Theorem unload_transfer b b' h mp mp' tg tg' : SV_o_Battery_o_bat_R Q R QR b b' -> option_R Q R QR mp mp' -> SV_o_Battery_o_target_R Q R QR tg tg' ->
  res_R _ _ (prod_R _ _ (prod_R _ _ (SV_o_Battery_o_bat_R Q R QR) Q R QR) Q R QR)
    (@Battery.unload Q (QNum tbl) b h mp tg) (@Battery.unload R (RNumT tbl) b' (Q2R h) mp' tg').
Proof. intros Hb Hm Ht. exact (SV_o_Battery_o_unload_R Q R QR _ _ NR b b' Hb h _ eq_refl mp mp' Hm tg tg' Ht). Qed.
Theorem available_power_transfer b b' h : SV_o_Battery_o_bat_R Q R QR b b' ->
  res_R _ _ (prod_R _ _ (SV_o_Battery_o_bat_R Q R QR) Q R QR)
    (@available_power Q (QNum tbl) b h) (@available_power R (RNumT tbl) b' (Q2R h)).
Proof. intros Hb. exact (SV_o_Battery_o_available_power_R Q R QR _ _ NR b b' Hb h _ eq_refl). Qed.

Theorem calculate_costs_transfer sh sh' inp inp' : SV_o_Costs_o_sheet_R Q R QR sh sh' -> SV_o_Costs_o_inputs_R Q R QR inp inp' ->
  res_R _ _ (SV_o_Costs_o_outputs_R Q R QR) (@calculate_costs Q (QNum tbl) sh inp) (@calculate_costs R RNum sh' inp').
Proof. intros H1 H2. rewrite <- (calculate_costs_expfree tbl). exact (SV_o_Costs_o_calculate_costs_R Q R QR _ _ NR sh sh' H1 inp inp' H2). Qed.

Theorem run_transfer eps steps steps' : list_R _ _ (SV_o_RunLoop_o_stepobs_R Q R QR) steps steps' ->
  prod_R _ _ (list_R _ _ (SV_o_RunLoop_o_row_R Q R QR)) _ _ bool_R (@RunLoop.run Q (QNum tbl) eps steps) (@RunLoop.run R RNum (Q2R eps) steps').
Proof. intros H. rewrite <- (run_expfree tbl). exact (SV_o_RunLoop_o_run_R Q R QR _ _ NR eps _ eq_refl steps steps' H). Qed.
Theorem step_ok_transfer eps s s' : SV_o_RunLoop_o_stepobs_R Q R QR s s' ->
  @RunLoop.step_ok Q (QNum tbl) eps s = @RunLoop.step_ok R RNum (Q2R eps) s'.
Proof. intros H. rewrite <- (step_ok_expfree tbl). apply bool_R_eq. exact (SV_o_RunLoop_o_step_ok_R Q R QR _ _ NR eps _ eq_refl s s' H). Qed.

Theorem pre_step_transfer o o' w w' evs evs' : SV_o_Events_o_options_R Q R QR o o' -> SV_o_Events_o_world_R Q R QR w w' ->
  list_R _ _ (SV_o_Events_o_event_t_R Q R QR) evs evs' ->
  prod_R _ _ (SV_o_Events_o_world_R Q R QR) _ _ (option_R _ _ err_R) (@pre_step Q (QNum tbl) o w evs) (@pre_step R RNum o' w' evs').
Proof. intros H1 H2 H3. rewrite <- (pre_step_expfree tbl). exact (SV_o_Events_o_pre_step_R Q R QR _ _ NR o o' H1 w w' H2 evs evs' H3). Qed.

Theorem strategy_step_transfer s o o' w w' : SV_o_Strat_o_sopts_R Q R QR o o' -> SV_o_Strat_o_sworld_R Q R QR w w' ->
  res_R _ _ (prod_R _ _ (SV_o_Strat_o_sworld_R Q R QR) _ _ (list_R _ _ (prod_R _ _ string_R Q R QR)))
    (@strategy_step Q (QNum tbl) s o w) (@strategy_step R (RNumT tbl) s o' w').
Proof. intros H1 H2. refine (SV_o_Strat_o_strategy_step_R Q R QR _ _ NR s s _ o o' H1 w w' H2). destruct s; constructor. Qed.

Theorem split_feedin_transfer g gen cs :
  prod_R _ _ (prod_R Q R QR Q R QR) Q R QR (@split_feedin Q (QNum tbl) g gen cs) (@split_feedin R RNum (Q2R g) (Q2R gen) (Q2R cs)).
Proof. rewrite <- (split_feedin_expfree tbl). exact (SV_o_Report_o_split_feedin_R Q R QR _ _ NR g _ eq_refl gen _ eq_refl cs _ eq_refl). Qed.

Theorem stat_vehicle_transfer ms buf days trips trips' : list_R _ _ (SV_o_Gen_o_strip_R Q R QR) trips trips' ->
  SV_o_Gen_o_sstate_R Q R QR (@stat_vehicle Q (QNum tbl) ms buf days trips) (@stat_vehicle R RNum (Q2R ms) (Q2R buf) days trips').
Proof. intros H. rewrite <- (stat_vehicle_expfree tbl).
  exact (SV_o_Gen_o_stat_vehicle_R Q R QR _ _ NR ms _ eq_refl buf _ eq_refl days days (nat_R_refl _) trips trips' H). Qed.
Theorem csv_vehicle_transfer ms stop rows rows' : list_R _ _ (SV_o_Gen_o_crow_R Q R QR) rows rows' ->
  SV_o_Gen_o_cstate_R Q R QR (@csv_vehicle Q (QNum tbl) ms stop rows) (@csv_vehicle R RNum (Q2R ms) stop rows').
Proof. intros H. rewrite <- (csv_vehicle_expfree tbl).
  exact (SV_o_Gen_o_csv_vehicle_R Q R QR _ _ NR ms _ eq_refl stop stop (Z_R_refl _) rows rows' H). Qed.
End T.
