(* CurveProps.v — theorems about the Curve model on the R instance (property C03). *)
From Coq Require Import ZArith QArith Qreals Reals List Bool Lia Lra Psatz.
From SV Require Import Num RNum Curve.
Import ListNotations.
Open Scope R_scope.

Notation pt := (R*R)%type.
Notation Rpfs_from := (@pfs_from R RNum).
Notation Rpfs_pts := (@pfs_pts R RNum).

(* ---------- unfolding lemmas: the model's booleans as real-number facts ---------- *)
Lemma pfs_from_le prev p rest s : s <= fst p -> fst p <> fst prev ->
  Rpfs_from prev (p::rest) s = Ok (snd prev + (snd p - snd prev) * ((s - fst prev) / (fst p - fst prev))).
Proof. intros H1 H2. cbn. rewrite Rleb_true by exact H1. rewrite Rdivr_ok by lra. reflexivity. Qed.
Lemma pfs_from_gt prev p rest s : fst p < s -> Rpfs_from prev (p::rest) s = Rpfs_from p rest s.
Proof. intros H. cbn. rewrite Rleb_false by exact H. reflexivity. Qed.
Lemma pfs_pts_le p rest s : s <= fst p -> Rpfs_pts (p::rest) s = Ok (snd p).
Proof. intros H. cbn. rewrite Rleb_true by exact H. reflexivity. Qed.
Lemma pfs_pts_gt p rest s : fst p < s -> Rpfs_pts (p::rest) s = Rpfs_from p rest s.
Proof. intros H. cbn. rewrite Rleb_false by exact H. reflexivity. Qed.

(* ---------- well-formedness ---------- *)
Fixpoint incr (l:list pt) : Prop := match l with
  | p :: ((q :: _) as r) => fst p < fst q /\ incr r | _ => True end.
Fixpoint nondec (l:list pt) : Prop := match l with
  | p :: ((q :: _) as r) => fst p <= fst q /\ nondec r | _ => True end.
Definition lastx (l:list pt) : R := fst (last l (0,0)).
Definition wf_pts (l:list pt) : Prop :=
  (2 <= length l)%nat /\ incr l /\ fst (hd (0,0) l) = 0 /\ lastx l = 1.
Definition nonneg (l:list pt) : Prop := Forall (fun p => 0 <= snd p) l.

Lemma incr_nondec l : incr l -> nondec l.
Proof. induction l as [|p [|q r] IH]; cbn; auto. intros [H1 H2]. split; [lra|]. apply IH, H2. Qed.

Lemma lastx_cons p q r : lastx (p::q::r) = lastx (q::r).
Proof. reflexivity. Qed.

Lemma incr_lastx_ge p r : incr (p::r) -> fst p <= lastx (p::r).
Proof. revert p; induction r as [|q r IH]; intros p H; cbn in *; [unfold lastx; cbn; lra|].
  destruct H as [H1 H2]. specialize (IH q H2). rewrite lastx_cons. lra. Qed.
Lemma incr_lastx_gt p q r : incr (p::q::r) -> fst p < lastx (p::q::r).
Proof. intros [H1 H2]. rewrite lastx_cons. pose proof (incr_lastx_ge q r H2). lra. Qed.

(* ---------- sorting a non-decreasing list is the identity ---------- *)
Notation Rsortpts := (@sortpts R RNum).
Notation Rinsert := (@insert R RNum).
Lemma sort_nondec l : nondec l -> Rsortpts l = l.
Proof. induction l as [|p r IH]; [reflexivity|]. intros H. cbn [sortpts fold_right].
  change (fold_right Rinsert [] r) with (Rsortpts r).
  rewrite IH by (destruct r; cbn in *; tauto).
  destruct r as [|q r']; [reflexivity|]. cbn in H. cbn. rewrite Rltb_false by tauto. reflexivity. Qed.

(* ---------- C03_lookup: lookup is the lerp of the neighbouring points ---------- *)
Definition lerp (p q:pt) (s:R) : R := snd p + (snd q - snd p) * ((s - fst p) / (fst q - fst p)).

Lemma pfs_from_lookup : forall l prev s i p q,
  incr (prev::l) -> nth_error (prev::l) i = Some p -> nth_error (prev::l) (S i) = Some q ->
  fst prev < s -> fst p <= s <= fst q -> Rpfs_from prev l s = Ok (lerp p q s).
Proof.
  induction l as [|a l IH]; intros prev s i p q Hinc Hp Hq Hs Hb.
  - destruct i; cbn in Hq; [discriminate| destruct i; discriminate].
  - destruct i as [|i].
    + cbn in Hp, Hq. injection Hp as <-. injection Hq as <-.
      cbn in Hinc. destruct Hinc as [Hi1 _]. rewrite pfs_from_le; [|lra..]. reflexivity.
    + cbn [nth_error] in Hp, Hq. destruct Hinc as [H1 H2].
      destruct (Rle_dec s (fst a)) as [Hle|Hgt].
      * (* s <= fst a but p is a or later: s = fst a = fst p, i = 0 *)
        destruct i as [|i].
        -- cbn in Hp. injection Hp as <-. assert (s = fst a) by lra. subst s.
           rewrite pfs_from_le; [|lra..]. unfold lerp. f_equal.
           replace (fst a - fst a) with 0 by lra. unfold Rdiv. rewrite Rmult_0_l, Rmult_0_r.
           rewrite Rinv_r by lra. lra.
        -- exfalso. assert (fst a < fst p).
           { clear - H2 Hp. revert a i p H2 Hp. induction l as [|b l IHl]; intros a i p H2 Hp; [destruct i; discriminate|].
             cbn in H2. destruct H2 as [H3 H4]. destruct i; cbn in Hp.
             - injection Hp as <-. exact H3.
             - specialize (IHl b i p H4 Hp). lra. }
           lra.
      * rewrite pfs_from_gt; [|lra..]. apply (IH a s i p q); auto. lra.
Qed.

Lemma pfs_lookup : forall l s i p q, incr l ->
  nth_error l i = Some p -> nth_error l (S i) = Some q -> fst p <= s <= fst q ->
  Rpfs_pts l s = Ok (lerp p q s).
Proof.
  intros [|p0 l] s i p q Hinc Hp Hq Hb; [destruct i; discriminate|].
  destruct (Rle_dec s (fst p0)) as [Hle|Hgt].
  - rewrite pfs_pts_le; [|lra..].
    assert (Hp0 : fst p0 <= fst p).
    { clear - Hinc Hp. revert p0 i p Hinc Hp. induction l as [|b l IHl]; intros p0 i p Hinc Hp.
      - destruct i; [injection Hp as <-; lra | destruct i; discriminate].
      - destruct i; [injection Hp as <-; lra|]. cbn in Hinc. destruct Hinc as [H3 H4]. cbn [nth_error] in Hp.
        specialize (IHl b i p H4 Hp). lra. }
    assert (s = fst p0) by lra. assert (fst p = fst p0) by lra.
    destruct i as [|i].
    + cbn in Hp. injection Hp as <-. unfold lerp. subst s.
      replace ((fst p0 - fst p0) / (fst q - fst p0)) with 0 by (unfold Rdiv; lra). f_equal. lra.
    + exfalso. destruct l as [|b l]; [destruct i; discriminate|]. cbn in Hinc. destruct Hinc as [H3 H4].
      cbn [nth_error] in Hp.
      assert (fst b <= fst p).
      { clear - H4 Hp. revert b i p H4 Hp. induction l as [|c l IHl]; intros b i p H4 Hp.
        - destruct i; [injection Hp as <-; lra | destruct i; discriminate].
        - destruct i; [injection Hp as <-; lra|]. cbn in H4. destruct H4 as [H5 H6]. cbn [nth_error] in Hp.
          specialize (IHl c i p H6 Hp). lra. }
      lra.
  - rewrite pfs_pts_gt; [|lra..]. apply (pfs_from_lookup l p0 s i p q); auto. lra.
Qed.

(* ---------- scaling commutes with lookup ---------- *)
Notation Rscale := (@scale_pts R RNum).
Lemma pfs_from_scale k : forall l prev s v, Rpfs_from prev l s = Ok v ->
  Rpfs_from (fst prev, k * snd prev) (Rscale k l) s = Ok (k * v).
Proof.
  induction l as [|p l IH]; intros prev s v H; cbn in H |- *; [discriminate|].
  destruct (Rleb s (fst p)) eqn:E.
  - destruct (Rdivr (s - fst prev) (fst p - fst prev)) eqn:D; cbn in H |- *; [|discriminate].
    injection H as <-. f_equal. ring.
  - apply (IH p s v) in H. destruct p; exact H.
Qed.
Lemma pfs_pts_scale k l s v : Rpfs_pts l s = Ok v -> Rpfs_pts (Rscale k l) s = Ok (k * v).
Proof.
  destruct l as [|p l]; cbn; [discriminate|]. destruct (Rleb s (fst p)) eqn:E.
  - intros H; injection H as <-. reflexivity.
  - intros H. apply (pfs_from_scale k) in H. destruct p; exact H.
Qed.
Lemma scale_fst k l : map fst (Rscale k l) = map fst l.
Proof. unfold scale_pts. rewrite map_map. reflexivity. Qed.

(* ---------- one section ---------- *)
Notation Rclamp_sec := (@clamp_sec R RNum).
Definition xc (lim:R) (p q:pt) : R := fst p + (fst q - fst p) * ((lim - snd p) / (snd q - snd p)).

Lemma clamp_sec_cases lim p q :
  (Rclamp_sec lim p q = Ok [(fst p, Rmin (snd p) lim)] /\
     ((snd p <= lim /\ snd q <= lim) \/ (lim <= snd p /\ lim <= snd q)))
  \/ (Rclamp_sec lim p q = Ok [(fst p, Rmin (snd p) lim); (xc lim p q, lim)] /\
     ((snd p < lim < snd q) \/ (snd q < lim < snd p))).
Proof.
  unfold clamp_sec, xc. cbn.
  destruct (Rle_dec (snd p) lim) as [A|A], (Rle_dec (snd q) lim) as [B|B],
           (Rle_dec lim (snd p)) as [A'|A'], (Rle_dec lim (snd q)) as [B'|B']; try lra.
  all: repeat first [ rewrite (Rleb_true (snd p) lim) by lra | rewrite (Rleb_false (snd p) lim) by lra
    | rewrite (Rleb_true (snd q) lim) by lra | rewrite (Rleb_false (snd q) lim) by lra
    | rewrite (Rleb_true lim (snd p)) by lra | rewrite (Rleb_false lim (snd p)) by lra
    | rewrite (Rleb_true lim (snd q)) by lra | rewrite (Rleb_false lim (snd q)) by lra ]; cbn.
  all: try (left; split; [f_equal; f_equal; f_equal; unfold Rmin; destruct Rle_dec; lra | lra]).
  all: right; rewrite Rdivr_ok by lra; cbn; split; [f_equal; f_equal; f_equal; unfold Rmin; destruct Rle_dec; lra | lra].
Qed.

Lemma xc_range lim p q : fst p < fst q ->
  (snd p < lim < snd q) \/ (snd q < lim < snd p) -> fst p < xc lim p q < fst q.
Proof.
  intros Hx H. unfold xc.
  set (t := (lim - snd p) / (snd q - snd p)).
  assert (Ht : 0 < t < 1).
  { unfold t. destruct H as [H|H].
    - split; [apply Rdiv_lt_0_compat; lra|]. apply Rmult_lt_reg_r with (snd q - snd p); [lra|].
      unfold Rdiv. rewrite Rmult_assoc, Rinv_l by lra. lra.
    - replace ((lim - snd p) / (snd q - snd p)) with ((snd p - lim) / (snd p - snd q)) by (field; lra).
      split; [apply Rdiv_lt_0_compat; lra|]. apply Rmult_lt_reg_r with (snd p - snd q); [lra|].
      unfold Rdiv. rewrite Rmult_assoc, Rinv_l by lra. lra. }
  nra.
Qed.

Lemma lerp_at_xc lim p q : fst p < fst q -> snd p <> snd q -> lerp p q (xc lim p q) = lim.
Proof. intros Hx Hy. unfold lerp, xc. field. split; lra. Qed.

Lemma lerp_between p q s lo hi : fst p < fst q -> fst p <= s <= fst q ->
  lo <= snd p <= hi -> lo <= snd q <= hi -> lo <= lerp p q s <= hi.
Proof.
  intros Hx Hs Hp Hq. unfold lerp. set (t := (s - fst p) / (fst q - fst p)).
  assert (Ht : 0 <= t <= 1).
  { unfold t. split.
    - apply Rmult_le_pos; [lra|]. left. apply Rinv_0_lt_compat. lra.
    - apply Rmult_le_reg_r with (fst q - fst p); [lra|].
      unfold Rdiv. rewrite Rmult_assoc, Rinv_l by lra. lra. }
  nra.
Qed.

(* lerp is monotone along a rising / falling section *)
Lemma lerp_mono_up p q s1 s2 : fst p < fst q -> snd p <= snd q -> s1 <= s2 -> lerp p q s1 <= lerp p q s2.
Proof.
  intros Hx Hy Hs. unfold lerp.
  assert ((s1 - fst p) / (fst q - fst p) <= (s2 - fst p) / (fst q - fst p)).
  { unfold Rdiv. apply Rmult_le_compat_r; [left; apply Rinv_0_lt_compat|]; lra. }
  nra.
Qed.
Lemma lerp_mono_down p q s1 s2 : fst p < fst q -> snd q <= snd p -> s1 <= s2 -> lerp p q s2 <= lerp p q s1.
Proof.
  intros Hx Hy Hs. unfold lerp.
  assert ((s1 - fst p) / (fst q - fst p) <= (s2 - fst p) / (fst q - fst p)).
  { unfold Rdiv. apply Rmult_le_compat_r; [left; apply Rinv_0_lt_compat|]; lra. }
  nra.
Qed.

(* evaluation of the clamped section at a SoC inside it *)
Lemma sec_eval lim p q T s E : fst p < fst q -> fst p < s <= fst q ->
  Rclamp_sec lim p q = Ok ((fst p, Rmin (snd p) lim) :: E) ->
  Rpfs_from (fst p, Rmin (snd p) lim) (E ++ (fst q, Rmin (snd q) lim) :: T) s = Ok (Rmin (lerp p q s) lim).
Proof.
  intros Hx Hs HE.
  destruct (clamp_sec_cases lim p q) as [[H1 H2]|[H1 H2]]; rewrite H1 in HE; injection HE as <-.
  - cbn [app]. rewrite pfs_from_le; cbn [fst snd]; [|lra..]. f_equal.
    destruct H2 as [[Ha Hb]|[Ha Hb]].
    + rewrite (Rmin_left (snd p)), (Rmin_left (snd q)) by lra.
      pose proof (lerp_between p q s (Rmin (snd p) (snd q)) lim Hx) as L.
      rewrite Rmin_left; [reflexivity|]. apply L; try lra; unfold Rmin; destruct Rle_dec; lra.
    + rewrite (Rmin_right (snd p)), (Rmin_right (snd q)) by lra.
      pose proof (lerp_between p q s lim (Rmax (snd p) (snd q)) Hx) as L.
      rewrite Rmin_right; [unfold Rdiv; ring|]. apply L; try lra; unfold Rmax; destruct Rle_dec; lra.
  - pose proof (xc_range lim p q Hx H2) as Hxc.
    assert (Hne : snd p <> snd q) by lra.
    pose proof (lerp_at_xc lim p q Hx Hne) as Hl.
    cbn [app]. destruct (Rle_dec s (xc lim p q)) as [Hle|Hgt].
    + rewrite pfs_from_le; cbn [fst snd]; [|lra..]. f_equal.
      destruct H2 as [H2|H2].
      * rewrite (Rmin_left (snd p)) by lra.
        pose proof (lerp_mono_up p q s (xc lim p q) Hx ltac:(lra) Hle) as M.
        rewrite Rmin_left by lra. unfold lerp, xc. field. repeat split; try lra; nra.
      * rewrite (Rmin_right (snd p)) by lra.
        pose proof (lerp_mono_down p q s (xc lim p q) Hx ltac:(lra) Hle) as M.
        rewrite Rmin_right by lra. unfold Rdiv; ring.
    + rewrite pfs_from_gt; cbn [fst snd]; [|lra]. rewrite pfs_from_le; cbn [fst snd]; [|lra..]. f_equal.
      destruct H2 as [H2|H2].
      * rewrite (Rmin_right (snd q)) by lra.
        pose proof (lerp_mono_up p q (xc lim p q) s Hx ltac:(lra) ltac:(lra)) as M.
        rewrite Rmin_right by lra. unfold Rdiv; ring.
      * rewrite (Rmin_left (snd q)) by lra.
        pose proof (lerp_mono_down p q (xc lim p q) s Hx ltac:(lra) ltac:(lra)) as M.
        rewrite Rmin_left by lra. unfold lerp, xc. field. repeat split; try lra; nra.
Qed.

(* skipping a clamped section that lies entirely below s *)
Lemma sec_skip lim p q T s E v : fst p < fst q -> fst q < s ->
  Rclamp_sec lim p q = Ok ((fst p, Rmin (snd p) lim) :: E) ->
  Rpfs_from (fst p, Rmin (snd p) lim) (E ++ (fst q, v) :: T) s = Rpfs_from (fst q, v) T s.
Proof.
  intros Hx Hs HE.
  destruct (clamp_sec_cases lim p q) as [[H1 H2]|[H1 H2]]; rewrite H1 in HE; injection HE as <-; cbn [app].
  - rewrite pfs_from_gt; cbn [fst]; [reflexivity|lra].
  - pose proof (xc_range lim p q Hx H2). rewrite pfs_from_gt; cbn [fst]; [|lra].
    rewrite pfs_from_gt; cbn [fst]; [reflexivity|lra].
Qed.

Lemma sec_shape lim p q : fst p < fst q -> exists E, Rclamp_sec lim p q = Ok ((fst p, Rmin (snd p) lim) :: E) /\
  Forall (fun e => fst p <= fst e < fst q) E /\ nondec ((fst p, Rmin (snd p) lim) :: E).
Proof.
  intros Hx. destruct (clamp_sec_cases lim p q) as [[H1 H2]|[H1 H2]]; eexists; (split; [exact H1|]).
  - split; [constructor | cbn; auto].
  - pose proof (xc_range lim p q Hx H2). split; [repeat constructor; cbn; lra | cbn; split; [lra|auto]].
Qed.

Lemma nondec_app h E b v T : nondec (h :: E) -> Forall (fun e => fst h <= fst e < b) E -> fst h <= b ->
  nondec ((b,v)::T) -> nondec (h :: E ++ (b,v) :: T).
Proof.
  revert h. induction E as [|e E IH]; intros h H1 H2 H3 H4.
  - cbn. split; [exact H3| exact H4].
  - cbn [app]. inversion H2 as [|? ? He HE]; subst. cbn in H1. destruct H1 as [H1 H1'].
    change (fst h <= fst e /\ nondec (e :: E ++ (b,v) :: T)). split; [exact H1|].
    apply IH; auto. 2: lra.
    clear - HE H1' He. induction E as [|e' E IHE]; constructor.
    + inversion HE; subst. cbn in H1'. cbn. lra.
    + apply IHE; inversion HE; subst; auto. cbn in H1'. destruct E; cbn in *; [auto|]. destruct H1' as [? [? ?]]. split; [lra|auto].
Qed.

Lemma lastx_app h E x T : lastx (h :: E ++ x :: T) = lastx (x :: T).
Proof. unfold lastx. f_equal. revert h. induction E as [|e E IH]; intros h; cbn [app].
  - reflexivity.
  - change (last (h :: e :: E ++ x :: T) (0,0)) with (last (e :: E ++ x :: T) (0,0)). apply IH. Qed.

Notation Rclamp_secs := (@clamp_secs R RNum).
(* the loop of clamped(): shape of the produced point list and its value at every SoC *)
Lemma clamp_secs_ok lim : forall l p, incr (p::l) -> l <> [] -> lastx (p::l) = 1 ->
  exists L, Rclamp_secs lim (p::l) = Ok ((fst p, Rmin (snd p) lim) :: L) /\
    nondec ((fst p, Rmin (snd p) lim) :: L) /\ lastx ((fst p, Rmin (snd p) lim) :: L) = 1 /\
    forall s, fst p < s <= 1 -> exists v, Rpfs_from p l s = Ok v /\
      Rpfs_from (fst p, Rmin (snd p) lim) L s = Ok (Rmin v lim).
Proof.
  induction l as [|q l IH]; intros p Hinc Hne Hlast; [congruence|].
  assert (Hx : fst p < fst q) by (cbn in Hinc; tauto).
  destruct (sec_shape lim p q Hx) as (E & HE & HEr & HEn).
  assert (Htail : exists L', Rclamp_secs lim (q::l) = Ok ((fst q, Rmin (snd q) lim) :: L') /\
     nondec ((fst q, Rmin (snd q) lim) :: L') /\ lastx ((fst q, Rmin (snd q) lim) :: L') = 1 /\
     forall s, fst q < s <= 1 -> exists v, Rpfs_from q l s = Ok v /\
       Rpfs_from (fst q, Rmin (snd q) lim) L' s = Ok (Rmin v lim)).
  { destruct l as [|q' l'].
    - exists []. rewrite lastx_cons in Hlast. unfold lastx in Hlast; cbn in Hlast.
      cbn. rewrite nmin_R, RMicromega.Q2R_1. rewrite Hlast. rewrite Rmin_comm. repeat split; auto.
      intros s Hs. lra.
    - apply IH; [cbn in Hinc |- *; tauto | congruence | rewrite lastx_cons in Hlast; exact Hlast]. }
  destruct Htail as (L' & HL' & Hnd & Hlx & Hev).
  exists (E ++ (fst q, Rmin (snd q) lim) :: L').
  assert (Hq1 : fst q <= 1).
  { rewrite <- Hlast. rewrite lastx_cons. apply incr_lastx_ge. cbn in Hinc. destruct l; cbn in *; tauto. }
  repeat split.
  - change (Rclamp_secs lim (p :: q :: l)) with
      (let! hd := Rclamp_sec lim p q in let! tl := Rclamp_secs lim (q::l) in Ok (hd ++ tl)).
    rewrite HE, HL'. reflexivity.
  - apply (nondec_app (fst p, Rmin (snd p) lim) E (fst q)); cbn [fst]; auto. lra.
  - rewrite lastx_app. exact Hlx.
  - intros s Hs. destruct (Rle_dec s (fst q)) as [Hle|Hgt].
    + exists (lerp p q s). split; [rewrite pfs_from_le; [reflexivity|lra..]|].
      apply sec_eval; auto. lra.
    + destruct (Hev s ltac:(lra)) as (v & Hv1 & Hv2). exists v. split.
      * rewrite pfs_from_gt by lra. exact Hv1.
      * rewrite (sec_skip lim p q L' s E) by (auto; lra). exact Hv2.
Qed.

(* ---------- the constructor on an already ordered list ---------- *)
Notation Rmk_curve := (@mk_curve R RNum).
Definition maxfold (l:list pt) : R := fold_left (fun acc p => @nmax R RNum (snd p) acc) l (@zero R RNum).

Lemma last_default {A} (l:list A) d d' : l <> [] -> last l d = last l d'.
Proof. induction l as [|a [|b l] IH]; intros H; [congruence|reflexivity|]. 
  change (last (b::l) d = last (b::l) d'). apply IH. congruence. Qed.

Lemma mk_curve_nondec l : l <> [] -> nondec l -> fst (hd (0,0) l) = 0 -> lastx l = 1 ->
  Rmk_curve l = Ok {| pts := l; maxp := maxfold l |}.
Proof.
  intros Hne Hnd H0 H1. unfold mk_curve. rewrite sort_nondec by exact Hnd.
  destruct l as [|p0 l]; [congruence|]. cbn in H0.
  cbn [neqb RNum]. rewrite zero_0, one_1.
  rewrite Reqb_true by exact H0. cbn [negb].
  erewrite (last_default _ _ (0,0)) by congruence. unfold lastx in H1. rewrite Reqb_true by exact H1.
  cbn [negb]. unfold maxfold. rewrite zero_0. reflexivity.
Qed.

Lemma maxfold_spec : forall (l:list pt) acc, 
  let m := fold_left (fun acc (p:pt) => @nmax R RNum (snd p) acc) l acc in
  acc <= m /\ Forall (fun p => snd p <= m) l /\ (m = acc \/ In m (map snd l)).
Proof.
  induction l as [|p l IH]; intros acc; cbn.
  - repeat split; auto; lra.
  - specialize (IH (@nmax R RNum (snd p) acc)). cbn in IH. destruct IH as (I1 & I2 & I3).
    rewrite nmax_R in *. pose proof (Rmax_l (snd p) acc). pose proof (Rmax_r (snd p) acc).
    repeat split; [lra| constructor; [lra|exact I2] |].
    destruct I3 as [I3|I3]; [|right; right; exact I3].
    destruct (Rle_dec (snd p) acc) as [r|r].
    + left. rewrite (Rmax_right (snd p) acc) in * by lra. exact I3.
    + right; left. rewrite (Rmax_left (snd p) acc) in * by lra. symmetry; exact I3.
Qed.

Lemma maxfold_max l : l <> [] -> nonneg l ->
  Forall (fun p => snd p <= maxfold l) l /\ In (maxfold l) (map snd l).
Proof.
  intros Hne Hnn. destruct l as [|p l]; [congruence|].
  unfold maxfold. pose proof (maxfold_spec (p::l) (@zero R RNum)) as H. cbv zeta in H.
  set (m := fold_left _ (p::l) _) in *.
  destruct H as (H1 & H2 & H3). split; [exact H2|].
  destruct H3 as [H3|H3]; [|exact H3].
  (* the fold stayed at 0: then every power is <= 0 and >= 0, so the first one equals it *)
  inversion H2 as [|? ? Hp ?]; subst. inversion Hnn as [|? ? Hp' ?]; subst. left. cbn [map].
  rewrite H3 in *. rewrite zero_0 in *. lra.
Qed.

(* values of the lookup stay between the extreme powers *)
Lemma pfs_from_between lo hi : forall l prev s v, incr (prev::l) -> fst prev < s ->
  Forall (fun p => lo <= snd p <= hi) (prev::l) -> Rpfs_from prev l s = Ok v -> lo <= v <= hi.
Proof.
  induction l as [|p l IH]; intros prev s v Hinc Hs HF H; [discriminate|].
  inversion HF as [|? ? Hprev HF']; subst. inversion HF' as [|? ? Hp HF'']; subst.
  cbn in Hinc. destruct Hinc as [Hi1 Hi2].
  destruct (Rle_dec s (fst p)) as [Hle|Hgt].
  - rewrite pfs_from_le in H; [|lra..]. injection H as <-.
    apply (lerp_between prev p s lo hi); lra.
  - rewrite pfs_from_gt in H by lra. apply (IH p s v); auto. lra.
Qed.

(* totality of the lookup on [first x, last x] *)
Lemma pfs_from_total : forall l prev s, incr (prev::l) -> fst prev < s <= lastx (prev::l) ->
  exists v, Rpfs_from prev l s = Ok v.
Proof.
  induction l as [|p l IH]; intros prev s Hinc Hs.
  - unfold lastx in Hs; cbn in Hs. lra.
  - cbn in Hinc. destruct Hinc as [Hi1 Hi2]. destruct (Rle_dec s (fst p)) as [Hle|Hgt].
    + eexists. rewrite pfs_from_le; [reflexivity|lra..].
    + rewrite pfs_from_gt by lra. apply IH; [exact Hi2|]. rewrite lastx_cons in Hs. lra.
Qed.

(* ---------- C03: clamped is post * min (pre * curve, limit) at every SoC ---------- *)
Notation Rclamped := (@clamped R RNum).
Notation Rpower := (@power_from_soc R RNum).

Lemma power_from_soc_R c s : s <= 1 -> Rpower c s = Rpfs_pts (pts c) s.
Proof. intros H. unfold power_from_soc. cbn [nltb RNum]. rewrite one_1, Rltb_false by exact H. reflexivity. Qed.

Lemma scale_incr k l : incr l -> incr (Rscale k l).
Proof. induction l as [|p [|q l] IH]; cbn; auto. intros [H1 H2]. split; [exact H1|]. apply IH, H2. Qed.
Lemma scale_nondec k l : nondec l -> nondec (Rscale k l).
Proof. induction l as [|p [|q l] IH]; cbn; auto. intros [H1 H2]. split; [exact H1|]. apply IH, H2. Qed.
Lemma scale_lastx k l : lastx (Rscale k l) = lastx l.
Proof. unfold lastx. induction l as [|p [|q l] IH]; cbn; auto. Qed.

Definition wf_curve (c:@curve R) : Prop := wf_pts (pts c).
(* shape of a curve as produced by clamped(): ordered (not necessarily strictly), from 0 to 1 *)
Definition wf_weak (c:@curve R) : Prop :=
  pts c <> [] /\ nondec (pts c) /\ fst (hd (0,0) (pts c)) = 0 /\ lastx (pts c) = 1.

Lemma clamped_unfold c lim pre post p q l : pts c = p::q::l ->
  Rclamped c lim pre post = let! np := Rclamp_secs lim (Rscale pre (p::q::l)) in Rmk_curve (Rscale post np).
Proof. intros H. unfold clamped. rewrite H. reflexivity. Qed.

Lemma clamped_pointwise c lim pre post : wf_curve c ->
  exists c', Rclamped c lim pre post = Ok c' /\ wf_weak c' /\ maxp c' = maxfold (pts c') /\
    forall s, 0 <= s <= 1 -> exists v, Rpower c s = Ok v /\ Rpower c' s = Ok (post * Rmin (pre * v) lim).
Proof.
  intros (Hlen & Hinc & H0 & H1).
  destruct (pts c) as [|p [|q l]] eqn:Hp; cbn in Hlen; try lia.
  rewrite (clamped_unfold c lim pre post p q l Hp).
  set (p' := (fst p, pre * snd p)).
  destruct (clamp_secs_ok lim (Rscale pre (q::l)) p') as (L & HL & Hnd & Hlx & Hev).
  { change (p' :: Rscale pre (q::l)) with (Rscale pre (p::q::l)). apply scale_incr, Hinc. }
  { cbn; congruence. }
  { change (p' :: Rscale pre (q::l)) with (Rscale pre (p::q::l)). rewrite scale_lastx. exact H1. }
  change (Rscale pre (p::q::l)) with (p' :: Rscale pre (q::l)).
  rewrite HL. cbn [bind].
  set (NP := (fst p', Rmin (snd p') lim) :: L) in *.
  assert (Hmk : Rmk_curve (Rscale post NP) = Ok {| pts := Rscale post NP; maxp := maxfold (Rscale post NP) |}).
  { apply mk_curve_nondec.
    - cbn; congruence.
    - apply scale_nondec, Hnd.
    - cbn. exact H0.
    - rewrite scale_lastx. exact Hlx. }
  eexists. split; [exact Hmk|]. split; [|split; [reflexivity|]].
  - repeat split; cbn [pts]; [cbn; congruence | apply scale_nondec, Hnd | cbn; exact H0 | rewrite scale_lastx; exact Hlx].
  - intros s Hs. rewrite !power_from_soc_R by lra. cbn [pts]. rewrite Hp. cbn in H0.
    destruct (Rle_dec s (fst p)) as [Hle|Hgt].
    + exists (snd p). split; [apply pfs_pts_le; exact Hle|]. unfold NP. cbn [scale_pts map fst snd].
      rewrite pfs_pts_le by (cbn; exact Hle). reflexivity.
    + destruct (Hev s) as (v & Hv1 & Hv2); [cbn; lra|].
      assert (Hv0 : exists v0, Rpfs_from p (q::l) s = Ok v0).
      { apply pfs_from_total; [exact Hinc| lra]. }
      destruct Hv0 as (v0 & Hv0). exists v0. split; [rewrite pfs_pts_gt by lra; exact Hv0|].
      pose proof (pfs_from_scale pre (q::l) p s v0 Hv0) as Hsc. fold p' in Hsc.
      assert (v = pre * v0) by congruence. subst v.
      apply (pfs_pts_scale post). unfold NP. rewrite pfs_pts_gt by (cbn; lra). exact Hv2.
Qed.

(* ---------- statements exported to props/C03.v ---------- *)
Lemma lookup_is_lerp c s i p q : incr (pts c) -> s <= 1 ->
  nth_error (pts c) i = Some p -> nth_error (pts c) (S i) = Some q -> fst p <= s <= fst q ->
  Rpower c s = Ok (lerp p q s).
Proof. intros Hi Hs Hp Hq Hb. rewrite power_from_soc_R by exact Hs. eapply pfs_lookup; eauto. Qed.

Lemma lookup_at_point c i p : wf_curve c -> nth_error (pts c) i = Some p -> Rpower c (fst p) = Ok (snd p).
Proof.
  intros (Hlen & Hinc & H0 & H1) Hp.
  assert (Hle1 : fst p <= 1).
  { rewrite <- H1. clear - Hinc Hp. revert i Hinc Hp. induction (pts c) as [|a l IH]; intros i Hinc Hp; [destruct i; discriminate|].
    destruct i; cbn in Hp.
    - injection Hp as <-. apply incr_lastx_ge, Hinc.
    - destruct l as [|b l]; [destruct i; discriminate|]. rewrite lastx_cons. apply (IH i); [cbn in Hinc; tauto|exact Hp]. }
  destruct i as [|i].
  - destruct (pts c) as [|a l] eqn:E; [discriminate|]. cbn in Hp. injection Hp as <-.
    rewrite power_from_soc_R, E by exact Hle1. apply pfs_pts_le. lra.
  - destruct (nth_error (pts c) i) as [p0|] eqn:E0.
    + rewrite (lookup_is_lerp c (fst p) i p0 p Hinc Hle1 E0 Hp).
      * f_equal. unfold lerp.
        assert (fst p0 < fst p).
        { clear - Hinc E0 Hp. revert i Hinc E0 Hp. induction (pts c) as [|a l IH]; intros i Hinc E0 Hp; [destruct i; discriminate|].
          destruct i; cbn in E0, Hp.
          - injection E0 as <-. destruct l; [discriminate|]. cbn in Hp. injection Hp as <-. cbn in Hinc. tauto.
          - destruct l as [|b l]; [destruct i; discriminate|]. apply (IH i); [cbn in Hinc; tauto| exact E0 | exact Hp]. }
        unfold Rdiv. rewrite Rinv_r by lra. ring.
      * assert (fst p0 < fst p).
        { clear - Hinc E0 Hp. revert i Hinc E0 Hp. induction (pts c) as [|a l IH]; intros i Hinc E0 Hp; [destruct i; discriminate|].
          destruct i; cbn in E0, Hp.
          - injection E0 as <-. destruct l; [discriminate|]. cbn in Hp. injection Hp as <-. cbn in Hinc. tauto.
          - destruct l as [|b l]; [destruct i; discriminate|]. apply (IH i); [cbn in Hinc; tauto| exact E0 | exact Hp]. }
        lra.
    + exfalso. apply nth_error_None in E0. assert (nth_error (pts c) (S i) <> None) by congruence.
      apply nth_error_Some in H. lia.
Qed.

Lemma lookup_total c s : wf_curve c -> 0 <= s <= 1 -> exists v, Rpower c s = Ok v.
Proof.
  intros (Hlen & Hinc & H0 & H1) Hs. rewrite power_from_soc_R by lra.
  destruct (pts c) as [|p l]; cbn in Hlen; [lia|]. cbn in H0.
  destruct (Rle_dec s (fst p)); [eexists; apply pfs_pts_le; lra|].
  rewrite pfs_pts_gt by lra. apply pfs_from_total; [exact Hinc|lra].
Qed.

Lemma lookup_between c s v lo hi : wf_curve c -> 0 <= s <= 1 ->
  Forall (fun p => lo <= snd p <= hi) (pts c) -> Rpower c s = Ok v -> lo <= v <= hi.
Proof.
  intros (Hlen & Hinc & H0 & H1) Hs HF. rewrite power_from_soc_R by lra.
  destruct (pts c) as [|p l]; cbn in Hlen; [lia|]. cbn in H0.
  destruct (Rle_dec s (fst p)).
  - rewrite pfs_pts_le by lra. intros H; injection H as <-. inversion HF; subst; lra.
  - rewrite pfs_pts_gt by lra. apply pfs_from_between; auto. lra.
Qed.

(* constructor: max_power is the maximum over the points (powers >= 0) *)
Lemma mk_curve_fields l c : Rmk_curve l = Ok c -> pts c = Rsortpts l /\ maxp c = maxfold (pts c).
Proof.
  unfold mk_curve. destruct (Rsortpts l) as [|p0 r] eqn:E; [discriminate|].
  destruct (negb _); [discriminate|]. destruct (negb _); [discriminate|].
  intros H; injection H as <-. cbn. auto.
Qed.

Lemma max_power_is_max c : pts c <> [] -> maxp c = maxfold (pts c) -> nonneg (pts c) ->
  Forall (fun p => snd p <= maxp c) (pts c) /\ In (maxp c) (map snd (pts c)).
Proof. intros Hne Hm Hnn. rewrite Hm. apply maxfold_max; auto. Qed.

Lemma max_power_bounds_curve c s v : wf_curve c -> maxp c = maxfold (pts c) -> nonneg (pts c) ->
  0 <= s <= 1 -> Rpower c s = Ok v -> 0 <= v <= maxp c.
Proof.
  intros Hwf Hm Hnn Hs Hv. apply (lookup_between c s v 0 (maxp c) Hwf Hs); [|exact Hv].
  assert (Hne : pts c <> []) by (destruct Hwf as (Hl & _); destruct (pts c); cbn in Hl; [lia|congruence]).
  destruct (max_power_is_max c Hne Hm Hnn) as [HF _].
  unfold nonneg in Hnn. rewrite Forall_forall in *. intros p Hp. split; [apply Hnn, Hp | apply HF, Hp].
Qed.

(* default discharge curve = factor * charging curve, 0 < factor <= 1 *)
Notation Rdefault_discharge := (@default_discharge R RNum).
Lemma default_discharge_scaled c f : wf_curve c -> maxp c = maxfold (pts c) -> nonneg (pts c) -> 0 < f <= 1 ->
  exists c', Rdefault_discharge c f = Ok c' /\ wf_weak c' /\
    forall s, 0 <= s <= 1 -> exists v, Rpower c s = Ok v /\ Rpower c' s = Ok (f * v).
Proof.
  intros Hwf Hm Hnn Hf. unfold default_discharge.
  destruct (clamped_pointwise c (maxp c) f (@one R RNum) Hwf) as (c' & Hc & Hw & _ & Hev).
  exists c'. split; [exact Hc|]. split; [exact Hw|].
  intros s Hs. destruct (Hev s Hs) as (v & Hv1 & Hv2). exists v. split; [exact Hv1|].
  rewrite Hv2. rewrite one_1. f_equal.
  pose proof (max_power_bounds_curve c s v Hwf Hm Hnn Hs Hv1) as Hb.
  rewrite Rmin_left by nra. ring.
Qed.

(* general form, any positive factor: the curve is additionally capped at max_power *)
Lemma default_discharge_general c f : wf_curve c ->
  exists c', Rdefault_discharge c f = Ok c' /\
    forall s, 0 <= s <= 1 -> exists v, Rpower c s = Ok v /\ Rpower c' s = Ok (Rmin (f * v) (maxp c)).
Proof.
  intros Hwf. unfold default_discharge.
  destruct (clamped_pointwise c (maxp c) f (@one R RNum) Hwf) as (c' & Hc & Hw & _ & Hev).
  exists c'. split; [exact Hc|]. intros s Hs. destruct (Hev s Hs) as (v & Hv1 & Hv2). exists v. split; [exact Hv1|].
  rewrite Hv2, one_1. f_equal. ring.
Qed.
