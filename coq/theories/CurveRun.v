(* CurveRun.v — executable comparison of the Curve model (Q instance) with recorded
   implementation results.  Used by the correspondence harness only. *)
From Coq Require Import ZArith QArith List Bool.
From SV Require Import Num Curve.
Import ListNotations.

Inductive cop := OLookup (s:Q) | OClamp (lim pre post:Q) (ss:list Q) | OSecb (s:Q) | OV2G (factor:Q) (ss:list Q).
Inductive cres := RVal (r:res Q) | RCurve (r:res (list (Q*Q) * Q * list (res Q))) | RSec (r:res (nat*nat)).
Record ccase := { cc_pts : list (Q*Q); cc_ops : list cop; cc_exp : list cres }.

Definition same_err (a b:err) := match a,b with AssertFail _, AssertFail _ => true | ZeroDiv,ZeroDiv => true
  | ValueErr,ValueErr => true | IndexErr,IndexErr => true | Overflow,Overflow => true
  | RuntimeErr,RuntimeErr => true | KeyErr,KeyErr => true | TypeErr,TypeErr => true | GenericErr,GenericErr => true | _,_ => false end.
Definition same_rq (a b:res Q) := match a,b with Ok x, Ok y => Qeq_bool x y | Err e, Err e' => same_err e e' | _,_ => false end.
Fixpoint all2 {A} (f:A->A->bool) (a b:list A) := match a,b with [],[] => true | x::r,y::s => f x y && all2 f r s | _,_ => false end.
Definition same_pt (a b:Q*Q) := Qeq_bool (fst a) (fst b) && Qeq_bool (snd a) (snd b).
Definition same_cres (a b:cres) := match a,b with
  | RVal x, RVal y => same_rq x y
  | RCurve (Ok (p,m,v)), RCurve (Ok (p',m',v')) => all2 same_pt p p' && Qeq_bool m m' && all2 same_rq v v'
  | RCurve (Err e), RCurve (Err e') => same_err e e'
  | RSec (Ok (a,b)), RSec (Ok (a',b')) => Nat.eqb a a' && Nat.eqb b b'
  | RSec (Err e), RSec (Err e') => same_err e e'
  | _,_ => false end.

Definition N0 := QNum0.
Definition probe (c:@curve Q) (ss:list Q) := map (fun s => @power_from_soc Q N0 c s) ss.
Definition run_cop (c:@curve Q) (o:cop) : cres := match o with
  | OLookup s => RVal (@power_from_soc Q N0 c s)
  | OClamp lim pre post ss => RCurve (match @clamped Q N0 c lim pre post with
       | Ok c' => Ok (pts c', maxp c', probe c' ss) | Err e => Err e end)
  | OSecb s => RSec (@section_boundary Q N0 c s)
  | OV2G f ss => RCurve (match @default_discharge Q N0 c f with
       | Ok c' => Ok (pts c', maxp c', probe c' ss) | Err e => Err e end)
  end.
Definition run_ccase (k:ccase) : list cres := match @mk_curve Q N0 (cc_pts k) with
  | Ok c => RCurve (Ok (pts c, maxp c, [])) :: map (run_cop c) (cc_ops k)
  | Err e => [RCurve (Err e)] end.
Fixpoint failing (i:nat) (cs:list ccase) : list nat := match cs with [] => []
  | c::r => if all2 same_cres (run_ccase c) (cc_exp c) then failing (S i) r else i :: failing (S i) r end.

(* branch tag of a case, measured by the model: number of points of clamped results
   that differ from the input length (i.e. crossings were inserted) + 1 if any error *)
Definition tag_cres (n:nat) (r:cres) : nat := match r with
  | RCurve (Ok (p,_,_)) => if Nat.eqb (length p) n then 0 else 1
  | RCurve (Err _) | RVal (Err _) | RSec (Err _) => 2
  | _ => 0 end.
Definition tag (k:ccase) : nat := fold_left Nat.max (map (tag_cres (length (cc_pts k))) (run_ccase k)) 0%nat.
