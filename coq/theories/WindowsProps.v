(* WindowsProps.v — theorems for property C15 (axiom-free). *)
From Coq Require Import ZArith List Bool Lia.
From SV Require Import Windows.
Import ListNotations.
Open Scope Z_scope.

Definition in_win_spec (t:Z) (w:Z*Z) : Prop :=
  (snd w < fst w /\ (fst w <= t \/ t < snd w)) \/ (fst w <= snd w /\ fst w <= t < snd w).
Lemma in_win_iff t w : in_win t w = true <-> in_win_spec t w.
Proof. unfold in_win, in_win_spec. destruct (snd w <? fst w) eqn:E;
  rewrite ?orb_true_iff, ?andb_true_iff, ?Z.leb_le, ?Z.ltb_lt; [apply Z.ltb_lt in E|apply Z.ltb_ge in E]; lia. Qed.

Definition covers (s:season) (day:Z) : Prop := s_first s <= day <= s_last s.
(* [s] is the first season of the list that contains the date *)
Inductive first_season (day:Z) : list season -> season -> Prop :=
  | fs_here s r : covers s day -> first_season day (s::r) s
  | fs_later s r s' : ~ covers s day -> first_season day r s' -> first_season day (s::r) s'.

Lemma within_window_iff day t seasons lvl :
  within_window day t seasons lvl = true <->
  exists s w, first_season day seasons s /\ In w (wins_of lvl (s_wins s)) /\ in_win_spec t w.
Proof.
  induction seasons as [|s r IH]; cbn.
  - split; [discriminate|]. intros (s & w & H & _). inversion H.
  - destruct ((s_first s <=? day) && (day <=? s_last s)) eqn:E.
    + apply andb_true_iff in E. rewrite !Z.leb_le in E. rewrite existsb_exists. split.
      * intros (w & Hw & Hi). exists s, w. split; [constructor; exact E|]. split; [exact Hw|apply in_win_iff, Hi].
      * intros (s' & w & Hf & Hw & Hi). inversion Hf; subst.
        -- exists w. split; [exact Hw|apply in_win_iff, Hi].
        -- exfalso. unfold covers in *. lia.
    + apply andb_false_iff in E. rewrite !Z.leb_gt in E. rewrite IH. split.
      * intros (s' & w & Hf & H). exists s', w. split; [|exact H]. apply fs_later; [unfold covers; lia|exact Hf].
      * intros (s' & w & Hf & H). inversion Hf; subst; [unfold covers in *; lia|]. exists s', w. split; auto.
Qed.

Lemma no_season_no_window day t seasons lvl :
  (forall s, In s seasons -> ~ covers s day) -> within_window day t seasons lvl = false.
Proof.
  induction seasons as [|s r IH]; intros H; cbn; [reflexivity|].
  assert (~ covers s day) by (apply H; left; reflexivity). unfold covers in *.
  destruct ((s_first s <=? day) && (day <=? s_last s)) eqn:E.
  - apply andb_true_iff in E. rewrite !Z.leb_le in E. lia.
  - apply IH. intros s' Hs'. apply H. right; exact Hs'.
Qed.

Definition in_core_win_spec (t:Z) (w:Z*Z) : Prop :=
  (snd w < fst w /\ (fst w <= t \/ t < snd w)) \/ (fst w <= snd w /\ fst w <= t <= snd w).
Lemma in_core_win_iff t w : in_core_win t w = true <-> in_core_win_spec t w.
Proof. unfold in_core_win, in_core_win_spec. destruct (snd w <? fst w) eqn:E;
  rewrite ?orb_true_iff, ?andb_true_iff, ?Z.leb_le, ?Z.ltb_lt; [apply Z.ltb_lt in E|apply Z.ltb_ge in E]; lia. Qed.

Lemma within_core_iff ts c : within_core ts c = true <->
  match c with None => True
  | Some c => In (weekday ts) (c_nodrive c) \/ In (ordinal ts) (c_holidays c)
              \/ exists w, In w (c_times c) /\ in_core_win_spec (tod ts) w end.
Proof.
  destruct c as [c|]; cbn; [|tauto].
  rewrite !orb_true_iff, !existsb_exists. split.
  - intros [[(x & Hx & E)|(x & Hx & E)]|(w & Hw & E)].
    + apply Z.eqb_eq in E. subst x. auto.
    + apply Z.eqb_eq in E. subst x. auto.
    + right; right. exists w. split; [exact Hw|apply in_core_win_iff, E].
  - intros [H|[H|(w & Hw & E)]].
    + left; left. exists (weekday ts). split; [exact H|apply Z.eqb_refl].
    + left; right. exists (ordinal ts). split; [exact H|apply Z.eqb_refl].
    + right. exists w. split; [exact Hw|apply in_core_win_iff, E].
Qed.

(* the property text says "before the configured end"; the code includes the end instant
   of a non-wrapping window (pinned by tests/test_util.py): *)
Definition half_open_core (t:Z) (w:Z*Z) : Prop :=
  (snd w < fst w /\ (fst w <= t \/ t < snd w)) \/ (fst w <= snd w /\ fst w <= t < snd w).
Lemma core_halfopen_refuted : exists t w, in_core_win t w = true /\ ~ half_open_core t w.
Proof. exists 13, (10,13). split; [reflexivity|]. unfold half_open_core; cbn. lia. Qed.
Lemma core_halfopen_elsewhere t w : t <> snd w \/ snd w < fst w -> (in_core_win t w = true <-> half_open_core t w).
Proof. intros H. rewrite in_core_win_iff. unfold in_core_win_spec, half_open_core. lia. Qed.

(* ---------- series ---------- *)
Lemma Z2Nat_neg z : z < 0 -> Z.to_nat z = 0%nat.
Proof. destruct z; cbn; lia. Qed.
Lemma series_loop_spec seasons lvl delta stop : 0 < delta -> forall fuel cur,
  (stop - cur + delta - 1) / delta <= Z.of_nat fuel ->
  exists l, series_loop fuel cur stop delta seasons lvl = Some l /\
    Z.of_nat (length l) = Z.max 0 ((stop - cur + delta - 1) / delta) /\
    forall k, (k < length l)%nat -> nth_error l k = Some (dt_within_window (cur + Z.of_nat k * delta) seasons lvl).
Proof.
  intros Hd. induction fuel as [|f IH]; intros cur Hf.
  - cbn. destruct (cur <? stop) eqn:E.
    + apply Z.ltb_lt in E. exfalso.
      assert (1 <= (stop - cur + delta - 1) / delta). { apply Z.div_le_lower_bound; lia. } lia.
    + apply Z.ltb_ge in E. exists []. split; [reflexivity|]. split; [|intros k Hk; cbn in Hk; lia].
      cbn. assert ((stop - cur + delta - 1) / delta <= 0). { apply Z.lt_succ_r. apply Z.div_lt_upper_bound; lia. } lia.
  - cbn [series_loop]. destruct (cur <? stop) eqn:E.
    + apply Z.ltb_lt in E.
      assert (Hstep : (stop - cur + delta - 1) / delta = (stop - (cur + delta) + delta - 1) / delta + 1).
      { replace (stop - cur + delta - 1) with ((stop - (cur + delta) + delta - 1) + 1 * delta) by lia.
        rewrite Z.div_add by lia. reflexivity. }
      destruct (IH (cur + delta)) as (l & Hl & Hlen & Hnth); [lia|].
      rewrite Hl. eexists. split; [reflexivity|]. split.
      * cbn [length]. rewrite Nat2Z.inj_succ, Hlen, Hstep.
        assert (0 <= (stop - (cur + delta) + delta - 1) / delta). { apply Z.div_pos; lia. } lia.
      * intros [|k] Hk; cbn [nth_error].
        -- f_equal. f_equal. lia.
        -- cbn in Hk. rewrite Hnth by lia. f_equal. f_equal. lia.
    + apply Z.ltb_ge in E. exists []. split; [reflexivity|]. split; [|intros k Hk; cbn in Hk; lia].
      cbn. assert ((stop - cur + delta - 1) / delta <= 0). { apply Z.lt_succ_r. apply Z.div_lt_upper_bound; lia. } lia.
Qed.

Lemma window_series_spec start stop delta seasons lvl : 0 < delta ->
  exists l, window_series start stop delta seasons lvl = Some l /\
    Z.of_nat (length l) = Z.max 0 (steps_between start stop delta) /\
    forall k, (k < length l)%nat -> nth_error l k = Some (dt_within_window (start + Z.of_nat k * delta) seasons lvl).
Proof.
  intros Hd. unfold window_series, steps_between. apply series_loop_spec; [exact Hd|].
  destruct (Z.le_gt_cases 0 ((stop - start + delta - 1) / delta)); [rewrite Z2Nat.id; lia|].
  rewrite Z2Nat_neg by lia. cbn. lia.
Qed.
