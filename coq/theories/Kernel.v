(* Kernel.v — small pure kernels every strategy acts through: util.clamp_power, util.get_cost,
   Strategy.apply_battery_losses (one battery), GridConnector.add_load / get_current_load,
   the GridOperatorSignal limit rule of Strategy.step.  Generic in Num. *)
From Coq Require Import ZArith QArith List Bool String Lia.
From SV Require Import Num.
Import ListNotations.

Section Model.
Context {T} {N: Num T}.
Local Infix "+" := nadd. Local Infix "-" := nsub. Local Infix "*" := nmul.
Local Infix "<=?" := nleb. Local Infix "<?" := nltb.

(* clamp_power(power, vehicle, cs) *)
Definition clamp_power (power cs_cur cs_max cs_min veh_min:T) : T :=
  let total := nmin (cs_cur + power) cs_max in
  if (total <? cs_min) || (total <? veh_min) then zero
  else nmax (nmin power (cs_max - cs_cur)) zero.

(* get_cost(x, cost_dict) *)
Inductive cost := CFixed (v:T) | CPoly (coeffs:list T) | CNone.   (* CNone: empty dict -> KeyError("type") *)
Definition get_cost (x:T) (c:cost) : res T := match c with
  | CFixed v => Ok (v * x)
  | CPoly cs => Ok (fst (fold_left (fun '(cst, base) coeff => (cst + coeff * base, base * x)) cs (zero, one)))
  | CNone => Err KeyErr end.

(* apply_battery_losses for one battery with loss_rate {relative, fixed_relative, fixed_absolute} *)
Definition hundred : T := nofQ 100.
Definition apply_losses (soc cap rel fixrel fixabs:T) : res T :=
  let! r := ndiv rel hundred in
  let s1 := soc * (one - r) in
  let! f := ndiv fixrel hundred in
  let s2 := s1 - f in
  let! a := ndiv fixabs cap in
  let s3 := s2 - a in
  Ok (nmax s3 zero).

(* GridOperatorSignal: if connector.max_power: if ev.max_power is not None: cur = min(max_power, ev.max_power)
                        else: cur = ev.max_power *)
Definition apply_limit (rating:T) (cur:option T) (ev_max:option T) : option T :=
  if neqb rating zero then ev_max
  else match ev_max with Some m => Some (nmin rating m) | None => cur end.
End Model.
