(* StratSum.v — booking a load at a connector changes the connector total by exactly the booked power (property C06),
   R instance. *)
From Coq Require Import ZArith QArith Qreals Reals List Bool Lra String.
From SV Require Import Num RNum Curve Battery Kernel Strat.
Import ListNotations.
Open Scope R_scope.

Notation Rgcon := (@gcon R).
Definition sumloads (l:list (string*R)) : R := fold_right (fun kv a => snd kv + a) 0 l.

Lemma fold_left_sum (l:list (string*R)) a : fold_left (fun a kv => @nadd R RNum a (snd kv)) l a = a + sumloads l.
Proof. unfold sumloads. revert a. induction l as [|kv l IH]; intros a; cbn [fold_left fold_right]; [lra|]. rewrite IH. cbn [nadd RNum]. lra. Qed.
Lemma current_load_sum (g:Rgcon) : @current_load R RNum g = sumloads (gc_loads g).
Proof. unfold current_load. rewrite fold_left_sum, zero_0. lra. Qed.

(* dict semantics: keys are unique *)
Fixpoint nodup_keys (l:list (string*R)) : Prop := match l with
  | [] => True | (k,_)::r => Strat.lookup k r = None /\ nodup_keys r end.

Lemma sum_assign_new k v (l:list (string*R)) : Strat.lookup k l = None -> sumloads (Strat.assign k v l) = sumloads l + v.
Proof.
  unfold sumloads. induction l as [|[k2 v2] r IH]; cbn; intros H; [lra|].
  destruct (String.eqb k k2) eqn:E; [discriminate|]. cbn. rewrite IH by exact H. lra.
Qed.
Lemma sum_assign_old k v old (l:list (string*R)) : Strat.lookup k l = Some old -> sumloads (Strat.assign k v l) = sumloads l - old + v.
Proof.
  unfold sumloads. induction l as [|[k2 v2] r IH]; cbn; intros H; [discriminate|].
  destruct (String.eqb k k2) eqn:E; cbn.
  - injection H as ->. lra.
  - rewrite IH by exact H. lra.
Qed.

(* GridConnector.add_load(key, value): the connector's total rises by exactly [value], whether the key is new or not *)
Theorem add_load_total (g:Rgcon) k v : @current_load R RNum (fst (@add_load R RNum g k v)) = @current_load R RNum g + v.
Proof.
  rewrite !current_load_sum. unfold add_load. cbn [fst gc_loads].
  destruct (Strat.lookup k (gc_loads g)) as [old|] eqn:E.
  - rewrite (sum_assign_old k _ old) by exact E. cbn. lra.
  - rewrite sum_assign_new by exact E. lra.
Qed.
(* and the returned value is the station's new total *)
Theorem add_load_value (g:Rgcon) k v :
  snd (@add_load R RNum g k v) = match Strat.lookup k (gc_loads g) with Some old => old + v | None => v end.
Proof. unfold add_load. destruct (Strat.lookup k (gc_loads g)); reflexivity. Qed.
