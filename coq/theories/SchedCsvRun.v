From Coq Require Import ZArith QArith List Bool.
From SV Require Import SchedCsv.
Import ListNotations.
Open Scope Z_scope.
Record scsv := { sv_start0 : Z; sv_nveh : nat; sv_rows : list row; sv_exp : option (list sev) }.
Definition eqsev (a b:sev) : bool := match a, b with
  | SGc s g t w, SGc s' g' t' w' => Z.eqb s s' && Z.eqb g g' && Qeq_bool t t' && eqow w w'
  | SVeh s g i v, SVeh s' g' i' v' => Z.eqb s s' && Z.eqb g g' && Nat.eqb i i' && Qeq_bool v v'
  | _, _ => false end.
Fixpoint all2e (a b:list sev) : bool := match a,b with [],[] => true | x::r,y::s => eqsev x y && all2e r s | _,_ => false end.
Definition run_scsv (c:scsv) := schedule_events (sv_start0 c) (sv_nveh c) (sv_rows c).
Definition ok (c:scsv) : bool := match run_scsv c, sv_exp c with Some a, Some b => all2e a b | None, None => true | _,_ => false end.
Fixpoint failing (i:nat) (cs:list scsv) : list nat := match cs with [] => [] | c::r => if ok c then failing (S i) r else i :: failing (S i) r end.
Definition tag (c:scsv) : nat := match run_scsv c with None => 2%nat | Some l => if Nat.ltb (length l) (length (sv_rows c)) then 1%nat else 0%nat end.
