(* CostsProps.v — theorems about the Costs model on R (property C12). *)
From Coq Require Import ZArith QArith Qreals Reals List Bool Lia Lra Psatz.
From SV Require Import Num RNum Costs.
Import ListNotations.
Open Scope R_scope.

Notation Rfind := (@find_prices R RNum).
Notation Rcosts := (@calculate_costs R RNum).
Notation Rsheet := (@sheet R).

Lemma c100000_R : @c100000 R RNum = 100000. Proof. unfold c100000; cbn. unfold Q2R; cbn. lra. Qed.
Lemma c2500_R : @c2500 R RNum = 2500. Proof. unfold c2500; cbn. unfold Q2R; cbn. lra. Qed.
Lemma c100_R : @c100 R RNum = 100. Proof. unfold c100; cbn. unfold Q2R; cbn. lra. Qed.
Lemma c3600_R : @c3600 R RNum = 3600. Proof. unfold c3600; cbn. unfold Q2R; cbn. lra. Qed.

(* ---------- tariff class and utilisation bracket ---------- *)
Definition fee_of (r:R*R*fee) : fee := snd r.
Lemma tariff_class (sh:Rsheet) ft util e :
  let f := fee_of (Rfind sh ft util e) in
  (ft = Some RLM -> f = RLM) /\
  (ft <> Some RLM -> (f = SLP <-> Rabs e <= 100000)).
Proof.
  unfold find_prices, fee_of. cbn [nleb RNum]. rewrite nabs_R, c100000_R.
  destruct (Rleb (Rabs e) 100000) eqn:E; [apply Rleb_t in E|apply Rleb_f in E].
  - destruct ft as [[|]|]; cbn.
    + split; [discriminate|]. intros _. split; auto.
    + split; [intros _|congruence]. cbn [nltb RNum]. destruct (Rltb util _); reflexivity.
    + split; [discriminate|]. intros _. split; auto.
  - destruct ft as [[|]|]; cbn.
    + split; [discriminate|]. intros _. cbn [nltb RNum]. destruct (Rltb util _); cbn; (split; [discriminate|lra]).
    + split; [intros _|congruence]. cbn [nltb RNum]. destruct (Rltb util _); reflexivity.
    + split; [discriminate|]. intros _. cbn [nltb RNum]. destruct (Rltb util _); cbn; (split; [discriminate|lra]).
Qed.

Lemma rlm_bracket (sh:Rsheet) ft util e : fee_of (Rfind sh ft util e) = RLM ->
  (util < 2500 -> Rfind sh ft util e = (lo_commodity sh, lo_capacity sh, RLM)) /\
  (2500 <= util -> Rfind sh ft util e = (hi_commodity sh, hi_capacity sh, RLM)).
Proof.
  unfold find_prices, fee_of. cbn [nleb nltb RNum]. rewrite c2500_R.
  destruct (Rleb (nabs e) c100000); destruct ft as [[|]|]; cbn; try discriminate; intros _;
    (split; intros H; [rewrite Rltb_true by lra|rewrite Rltb_false by lra]; reflexivity).
Qed.
Lemma slp_prices (sh:Rsheet) ft util e : fee_of (Rfind sh ft util e) = SLP ->
  Rfind sh ft util e = (slp_commodity sh, slp_basic sh, SLP).
Proof.
  unfold find_prices, fee_of. cbn [nleb nltb RNum].
  destruct (Rleb (nabs e) c100000); destruct ft as [[|]|]; cbn; intros H; try reflexivity;
    destruct (Rltb util _); cbn in H; try discriminate H; try reflexivity.
Qed.

(* ---------- composition of the result ---------- *)
Definition sumR (l:list R) : R := fold_left Rplus l 0.
Lemma fold_nadd_R (l:list R) a : fold_left (@nadd R RNum) l a = fold_left Rplus l a.
Proof. reflexivity. Qed.

Notation Rfinalize := (@finalize R RNum).

(* the strategy-independent tail of calculate_costs *)
Lemma costs_finalize (sh:Rsheet) inp o : Rcosts sh inp = Ok o ->
  exists e mx pk cpy csim cap f pv, Rfinalize sh inp e mx pk cpy csim cap f pv = Ok o /\
    Rdivr (@nsum R RNum (pos_supply (i_supply inp)) * i_secs inp) c3600 = Ok e /\
    (is_variable (i_cc inp) = false -> pv = None).
Proof.
  intros H. unfold calculate_costs in H.
  destruct (ndiv (nmul (nsum (pos_supply (i_supply inp))) (i_secs inp)) c3600) as [e|] eqn:E; cbn [bind] in H; [|discriminate].
  dres.
  all: eexists _, _, _, _, _, _, _, _; (split; [eassumption|]); (split; [exact E|]).
  all: intros Hv; try reflexivity; try (destruct (i_cc inp); cbn in *; congruence).
Qed.

(* net = commodity + capacity + procurement + additional + levies + concession + electricity tax;
   gross = net*(1+VAT) - feed-in; per year: everything but the capacity/basic charge divided by the year fraction *)
Lemma finalize_composition (sh:Rsheet) inp e mx pk cpy csim cap f pv o : Rfinalize sh inp e mx pk cpy csim cap f pv = Ok o ->
  o_commodity_sim o = csim /\ o_commodity_py o = cpy /\ o_capacity o = cap /\ o_fee o = f /\ o_energy_sim o = e /\
  o_net_sim o = o_commodity_sim o + o_capacity o + o_procurement_sim o + o_additional_sim o
                + sumR (o_levies_sim o) + o_concession_sim o + o_etax_sim o /\
  o_net_py o = (o_net_sim o - o_capacity o) / i_fy inp + o_capacity o /\
  o_vat_sim o = i_vat inp * o_net_sim o /\ o_vat_py o = i_vat inp * o_net_py o /\
  o_total_sim o = o_net_sim o + o_vat_sim o - sumR (o_feedin_sim o) /\
  o_total_py o = o_net_py o + o_vat_py o - sumR (o_feedin_py o) /\
  i_fy inp <> 0 /\
  o_levies_sim o = [eeg sh * e / 100; chp sh * e / 100; indiv sh * e / 100; offshore sh * e / 100; interruptible sh * e / 100] /\
  o_levies_py o = map (fun x => x / i_fy inp) (o_levies_sim o) /\
  o_concession_sim o = concession sh * e / 100 /\ o_concession_py o = o_concession_sim o / i_fy inp /\
  o_etax_sim o = etax sh * e / 100 /\ o_etax_py o = o_etax_sim o / i_fy inp /\
  o_procurement_py o = o_procurement_sim o / i_fy inp /\
  (pv = None -> o_procurement_sim o = procurement sh * e / 100) /\
  o_additional_py o = (match f with RLM => additional sh | SLP => 0 end) /\
  o_additional_sim o = (match f with RLM => i_add_sim inp | SLP => 0 end).
Proof.
  intros H. unfold finalize in H. destruct pv as [pvv|]; dres.
  all: cbn [o_net_sim o_net_py o_vat_sim o_vat_py o_total_sim o_total_py o_commodity_sim o_commodity_py o_capacity o_procurement_sim
            o_additional_sim o_levies_sim o_concession_sim o_etax_sim o_feedin_sim o_feedin_py o_fee o_energy_sim o_levies_py
            o_concession_py o_etax_py o_procurement_py o_additional_py].
  all: cbn [nadd nsub nmul ndiv RNum] in *.
  all: repeat match goal with Hd : Rdivr _ _ = Ok _ |- _ => apply Rdivr_inv in Hd; destruct Hd as [? ?] end.
  all: subst; rewrite ?c100_R in *; unfold sumR; cbn [fold_left map]; rewrite ?zero_0, ?RMicromega.Q2R_0 in *.
  all: repeat split; try assumption; try reflexivity; try (unfold Rdiv; lra); try (intros HH; discriminate HH); try (intros; reflexivity).
Qed.

(* ---------- repetition of a profile ---------- *)
Fixpoint rep {A} (k:nat) (l:list A) : list A := match k with O => [] | S k' => l ++ rep k' l end.

Lemma nsum_R_aux : forall (l:list R) acc, fold_left (@nadd R RNum) l acc = acc + fold_right Rplus 0 l.
Proof. induction l as [|x l IH]; intros acc; cbn; [lra|]. rewrite IH. cbn. lra. Qed.
Lemma nsum_R (l:list R) : @nsum R RNum l = fold_right Rplus 0 l.
Proof. unfold nsum. rewrite nsum_R_aux, zero_0. lra. Qed.
Lemma nsum_app (a b:list R) : @nsum R RNum (a ++ b) = @nsum R RNum a + @nsum R RNum b.
Proof. rewrite !nsum_R. induction a; cbn; lra. Qed.
Lemma nsum_rep k (l:list R) : @nsum R RNum (rep k l) = INR k * @nsum R RNum l.
Proof. induction k as [|k IH]; [cbn [rep]; rewrite nsum_R; cbn; lra|].
  cbn [rep]. rewrite nsum_app, IH, S_INR. lra. Qed.

(* max(l + [0]) is the largest non-negative element: unchanged by repetition *)
Definition maxR0 (l:list R) : R := fold_right Rmax 0 l.
Lemma fold_right_max_init : forall (l:list R) m x, fold_right Rmax (Rmax m x) l = Rmax x (fold_right Rmax m l).
Proof. induction l as [|y l IH]; intros m x; cbn; [apply Rmax_comm|]. rewrite IH. unfold Rmax; repeat destruct Rle_dec; lra. Qed.
Lemma maxl0_aux : forall (l:list R) m, fold_left (fun m x => @nmax R RNum m x) l m = fold_right Rmax m l.
Proof. induction l as [|x l IH]; intros m; cbn; [reflexivity|]. rewrite IH, nmax_R, fold_right_max_init. reflexivity. Qed.
Lemma maxl0_R (l:list R) : @maxl0 R RNum l = maxR0 l.
Proof.
  unfold maxl0, maxR0. rewrite maxl0_aux, zero_0, fold_right_app. cbn [fold_right].
  replace (Rmax 0 0) with 0 by (unfold Rmax; destruct Rle_dec; lra). reflexivity.
Qed.
Lemma maxR0_nonneg l : 0 <= maxR0 l.
Proof. unfold maxR0. induction l as [|x l IH]; cbn; [lra|]. eapply Rle_trans; [exact IH|apply Rmax_r]. Qed.
Lemma maxR0_app a b : maxR0 (a ++ b) = Rmax (maxR0 a) (maxR0 b).
Proof.
  induction a as [|x a IH].
  - cbn [app]. unfold maxR0 at 2. cbn. symmetry. apply Rmax_right. apply maxR0_nonneg.
  - change (maxR0 ((x :: a) ++ b)) with (Rmax x (maxR0 (a ++ b))). change (maxR0 (x :: a)) with (Rmax x (maxR0 a)).
    rewrite IH. apply Rmax_assoc.
Qed.
Lemma maxR0_rep k l : (0 < k)%nat -> maxR0 (rep k l) = maxR0 l.
Proof.
  induction k as [|k IH]; [lia|]. intros _. cbn [rep]. rewrite maxR0_app. destruct k as [|k'].
  - cbn [rep]. unfold maxR0 at 2. cbn. apply Rmax_left. apply maxR0_nonneg.
  - rewrite IH by lia. apply Rmax_left. lra.
Qed.

(* repeating the profile k times: the energy scales with k, the peak stays; with the year fraction scaling
   with k as well, energy per year and utilisation time — hence the tariff class and bracket — are unchanged *)
Lemma repeat_energy_peak k (l:list R) secs fy : (0 < k)%nat -> fy <> 0 ->
  let e := @nsum R RNum l * secs / 3600 in
  let e' := @nsum R RNum (rep k l) * secs / 3600 in
  e' = INR k * e /\ e' / (INR k * fy) = e / fy /\ @maxl0 R RNum (rep k l) = @maxl0 R RNum l.
Proof.
  intros Hk Hfy e e'. unfold e, e'. rewrite nsum_rep, !maxl0_R, maxR0_rep by exact Hk.
  assert (INR k <> 0) by (apply not_0_INR; lia).
  split; [lra|]. split; [field; auto|reflexivity].
Qed.
