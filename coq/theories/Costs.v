(* Costs.v — model of spice_ev/costs.py: find_prices, calculate_commodity_costs,
   calculate_capacity_costs_rlm, calculate_feed_in_remuneration, get_flexible_load and
   calculate_costs for all seven cost schemes.  Generic in Num; returns the UNROUNDED
   components (rounding to 2 places is applied by CostsRun.v for the comparison).
   Inputs computed by the code in floats enter as numbers carrying the double's value:
   [secs] = interval.total_seconds(), [tsh] = secs/3600 as a double (variable pricing only),
   [fy] = len(timestamps)*interval / timedelta(days=365). *)
From Coq Require Import ZArith QArith List Bool Lia.
From SV Require Import Num.
Import ListNotations.

Section Model.
Context {T} {N: Num T}.
Local Infix "+" := nadd. Local Infix "-" := nsub. Local Infix "*" := nmul.
Local Infix "<=?" := nleb. Local Infix "<?" := nltb.

Inductive cctype := FixedWo | FixedW | VarWo | VarW | BalMarket | Schedule | FlexWindow.
Inductive fee := SLP | RLM.
Definition w_plw (c:cctype) : bool := match c with FixedW | VarW => true | _ => false end.
Definition is_fixed (c:cctype) : bool := match c with FixedWo | FixedW => true | _ => false end.
Definition is_variable (c:cctype) : bool := match c with VarWo | VarW => true | _ => false end.

(* the price sheet entries for the chosen grid operator and voltage level *)
Record sheet := {
  slp_basic : T; slp_commodity : T;
  lo_capacity : T; lo_commodity : T;          (* RLM, "<2500_h/a" *)
  hi_capacity : T; hi_commodity : T;          (* RLM, ">=2500_h/a" *)
  additional : T; procurement : T;
  eeg : T; chp : T; indiv : T; offshore : T; interruptible : T;
  concession : T; vat_percent : T; etax : T;
  pv_kwp : list T; pv_rem : list T; v2g_rem : T; bat_rem : T;
  plw_threshold : T; sched_reduction : T; sched_dev_charge : T; sched_dev_tol : T }.

Definition c2500 : T := nofQ 2500.
Definition c100000 : T := nofQ 100000.
Definition c100 : T := nofQ 100.
Definition c3600 : T := nofQ 3600.

Definition nsum (l:list T) : T := fold_left nadd l zero.
Definition maxl0 (l:list T) : T := fold_left (fun m x => nmax m x) (l ++ [zero]) zero.     (* max(l + [0]); values compared, start irrelevant *)
Definition pymax (l:list T) : res T := match l with [] => Err ValueErr | x :: r => Ok (fold_left (fun m y => nmax m y) r x) end.
Definition nth_r (l:list T) (i:nat) : res T := match nth_error l i with Some x => Ok x | None => Err IndexErr end.

(* get_flexible_load: [max(s - fix[i], 0) for i, s in enumerate(supply)] *)
Fixpoint flexible_load (supply fixl:list T) : res (list T) := match supply with
  | [] => Ok []
  | s :: r => match fixl with [] => Err IndexErr
      | f :: fr => let! tl := flexible_load r fr in Ok (nmax (s - f) zero :: tl) end end.

(* find_prices -> (commodity_charge, capacity_charge, fee_type) *)
Definition find_prices (sh:sheet) (ft:option fee) (util energy_pa:T) : T * T * fee :=
  let below := nabs energy_pa <=? c100000 in
  let ft1 := match ft with Some SLP => if below then Some SLP else Some RLM | x => x end in
  let ft2 := match ft1 with Some f => f | None => if below then SLP else RLM end in
  match ft2 with
  | SLP => (slp_commodity sh, slp_basic sh, SLP)
  | RLM => if util <? c2500 then (lo_commodity sh, lo_capacity sh, RLM) else (hi_commodity sh, hi_capacity sh, RLM) end.

(* calculate_commodity_costs -> (per_year, sim) *)
Fixpoint commodity_loop (prices supply:list T) (secs acc:T) : res T := match supply with
  | [] => Ok acc
  | p :: r => match prices with [] => Err IndexErr
      | pr :: prs => let! e := ndiv (p * secs) c3600 in let! c := ndiv (e * pr) c100 in commodity_loop prs r secs (acc + c) end end.
Definition commodity_costs (prices supply:list T) (secs fy:T) : res (T*T) :=
  let! sim := commodity_loop prices supply secs zero in let! py := ndiv sim fy in Ok (py, sim).

(* calculate_feed_in_remuneration -> (per_year, sim) *)
Definition feed_in (charge:T) (l:option (list T)) (secs fy:T) : res (T*T) :=
  let s := match l with Some x => nsum x | None => zero end in
  let! e_sim := ndiv (s * secs) c3600 in
  let! e_py := ndiv e_sim fy in
  let! c_sim := ndiv (e_sim * charge) c100 in
  let! c_py := ndiv (e_py * charge) c100 in Ok (c_py, c_sim).

Record inputs := {
  i_cc : cctype; i_fee : option fee; i_secs : T; i_tsh : T; i_fy : T; i_n : nat;
  i_supply : list T;                 (* as passed: negative = drawn from the grid *)
  i_prices_commodity : option (list T); i_prices_procurement : option (list T);
  i_fix : list T; i_gen : option (list T); i_v2g : option (list T); i_bat : option (list T);
  i_window : option (list bool); i_schedule : option (list T); i_pv_nominal : T;
  (* computed by the code in pure float arithmetic from price-sheet numbers: value_added_tax/100 and
     additional_costs*fraction_year enter with the double's value *)
  i_vat : T; i_add_sim : T }.

Record outputs := {
  o_fee : fee; o_commodity_py : T; o_commodity_sim : T; o_capacity : T;
  o_procurement_py : T; o_procurement_sim : T; o_additional_py : T; o_additional_sim : T;
  o_levies_py : list T; o_levies_sim : list T;       (* eeg, chp, individual, offshore, interruptible *)
  o_concession_py : T; o_concession_sim : T; o_etax_py : T; o_etax_sim : T;
  o_net_py : T; o_net_sim : T; o_vat_py : T; o_vat_sim : T;
  o_feedin_py : list T; o_feedin_sim : list T;       (* pv, v2g, battery *)
  o_total_py : T; o_total_sim : T; o_peak_in_windows : option T;
  o_energy_sim : T; o_max_supply : T }.

Definition replicate (n:nat) (x:T) : list T := repeat x n.
(* power_grid_supply_list = [max(-v, 0) for v in power_grid_supply_list] *)
Definition pos_supply (l:list T) : list T := map (fun v => nmax (nneg v) zero) l.
Definition pos_part (l:list T) : list T := map (fun v => nmax v zero) l.

(* fixed-load part shared by balanced_market / flex_window / schedule *)
Definition fixed_part (sh:sheet) (ft:option fee) (fixl:list T) (secs fy:T) (reduction:T) : res (T*T*T*option fee) :=
  let mx := maxl0 fixl in
  if neqb mx zero then Ok (zero, zero, zero, ft) else
  let! e_sim := ndiv (nsum fixl * secs) c3600 in
  let! e_py := ndiv e_sim fy in
  let! u0 := ndiv e_py mx in
  let '(com, cap, f) := find_prices sh ft (nabs u0) e_py in
  let com := com - reduction in
  let! (py, sim) := commodity_costs (replicate (length fixl) com) fixl secs fy in
  Ok (py, sim, cap * mx, Some f).

(* costs not related to strategies, taxes, totals *)
Definition finalize (sh:sheet) (inp:inputs) (energy_sim max_supply:T) (peak_out:option T)
                    (com_py com_sim cap:T) (fee2:fee) (proc_var:option T) : res outputs :=
  let secs := i_secs inp in let fy := i_fy inp in
  let add_py := match fee2 with RLM => additional sh | SLP => zero end in
  let add_sim := match fee2 with RLM => i_add_sim inp | SLP => zero end in
  let per100 (rate:T) : res T := ndiv (rate * energy_sim) c100 in
  let! proc_sim := match proc_var with Some p => Ok p | None => per100 (procurement sh) end in
  let! proc_py := ndiv proc_sim fy in
  let rates := [eeg sh; chp sh; indiv sh; offshore sh; interruptible sh] in
  let! lev_sim := (fix go (l:list T) : res (list T) := match l with [] => Ok [] | r :: t => let! x := per100 r in let! tl := go t in Ok (x :: tl) end) rates in
  let! lev_py := (fix go (l:list T) : res (list T) := match l with [] => Ok [] | x :: t => let! y := ndiv x fy in let! tl := go t in Ok (y :: tl) end) lev_sim in
  let lev_total_sim := fold_left nadd lev_sim zero in      (* eeg + chp + individual + offshore + interruptible *)
  let! con_sim := per100 (concession sh) in let! con_py := ndiv con_sim fy in
  (* feed-in remuneration *)
  let! pv_charge :=
    (if neqb (i_pv_nominal inp) zero then Ok zero else
     match pv_kwp sh, pv_rem sh with
     | [k0;k1;k2], [r0;r1;r2] => if i_pv_nominal inp <=? k0 then Ok r0 else if i_pv_nominal inp <=? k1 then Ok r1
                                 else if i_pv_nominal inp <=? k2 then Ok r2 else Err ValueErr
     | _, _ => Err IndexErr end) in
  let! (pv_py, pv_sim) := feed_in pv_charge (i_gen inp) secs fy in
  let! (v2g_py, v2g_sim) := feed_in (v2g_rem sh) (i_v2g inp) secs fy in
  let! (bat_py, bat_sim) := feed_in (bat_rem sh) (i_bat inp) secs fy in
  let! tax_sim := per100 (etax sh) in let! tax_py := ndiv tax_sim fy in
  let vat := i_vat inp in
  let net_sim := com_sim + cap + proc_sim + add_sim + lev_total_sim + con_sim + tax_sim in
  let! net_py0 := ndiv (net_sim - cap) fy in
  let net_py := net_py0 + cap in
  let vat_sim := vat * net_sim in let vat_py := vat * net_py in
  let gross_sim := net_sim + vat_sim in let gross_py := net_py + vat_py in
  Ok {| o_fee := fee2; o_commodity_py := com_py; o_commodity_sim := com_sim; o_capacity := cap;
        o_procurement_py := proc_py; o_procurement_sim := proc_sim; o_additional_py := add_py; o_additional_sim := add_sim;
        o_levies_py := lev_py; o_levies_sim := lev_sim; o_concession_py := con_py; o_concession_sim := con_sim;
        o_etax_py := tax_py; o_etax_sim := tax_sim; o_net_py := net_py; o_net_sim := net_sim;
        o_vat_py := vat_py; o_vat_sim := vat_sim; o_feedin_py := [pv_py; v2g_py; bat_py]; o_feedin_sim := [pv_sim; v2g_sim; bat_sim];
        o_total_py := gross_py - pv_py - v2g_py - bat_py; o_total_sim := gross_sim - pv_sim - v2g_sim - bat_sim;
        o_peak_in_windows := peak_out; o_energy_sim := energy_sim; o_max_supply := max_supply |}.

Definition calculate_costs (sh:sheet) (inp:inputs) : res outputs :=
  let secs := i_secs inp in let fy := i_fy inp in let cc := i_cc inp in
  let supply := pos_supply (i_supply inp) in
  let fixl := pos_part (i_fix inp) in
  let peak_w := match i_window inp with
     | Some w => Some (maxl0 (map fst (filter (fun lw => snd lw) (combine supply w)))) | None => None end in
  let! energy_sim := ndiv (nsum supply * secs) c3600 in
  let! energy_pa := ndiv energy_sim fy in
  let max_supply := maxl0 supply in
  let! util := (if neqb max_supply zero then Ok zero
                else if w_plw cc then Ok c2500
                else let! u := ndiv energy_pa max_supply in Ok (nabs u)) in
  let '(com_charge, cap_charge, fee1) := find_prices sh (i_fee inp) util energy_pa in
  (* commodity (and, for variable pricing, procurement) costs *)
  let! (com_py, com_sim, proc_var) :=
    (if is_fixed cc then
       let! (py, sim) := commodity_costs (replicate (length supply) com_charge) supply secs fy in Ok (py, sim, None)
     else if is_variable cc then
       match i_prices_procurement inp, i_prices_commodity inp with
       | None, None => Err ValueErr
       | pp, pc =>
         let ppl := match pp with Some l => l | None => replicate (i_n inp) (procurement sh) end in
         let pcl := match pc with Some l => l | None => replicate (i_n inp) com_charge end in
         let fix go (sup pcs pps:list T) (ac ap:T) : res (T*T) := match sup with
           | [] => Ok (ac, ap)
           | p :: r => match pcs, pps with
               | c :: cs, q :: qs =>
                   let e := p * i_tsh inp in
                   let! dc := ndiv (e * c) c100 in let! dp := ndiv (e * q) c100 in go r cs qs (ac + dc) (ap + dp)
               | _, _ => Err IndexErr end end in
         let! (ac, ap) := go supply pcl ppl zero zero in
         let! py := ndiv ac fy in Ok (py, ac, Some ap)
       end
     else Ok (zero, zero, None)) in
  (* peak load windows: capacity on the peak inside windows when significant *)
  let! max_supply2 :=
    (if w_plw cc then
       let pw := match peak_w with Some p => p | None => zero end in
       let! sig := (if zero <? max_supply then let! q := ndiv (max_supply - pw) max_supply in Ok (q * c100) else Ok zero) in
       if (plw_threshold sh <? sig) && (c100 <? max_supply - pw) then Ok pw else Ok max_supply
     else Ok max_supply) in
  let cap0 := match fee1 with SLP => cap_charge | RLM => cap_charge * max_supply2 end in
  (* scheme-specific split into fixed and flexible load *)
  let! (com_py, com_sim, cap, fee2) :=
    (match cc with
     | BalMarket =>
        let! (fpy, fsim, fcap, ft2) := fixed_part sh (Some fee1) fixl secs fy zero in
        let! flex := flexible_load supply fixl in
        let pl := match i_prices_commodity inp with
                  | Some l => map (fun p => p * c100) l | None => replicate (i_n inp) com_charge end in
        let! mxp := pymax pl in
        let fix hi (fl pr:list T) (m:T) : res T := match fl with
          | [] => Ok m
          | p :: r => match pr with [] => Err IndexErr
              | q :: qs => hi r qs (if neqb q mxp && (m <? p) then p else m) end end in
        let! hi_power := hi flex pl zero in
        let '(_, cap_flex, f3) := find_prices sh ft2 c2500 energy_pa in
        let! (xpy, xsim) := commodity_costs pl flex secs fy in
        Ok (fpy + xpy, fsim + xsim, fcap + cap_flex * hi_power, f3)
     | FlexWindow =>
        let! (fpy, fsim, fcap, ft2) := fixed_part sh (Some fee1) fixl secs fy zero in
        let! flex := flexible_load supply fixl in
        let '(com_flex, cap_flex, f3) := find_prices sh ft2 c2500 energy_pa in
        let! (xpy, xsim) := commodity_costs (replicate (length flex) com_flex) flex secs fy in
        let! w := match i_window inp with Some w => Ok w | None => Err TypeErr end in
        let! outside := (fix go (fl:list T) (ws:list bool) : res (list T) := match fl with
            | [] => Ok []
            | p :: r => match ws with [] => Err IndexErr
                | b :: bs => let! tl := go r bs in Ok (if b then tl else p :: tl) end end) flex w in
        let! capx := match outside with [] => Ok zero | _ => let! m := pymax outside in Ok (cap_flex * m) end in
        Ok (fpy + xpy, fsim + xsim, fcap + capx, f3)
     | Schedule =>
        let! (fpy, fsim, fcap, ft2) := fixed_part sh (Some fee1) fixl secs fy (sched_reduction sh) in
        let! flex := flexible_load supply fixl in
        let '(com_flex, _, f3) := find_prices sh ft2 c2500 energy_pa in
        let! (xpy, xsim) := commodity_costs (replicate (length flex) com_flex) flex secs fy in
        let! capx := match i_schedule inp with
          | None => Ok zero
          | Some sch =>
             let sup_s := map (fun v => nmax v zero) sch in
             let! dev := (fix go (ss:list T) (i:nat) : res (list T) := match ss with
                 | [] => Ok []
                 | s :: r => let! p := nth_r supply i in let! tl := go r (S i) in Ok (nmax (p - s) zero :: tl) end) sup_s 0%nat in
             let! md := pymax dev in let! ms := pymax sup_s in
             Ok (sched_dev_charge sh * nmax (md - ms * sched_dev_tol sh) zero) end in
        Ok (fpy + xpy, fsim + xsim, fcap + capx, f3)
     | _ => Ok (com_py, com_sim, cap0, fee1) end) in
  finalize sh inp energy_sim max_supply (if w_plw cc then Some (match peak_w with Some p => p | None => zero end) else peak_w)
           com_py com_sim cap fee2 proc_var.
End Model.
