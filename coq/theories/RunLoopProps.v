(* RunLoopProps.v — theorems about the run-loop model: properties C04 (monitor/abort), C06
   (connector sum), C17 (lengths, loud failure).  Order facts are proved on the R instance. *)
From Coq Require Import ZArith QArith Qreals Reals List Bool Lia Lra.
From SV Require Import Num RNum RunLoop.
Import ListNotations.
Open Scope R_scope.

Notation Rrun := (@run R RNum).
Notation Rstep_ok := (@step_ok R RNum).

(* ---------- structure of a run (any number type) ---------- *)
Section Generic.
Context {T} {N: Num T}.
Lemma run_length eps (steps:list (@stepobs T)) : (length (fst (run eps steps)) <= length steps)%nat.
Proof. induction steps as [|s r IH]; cbn; [lia|]. destruct (step_ok eps s); [|cbn; lia].
  destruct (run eps r) as [rows ab]. cbn in *. lia. Qed.

(* not aborted  <->  every step was valid;  not aborted -> exactly the configured number of
   steps is reported (an abort AT the last step also reports all steps, but is flagged) *)
Lemma run_complete eps (steps:list (@stepobs T)) :
  (aborted eps steps = false <-> forallb (step_ok eps) steps = true) /\
  (aborted eps steps = false -> step_i eps steps = length steps).
Proof.
  unfold aborted, step_i. induction steps as [|s r IH]; cbn; [tauto|].
  destruct (step_ok eps s) eqn:E; cbn.
  - destruct (run eps r) as [rows ab]. cbn in *. destruct IH as [I1 I2]. split; [exact I1|].
    intros HH. f_equal. apply I2, HH.
  - split; [split|]; discriminate.
Qed.

(* an aborted run stops at the FIRST invalid step and reports it as its last row *)
Lemma run_aborted eps (steps:list (@stepobs T)) : aborted eps steps = true ->
  exists pre s post, steps = pre ++ s :: post /\ forallb (step_ok eps) pre = true /\ step_ok eps s = false /\
    fst (run eps steps) = map mk_row pre ++ [mk_row s].
Proof.
  unfold aborted. induction steps as [|s r IH]; cbn; [discriminate|].
  destruct (step_ok eps s) eqn:E.
  - destruct (run eps r) as [rows ab] eqn:R. cbn. intros ->. destruct (IH eq_refl) as (pre & s' & post & H1 & H2 & H3 & H4).
    exists (s :: pre), s', post. cbn. rewrite E, H2. repeat split; auto; [rewrite H1; reflexivity | cbn in H4; rewrite H4; reflexivity].
  - intros _. exists [], s, r. repeat split; auto.
Qed.

Lemma run_not_aborted eps (steps:list (@stepobs T)) : aborted eps steps = false ->
  fst (run eps steps) = map mk_row steps.
Proof.
  unfold aborted. induction steps as [|s r IH]; cbn; [reflexivity|].
  destruct (step_ok eps s) eqn:E; [|discriminate].
  destruct (run eps r) as [rows ab] eqn:R. cbn in *. intros ->. rewrite IH by reflexivity. reflexivity.
Qed.

(* every output series has one entry per reported step and one column per connector *)
Lemma rows_shape (s:@stepobs T) : length (r_total (mk_row s)) = length (s_gcs s) /\ length (r_gen (mk_row s)) = length (s_gcs s).
Proof. unfold mk_row; cbn. rewrite !map_length. auto. Qed.
End Generic.

(* ---------- order facts on R ---------- *)
Lemma nsum_R_aux : forall (l:list R) acc, fold_left (@nadd R RNum) l acc = acc + fold_right Rplus 0 l.
Proof. induction l as [|x l IH]; intros acc; cbn; [lra|]. rewrite IH. cbn. lra. Qed.
Lemma nsum_R (l:list R) : @nsum R RNum l = fold_right Rplus 0 l.
Proof. unfold nsum. rewrite nsum_R_aux, zero_0. lra. Qed.

Definition Rsum (l:list R) : R := fold_right Rplus 0 l.
Lemma Rsum_app a b : Rsum (a ++ b) = Rsum a + Rsum b.
Proof. unfold Rsum. induction a; cbn; lra. Qed.
Lemma Rsum_split (f:@load R -> bool) (l:list (@load R)) :
  Rsum (map l_val l) = Rsum (map l_val (filter f l)) + Rsum (map l_val (filter (fun x => negb (f x)) l)).
Proof. unfold Rsum. induction l as [|x l IH]; cbn; [lra|]. destruct (f x); cbn; lra. Qed.

(* reported connector power = max(-rating, sum of ALL entries of the load dictionary):
   fixed loads + stations + batteries - generation, feed-in curtailed at the rating *)
Lemma gc_load_is_sum (g:@gcobs R) : @gc_load R RNum g = Rmax (- g_max g) (Rsum (map l_val (g_loads g))).
Proof.
  unfold gc_load, load_excl, local_generation. rewrite nmax_R, !nneg_R, !nsum_R. cbn [nsub RNum].
  f_equal. pose proof (Rsum_split l_gen (g_loads g)) as H. unfold Rsum in *. lra.
Qed.
Lemma gc_load_plain (g:@gcobs R) : - g_max g <= Rsum (map l_val (g_loads g)) ->
  @gc_load R RNum g = Rsum (map l_val (g_loads g)).
Proof. intros H. rewrite gc_load_is_sum. apply Rmax_right. exact H. Qed.

Definition within (eps:R) (g:@gcobs R) : Prop :=
  - (g_curmax g + eps) <= @gc_load R RNum g <= g_curmax g + eps.
Definition cs_ok (eps:R) (c:@csobs R) : Prop := Rabs (cs_load c) <= cs_max c + eps.
Definition valid (eps:R) (s:@stepobs R) : Prop :=
  s_pre_error s = false /\ s_strat_error s = false /\
  Forall (fun g => within eps g /\ Forall (cs_ok eps) (g_cs g)) (s_gcs s).

Lemma gc_within_iff eps g : @gc_within R RNum eps g = true <-> within eps g.
Proof.
  unfold gc_within, within. cbn [nleb nadd RNum]. rewrite nneg_R, andb_true_iff. split.
  - intros [A B]. apply Rleb_t in A. apply Rleb_t in B. lra.
  - intros [A B]. split; apply Rleb_true; lra.
Qed.
Lemma cs_within_iff eps c : @cs_within R RNum eps c = true <-> cs_ok eps c.
Proof.
  unfold cs_within, cs_ok. cbn [nleb nadd RNum]. rewrite nabs_R. split; [apply Rleb_t|apply Rleb_true].
Qed.
Lemma step_ok_valid eps s : Rstep_ok eps s = true <-> valid eps s.
Proof.
  unfold step_ok, valid. rewrite !andb_true_iff, !negb_true_iff, forallb_forall, Forall_forall.
  split.
  - intros [[H1 H2] H3]. split; [exact H1|]. split; [exact H2|]. intros g Hg. specialize (H3 g Hg).
    apply andb_true_iff in H3. destruct H3 as [H3 H4]. split; [apply gc_within_iff, H3|].
    rewrite forallb_forall in H4. rewrite Forall_forall. intros c Hc. apply cs_within_iff, H4, Hc.
  - intros (H1 & H2 & H3). split; [split; assumption|]. intros g Hg. specialize (H3 g Hg). destruct H3 as [H3 H4].
    apply andb_true_iff. split; [apply gc_within_iff, H3|].
    rewrite forallb_forall. rewrite Forall_forall in H4. intros c Hc. apply cs_within_iff, H4, Hc.
Qed.

(* C04: every reported step except possibly the last is valid; an invalid last step means the
   run is flagged as aborted and nothing after it is reported *)
Lemma reported_steps_valid eps steps :
  (@aborted R RNum eps steps = false -> Forall (valid eps) steps /\ fst (Rrun eps steps) = map mk_row steps) /\
  (@aborted R RNum eps steps = true -> exists pre s post, steps = pre ++ s :: post /\ Forall (valid eps) pre /\
      ~ valid eps s /\ fst (Rrun eps steps) = map mk_row pre ++ [mk_row s]).
Proof.
  split.
  - intros H. split; [|apply run_not_aborted, H].
    apply (proj1 (proj1 (run_complete eps steps))) in H. rewrite forallb_forall in H. rewrite Forall_forall.
    intros s Hs. apply step_ok_valid, H, Hs.
  - intros H. destruct (run_aborted eps steps H) as (pre & s & post & H1 & H2 & H3 & H4).
    exists pre, s, post. repeat split; auto.
    + rewrite forallb_forall in H2. rewrite Forall_forall. intros x Hx. apply step_ok_valid, H2, Hx.
    + intros V. apply step_ok_valid in V. congruence.
Qed.
