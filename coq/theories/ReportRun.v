From Coq Require Import ZArith QArith List Bool.
From SV Require Import Num Report CurveRun.
Import ListNotations.
Definition N0 := QNum0.
(* round(q, 3): half to even *)
Definition qround3 (q:Q) : Q :=
  let x := Qred (q * 1000) in
  let a := Qnum x in let b := Zpos (Qden x) in
  let fl := (a / b)%Z in let rm := (a mod b)%Z in
  let r := if (2 * rm <? b)%Z then fl else if (b <? 2 * rm)%Z then (fl + 1)%Z else if Z.even fl then fl else (fl + 1)%Z in
  Qred (r # 1000).
Record rcase3 := { r3_in : Q*Q*Q; r3_exp : list Q }.
Definition run_rcase3 (c:rcase3) : list Q := let '(g,ge,cs) := r3_in c in let '(a,b,d) := @split_feedin Q N0 g ge cs in [qround3 a; qround3 b; qround3 d].
Fixpoint failing (i:nat) (cs:list rcase3) : list nat := match cs with [] => []
  | c::r => if all2 Qeq_bool (run_rcase3 c) (r3_exp c) then failing (S i) r else i :: failing (S i) r end.
Definition tag (c:rcase3) : nat := length (filter (fun x => negb (Qeq_bool x 0)) (run_rcase3 c)).
