(* BatteryRun.v — executable comparison of the Battery model (Q instance + oracle table). *)
From Coq Require Import ZArith QArith List Bool.
From SV Require Import Num Curve CurveRun Battery.
Import ListNotations.
Inductive bop := OLoad (h:Q) (mp:option Q) (tg:@target Q) | OUnload (h:Q) (mp:option Q) (tg:@target Q) | OAvail (h:Q).
Record bcase := { b_cap:Q; b_eps:Q; b_eff:Q; b_soc:Q; b_lc:list (Q*Q); b_uc:list (Q*Q); b_tbl:oracle;
                  b_ops:list bop; b_exp:list (res (Q*Q*Q)) }.
Definition run_bop (fx:bool) (N:Num Q) (b:@bat Q) (o:bop) : res (@bat Q * (Q*Q*Q)) :=
  match o with
  | OLoad h mp tg => match load_gen fx b h mp tg with Ok (b',a,d) => Ok (b',(a,d,soc b')) | Err e => Err e end
  | OUnload h mp tg => match unload_gen fx b h mp tg with Ok (b',a,d) => Ok (b',(a,d,soc b')) | Err e => Err e end
  | OAvail h => match unload_gen fx b h None TNone with Ok (_,a,_) => Ok (b,(a,0,soc b)) | Err e => Err e end
  end.
(* the case stops at the first exception (Python leaves the battery in a mid-way state) *)
Fixpoint run_bops (fx:bool) (N:Num Q) (b:@bat Q) (os:list bop) : list (res (Q*Q*Q)) := match os with
  | [] => [] | o::r => match run_bop fx N b o with Ok (b',x) => Ok x :: run_bops fx N b' r | Err e => [Err e] end end.
Definition same3 (a b:res (Q*Q*Q)) := match a,b with
  | Ok (x,y,z), Ok (x',y',z') => Qeq_bool x x' && Qeq_bool y y' && Qeq_bool z z'
  | Err e, Err e' => same_err e e' | _,_ => false end.
Definition run_bcase_gen (fx:bool) (c:bcase) : list (res (Q*Q*Q)) :=
  let N := QNum (b_tbl c) in
  match @mk_curve Q N (b_lc c), @mk_curve Q N (b_uc c) with
  | Ok l, Ok u => run_bops fx N {| cap:=b_cap c; lc:=l; uc:=u; soc:=b_soc c; eff:=b_eff c; eps:=b_eps c |} (b_ops c)
  | _,_ => [Err IndexErr] end.
Definition run_bcase := run_bcase_gen true.
Fixpoint failing (i:nat) (cs:list bcase) : list nat := match cs with [] => []
  | c::r => if all2 same3 (run_bcase c) (b_exp c) then failing (S i) r else i :: failing (S i) r end.
Fixpoint failing_orig (i:nat) (cs:list bcase) : list nat := match cs with [] => []
  | c::r => if all2 same3 (run_bcase_gen false c) (b_exp c) then failing_orig (S i) r else i :: failing_orig (S i) r end.
(* tag: 0 nothing moved, 1 energy moved without exp/ln, 2 exp/ln used, 3 an error *)
Definition tag (c:bcase) : nat :=
  let r := run_bcase c in
  if existsb (fun x => match x with Err _ => true | _ => false end) r then 3%nat
  else if negb (Nat.eqb (length (b_tbl c)) 0) then 2%nat
  else if existsb (fun x => match x with Ok (a,_,_) => negb (Qeq_bool a 0) | _ => false end) r then 1%nat else 0%nat.
