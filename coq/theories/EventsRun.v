(* EventsRun.v — executable comparison of the Events model with recorded Strategy.step runs. *)
From Coq Require Import ZArith QArith List Bool String.
From SV Require Import Num Kernel Events CurveRun.
Import ListNotations.
Open Scope Z_scope.

Definition N0 := QNum0.
Record series := { sr_gen : bool; sr_gc : string; sr_name : string; sr_start : Z; sr_step : Z; sr_factor : Q; sr_vals : list Q }.
Record gobs := { go_cur : option Q; go_loads : list (string*Q); go_cost : @cost Q; go_target : option Q; go_window : option bool }.
Record vobs := { vo_cs : option string; vo_soc : Q; vo_desired : Q; vo_etd : option Z; vo_sched : option Q; vo_hasdelta : bool }.
Record sobs := { so_err : option err; so_gcs : list gobs; so_veh : list vobs; so_cnt : nat * nat;
                 so_tracker : list (string * list Z); so_future : nat }.
Record ecase := { ec_world : @world Q; ec_opts : @options Q; ec_t0 : Z; ec_n : nat;
                  ec_veh_events : list (@event_t Q); ec_signals : list (@event_t Q); ec_series : list series;
                  ec_exp : list sobs }.

Definition expand (s:series) : list (@event_t Q) :=
  @series_events Q N0 (if sr_gen s then @EGen Q else @EFixed Q) (sr_gc s) (sr_name s) (sr_start s) (sr_step s)
                 (sr_gen s) (sr_factor s) (sr_start s) (sr_vals s).
Definition all_events (c:ecase) : list (@event_t Q) :=
  (ec_veh_events c ++ ec_signals c ++ flat_map expand (filter (fun s => negb (sr_gen s)) (ec_series c))
   ++ flat_map expand (filter sr_gen (ec_series c)))%list.

Definition observe (w:@world Q) (e:option err) : sobs :=
  {| so_err := e;
     so_gcs := map (fun kg => let g := snd kg in {| go_cur := g_cur g; go_loads := g_loads g; go_cost := g_cost g;
                                                   go_target := g_target g; go_window := g_window g |}) (w_gcs w);
     so_veh := map (fun kv => let v := snd kv in {| vo_cs := v_cs v; vo_soc := v_soc v; vo_desired := v_desired v; vo_etd := v_etd v;
                                                   vo_sched := v_schedule v; vo_hasdelta := match v_delta v with Some _ => true | None => false end |}) (w_veh w);
     so_cnt := (w_desired_cnt w, w_margin_cnt w); so_tracker := w_tracker w; so_future := List.length (w_future w) |}.

(* Scenario.run keeps calling the base step only until the first error; so do we *)
Fixpoint run_steps (o:@options Q) (w:@world Q) (steps:list (list (@event_t Q))) : list sobs := match steps with
  | [] => []
  | evs :: r => match @pre_step Q N0 o w evs with
      | (w', None) => observe w' None :: run_steps o w' r
      | (w', Some x) => [observe w' (Some x)] end end.
Definition run_ecase (c:ecase) : list sobs :=
  run_steps (ec_opts c) (ec_world c) (@event_steps Q (ec_t0 c) (o_interval (ec_opts c)) (ec_n c) (all_events c)).

Definition eqoq (a b:option Q) := match a,b with Some x, Some y => Qeq_bool x y | None,None => true | _,_ => false end.
Definition eqoz (a b:option Z) := match a,b with Some x, Some y => Z.eqb x y | None,None => true | _,_ => false end.
Definition eqob (a b:option bool) := match a,b with Some x, Some y => Bool.eqb x y | None,None => true | _,_ => false end.
Definition eqos (a b:option string) := match a,b with Some x, Some y => String.eqb x y | None,None => true | _,_ => false end.
Definition eqcost (a b:@cost Q) := match a,b with CFixed x, CFixed y => Qeq_bool x y | CPoly x, CPoly y => all2 Qeq_bool x y
  | CNone, CNone => true | _,_ => false end.
Definition eqload (a b:string*Q) := String.eqb (fst a) (fst b) && Qeq_bool (snd a) (snd b).
Definition eqg (a b:gobs) := eqoq (go_cur a) (go_cur b) && all2 eqload (go_loads a) (go_loads b) && eqcost (go_cost a) (go_cost b)
  && eqoq (go_target a) (go_target b) && eqob (go_window a) (go_window b).
Definition eqv (a b:vobs) := eqos (vo_cs a) (vo_cs b) && Qeq_bool (vo_soc a) (vo_soc b) && Qeq_bool (vo_desired a) (vo_desired b)
  && eqoz (vo_etd a) (vo_etd b) && eqoq (vo_sched a) (vo_sched b) && Bool.eqb (vo_hasdelta a) (vo_hasdelta b).
Definition eqtr (a b:string * list Z) := String.eqb (fst a) (fst b) && all2 Z.eqb (snd a) (snd b).
Definition eqerr (a b:option err) := match a,b with Some x, Some y => same_err x y | None,None => true | _,_ => false end.
Definition eqs (a b:sobs) := eqerr (so_err a) (so_err b) && all2 eqg (so_gcs a) (so_gcs b) && all2 eqv (so_veh a) (so_veh b)
  && Nat.eqb (fst (so_cnt a)) (fst (so_cnt b)) && Nat.eqb (snd (so_cnt a)) (snd (so_cnt b))
  && all2 eqtr (so_tracker a) (so_tracker b) && Nat.eqb (so_future a) (so_future b).
Fixpoint failing (i:nat) (cs:list ecase) : list nat := match cs with [] => []
  | c::r => if all2 eqs (run_ecase c) (ec_exp c) then failing (S i) r else i :: failing (S i) r end.
(* tag: 2 an error occurred, 1 some counter/tracker/limit changed, 0 otherwise *)
Definition tag (c:ecase) : nat :=
  let r := run_ecase c in
  if existsb (fun s => match so_err s with Some _ => true | None => false end) r then 2%nat
  else if existsb (fun s => negb (Nat.eqb (fst (so_cnt s)) 0) || negb (Nat.eqb (List.length (so_tracker s)) 0)) r then 1%nat else 0%nat.
