(* BatteryProps.v — theorems about the Battery model on the R instance (property C01). *)
From Coq Require Import ZArith QArith Qreals Reals List Bool Lia Lra Psatz.
From SV Require Import Num RNum Curve Battery.
Import ListNotations.
Open Scope R_scope.

Notation Router := (@outer R RNum).
Notation Rbat := (@bat R).

Lemma nmin_one_le (a:R) : @nmin R RNum a (@one R RNum) <= 1.
Proof. rewrite nmin_R, one_1. apply Rmin_r. Qed.
Lemma nmin_one_cases (a:R) : (a <= 1 /\ @nmin R RNum a (@one R RNum) = a) \/ (1 < a /\ @nmin R RNum a (@one R RNum) = 1).
Proof. rewrite nmin_R, one_1. unfold Rmin. destruct (Rle_dec a 1); [left|right]; split; auto; lra. Qed.

(* normalise the R-instance operations that appear after unfolding one loop iteration *)
Ltac rnorm := repeat first
  [ progress rbool
  | rewrite nabs_R in * | rewrite nneg_R in * | rewrite one_1 in * | rewrite zero_0 in * ].

(* ---------- charging: one invariant for direction, clipping and the energy account ---------- *)
Lemma outer_charge : forall fx fuel c capa e tgt s rem bidx bsoc en s' en',
  Router fx fuel c capa e false tgt s rem bidx bsoc en = Ok (s', en') ->
  0 < capa -> 0 < e -> tgt <= 1 -> s <= 1 ->
  s <= s' <= 1 /\ 0 <= (en' - en) - capa * (s' - s) < capa * e /\ (s = 1 -> s' = 1 /\ en' = en) /\
  (s' < 1 -> en' - en = capa * (s' - s)).
Proof.
  induction fuel as [|f IH]; intros c capa e tgt s rem bidx bsoc en s' en' H Hc He Ht Hs; cbn [outer] in H; [discriminate|].
  destruct (_ && _) eqn:Hcond in H.
  2:{ injection H as <- <-. repeat split; try lra. nra. }
  assert (Hlt : s < 1).
  { apply andb_true_iff in Hcond. destruct Hcond as [_ Hc2]. cbn in Hc2. apply Rltb_t in Hc2. lra. }
  dres; try (repeat split; (lra || nra)).
  all: match goal with H : Router _ _ _ _ _ _ _ (@nmin _ _ ?new _) _ _ _ _ = Ok _ |- _ =>
      remember new as nw eqn:Hnw; clear Hnw;
      apply IH in H; [| assumption | assumption | assumption | apply nmin_one_le ];
      destruct H as (H1 & H2 & H3 & H4);
      destruct (nmin_one_cases nw) as [[Hn Hc']|[Hn Hc']]; rewrite Hc' in *
      end.
  all: cbn [nleb nltb nadd nsub nmul RNum] in *; rnorm.
  all: try match goal with H : 1 = 1 -> _ |- _ => destruct (H eq_refl) as [-> ->] end.
  all: rewrite (Rabs_pos_eq (nw - s)) in * by lra.
  all: repeat split; try lra; try nra.
Qed.

(* ---------- discharging: direction and exact energy account ---------- *)
Lemma outer_discharge : forall fx fuel c capa e tgt s rem bidx bsoc en s' en',
  Router fx fuel c capa e true tgt s rem bidx bsoc en = Ok (s', en') ->
  0 < capa -> s <= 1 ->
  s' <= s /\ en' - en = capa * (s - s').
Proof.
  induction fuel as [|f IH]; intros c capa e tgt s rem bidx bsoc en s' en' H Hc Hs; cbn [outer] in H; [discriminate|].
  destruct (_ && _) eqn:Hcond in H.
  2:{ injection H as <- <-. split; lra. }
  dres; try (split; lra).
  all: match goal with H : Router _ _ _ _ _ _ _ (@nmin _ _ ?new _) _ _ _ _ = Ok _ |- _ =>
      remember new as nw eqn:Hnw; clear Hnw end.
  all: cbn [nleb nltb nadd nsub nmul RNum] in *; rnorm.
  all: match goal with H : Router _ _ _ _ _ _ _ (@nmin _ _ ?nw _) _ _ _ _ = Ok _ |- _ =>
      destruct (nmin_one_cases nw) as [[Hn Hc']|[Hn Hc']]; [rewrite one_1 in Hc'; rewrite Hc' in H | lra];
      apply IH in H; [| assumption | lra ]; destruct H as (HA & HB)
      end.
  all: rewrite (Rabs_left1 (nw - s)) in * by lra.
  all: split; [lra|nra].
Qed.

(* the loop does not run when the target is within EPS (or no time is left) *)
Lemma outer_exit fx fuel c capa e dis tgt s rem bidx bsoc en :
  rem <= e \/ @sgn R RNum dis (tgt - s) <= e ->
  Router fx (S fuel) c capa e dis tgt s rem bidx bsoc en = Ok (s, en).
Proof.
  intros H. cbn [outer]. cbn [nltb RNum].
  destruct H as [H|H]; [rewrite (Rltb_false e rem) by lra; reflexivity|].
  rewrite (Rltb_false e (sgn dis (tgt - s))) by exact H. rewrite andb_false_r. reflexivity.
Qed.

Notation Radjust := (@adjust_soc R RNum).
Definition wf_bat (b:Rbat) : Prop := 0 < cap b /\ 0 < eff b /\ 0 < eps b /\ soc b <= 1.

Lemma outer_fuel_S (c:@curve R) : exists f, @outer_fuel R c = S f.
Proof. unfold outer_fuel. eexists. rewrite Nat.add_comm. reflexivity. Qed.

(* _adjust_soc: only the SoC changes; direction, clipping, energy account *)
Lemma adjust_spec fx b hours c tgt b' avg : Radjust fx b hours c tgt = Ok (b', avg) ->
  wf_bat b -> 0 < hours -> tgt <= 1 ->
  b' = set_soc b (soc b') /\
  (soc b <= tgt -> soc b <= soc b' <= 1 /\ 0 <= avg * hours - cap b * (soc b' - soc b) < cap b * eps b) /\
  (tgt < soc b -> soc b' <= soc b /\ avg * hours = cap b * (soc b - soc b')).
Proof.
  intros H (Hc & Hf & He & Hs) Hh Ht. unfold adjust_soc in H. dres.
  all: cbn [soc set_soc].
  all: cbn [ndiv RNum] in *; try match goal with H : Rdivr _ _ = Ok _ |- _ => apply Rdivr_inv in H; destruct H as [_ ->] end;
       try match goal with H : Rdivr _ ?h = Err _ |- _ => unfold Rdivr in H; destruct (Req_EM_T h 0); [lra|discriminate] end.
  all: split; [reflexivity|].
  all: cbn [nltb RNum] in *; rbool.
  all: split; intros Hdir; try lra.
  all: match goal with
       | H : Router _ _ _ _ _ false _ _ _ _ _ _ = Ok _ |- _ => apply outer_charge in H; auto; rewrite zero_0 in H; destruct H as (H & H' & _ & _)
       | H : Router _ _ _ _ _ true _ _ _ _ _ _ = Ok _ |- _ => apply outer_discharge in H; auto; rewrite zero_0 in H
       end.
  all: rewrite Rdivr_ok by lra.
  all: unfold Rdiv; rewrite Rmult_assoc, Rinv_l by lra; lra.
Qed.

Notation Rload := (@load R RNum).
Notation Runload := (@unload R RNum).

(* Battery.load: SoC never falls, never exceeds 1; reported delta is the actual change; the
   average power is non-negative and avg_power * T * efficiency equals the stored energy up
   to the code's own clipping tolerance capacity*EPS (exactly when nothing was clipped) *)
Lemma load_spec b hours mp tg b' p d : Rload b hours mp tg = Ok (b', p, d) ->
  wf_bat b -> 0 < hours ->
  b' = set_soc b (soc b') /\ d = soc b' - soc b /\ soc b <= soc b' <= 1 /\ 0 <= p /\
  0 <= p * eff b * hours - cap b * (soc b' - soc b) < cap b * eps b.
Proof.
  intros H Hw Hh. pose proof Hw as (Hc & Hf & He & Hs). unfold load, load_gen in H.
  destruct (match tg with TNone => _ | TSoc s => _ | TPower p0 => _ | TBoth _ _ => _ end) as [tgt|] eqn:Etg; cbn [bind] in H; [|discriminate].
  destruct (nltb (eps b) (nsub (soc b) tgt)) eqn:Eearly.
  - injection H as <- <- <-. rewrite ?RMicromega.Q2R_0. destruct b; cbn in *. repeat split; try lra; nra.
  - cbn [nltb nsub RNum] in Eearly. apply Rltb_f in Eearly.
    destruct (clamped _ _ _ _) as [cl|] eqn:Ecl; cbn [bind] in H; [|discriminate].
    destruct (Radjust true b hours cl (nmin one tgt)) as [[b1 avg]|] eqn:Eadj; cbn [bind] in H; [|discriminate].
    destruct (ndiv avg (eff b)) as [avg'|] eqn:Ediv; cbn [bind] in H; [|discriminate].
    injection H as <- <- <-.
    cbn [ndiv RNum] in Ediv. apply Rdivr_inv in Ediv. destruct Ediv as [_ ->].
    assert (Ht1 : @nmin R RNum (@one R RNum) tgt <= 1) by (rewrite nmin_R, one_1; apply Rmin_l).
    destruct (adjust_spec true b hours cl _ b1 avg Eadj Hw Hh Ht1) as (Hb & Hup & Hdown).
    split; [exact Hb|]. split; [reflexivity|].
    assert (Heq : avg / eff b * eff b * hours = avg * hours) by (field; lra).
    destruct (Rle_dec (soc b) (@nmin R RNum (@one R RNum) tgt)) as [Hle|Hgt].
    + destruct (Hup Hle) as (H1 & H2). rewrite Heq. repeat split; try lra.
      apply Rmult_le_reg_r with (eff b * hours); [nra|]. rewrite Rmult_0_l.
      replace (avg / eff b * (eff b * hours)) with (avg * hours) by (field; lra). nra.
    + (* the SoC is above the (clipped) target by at most EPS: the loop did not run *)
      assert (Hlt : @nmin R RNum (@one R RNum) tgt < soc b) by lra.
      destruct (Hdown Hlt) as (H1 & H2).
      assert (Hnear : soc b - @nmin R RNum (@one R RNum) tgt <= eps b).
      { rewrite nmin_R, one_1 in *. unfold Rmin in *. destruct (Rle_dec 1 tgt); lra. }
      (* re-run the loop: it exits at once *)
      unfold adjust_soc in Eadj. cbn [nltb RNum] in Eadj. rewrite (Rltb_true _ _ Hlt) in Eadj.
      destruct (section_boundary cl (soc b)) as [[i1 i2]|]; cbn [bind] in Eadj; [|discriminate].
      destruct (nthp (pts cl) i1) as [pp|]; cbn [bind] in Eadj; [|discriminate].
      destruct (outer_fuel_S cl) as (f & Hfuel). rewrite Hfuel in Eadj.
      rewrite outer_exit in Eadj.
      2:{ right. cbn [sgn]. rewrite nneg_R. cbn [nsub RNum]. lra. }
      cbn [bind] in Eadj. injection Eadj as <- <-. cbn [soc set_soc].
      cbn [ndiv RNum]. rewrite ?zero_0, ?RMicromega.Q2R_0. rewrite Rdivr_ok by lra.
      replace (0 / hours / eff b) with 0 by (field; lra). repeat split; try lra; nra.
Qed.

(* Battery.unload: SoC never rises; reported delta is the actual change; avg_power * T /
   efficiency equals the released energy exactly; a negative SoC is left alone *)
Lemma unload_spec b hours mp tg b' p d : Runload b hours mp tg = Ok (b', p, d) ->
  wf_bat b -> 0 < hours ->
  b' = set_soc b (soc b') /\ d = soc b - soc b' /\ soc b' <= soc b /\ 0 <= p /\
  p * hours = eff b * (cap b * (soc b - soc b')) /\ (soc b <= 0 -> soc b' = soc b).
Proof.
  intros H Hw Hh. pose proof Hw as (Hc & Hf & He & Hs). unfold unload, unload_gen in H.
  destruct (match tg with TNone => _ | TSoc s => _ | TPower p0 => _ | TBoth _ _ => _ end) as [tgt0|] eqn:Etg; cbn [bind] in H; [|discriminate].
  set (tgt := @nmax R RNum (@nmin R RNum (soc b) (@zero R RNum)) tgt0) in *.
  destruct (nltb (eps b) (nsub tgt (soc b))) eqn:Eearly.
  - injection H as <- <- <-. rewrite ?RMicromega.Q2R_0. destruct b; cbn in *. repeat split; try lra; nra.
  - cbn [nltb nsub RNum] in Eearly. apply Rltb_f in Eearly.
    destruct (ndiv one (eff b)) as [ie|] eqn:Eie; cbn [bind] in H; [|discriminate].
    destruct (clamped _ _ _ _) as [cl|] eqn:Ecl; cbn [bind] in H; [|discriminate].
    destruct (Radjust true b hours cl tgt) as [[b1 avg]|] eqn:Eadj; cbn [bind] in H; [|discriminate].
    injection H as <- <- <-.
    assert (Hfloor : Rmin (soc b) 0 <= tgt) by (unfold tgt; rewrite nmax_R, nmin_R, zero_0; apply Rmax_l).
    split; [|split; [reflexivity|]].
    { unfold adjust_soc in Eadj; dres; reflexivity. }
    cbn [nmul RNum].
    destruct (Rle_dec (soc b) tgt) as [Hle|Hgt].
    + (* target not below the SoC (within EPS): the loop did not run *)
      unfold adjust_soc in Eadj. cbn [nltb RNum] in Eadj. rewrite (Rltb_false tgt (soc b)) in Eadj by lra.
      destruct (section_boundary cl (soc b)) as [[i1 i2]|]; cbn [bind] in Eadj; [|discriminate].
      destruct (nthp (pts cl) i2) as [pp|]; cbn [bind] in Eadj; [|discriminate].
      destruct (outer_fuel_S cl) as (f & Hfuel). rewrite Hfuel in Eadj.
      rewrite outer_exit in Eadj.
      2:{ right. cbn [sgn nsub RNum]. lra. }
      cbn [bind] in Eadj. injection Eadj as <- <-. cbn [soc set_soc].
      cbn [ndiv RNum]. rewrite ?zero_0, ?RMicromega.Q2R_0. rewrite Rdivr_ok by lra.
      replace (0 / hours * eff b) with 0 by (field; lra). repeat split; try lra; nra.
    + assert (Ht1 : tgt <= 1) by lra.
      destruct (adjust_spec true b hours cl tgt b1 avg Eadj Hw Hh Ht1) as (Hb & Hup & Hdown).
      destruct (Hdown ltac:(lra)) as (H1 & H2).
      assert (Havg : 0 <= avg).
      { apply Rmult_le_reg_r with hours; [lra|]. rewrite Rmult_0_l. rewrite H2. nra. }
      repeat split; try lra.
      * nra.
      * nra.
      * intros Hneg. exfalso. rewrite Rmin_left in Hfloor by lra. lra.
Qed.

(* get_available_power leaves the battery as it was *)
Lemma available_power_pure (b:Rbat) hours b' p : @available_power R RNum b hours = Ok (b', p) -> b' = b.
Proof. unfold available_power. intros H. dres. reflexivity. Qed.

(* the unlimited stationary battery: capacity 2^64, constant curve — same statements *)
Definition unlimited (b:Rbat) : Prop := cap b = 2^64.
Lemma unlimited_wf b : unlimited b -> 0 < eff b -> 0 < eps b -> soc b <= 1 -> wf_bat b.
Proof. unfold unlimited, wf_bat. intros ->. repeat split; auto. apply pow_lt. lra. Qed.

(* exact energy account when the SoC stayed below 1 (nothing was clipped) *)
Lemma adjust_exact fx b hours c tgt b' avg : Radjust fx b hours c tgt = Ok (b', avg) ->
  wf_bat b -> 0 < hours -> tgt <= 1 -> soc b <= tgt -> soc b' < 1 ->
  avg * hours = cap b * (soc b' - soc b).
Proof.
  intros H (Hc & Hf & He & Hs) Hh Ht Hdir Hlt. unfold adjust_soc in H. dres.
  all: cbn [soc set_soc] in *.
  all: cbn [nltb RNum] in *; rbool; try lra.
  all: match goal with
       | H : Router _ _ _ _ _ false _ _ _ _ _ _ = Ok _ |- _ => apply outer_charge in H; auto; rewrite zero_0 in H; destruct H as (_ & _ & _ & HX)
       end.
  all: cbn [ndiv RNum]; rewrite Rdivr_ok by lra.
  all: unfold Rdiv; rewrite Rmult_assoc, Rinv_l by lra. all: specialize (HX Hlt); lra.
Qed.

(* a request for a target power delivers exactly that average power whenever the target
   SoC it implies is reached below 100 % *)
Lemma load_target_power b hours mp p0 b' p d : Rload b hours mp (TPower p0) = Ok (b', p, d) ->
  wf_bat b -> 0 < hours -> 0 <= p0 ->
  soc b' = soc b + p0 * eff b * hours / cap b -> soc b' < 1 -> p = p0.
Proof.
  intros H Hw Hh Hp Hreach Hlt. pose proof Hw as (Hc & Hf & He & Hs). unfold load, load_gen in H.
  cbn [ndiv nadd nmul RNum bind] in H. assert (Hcn : cap b <> 0) by lra.
  rewrite (Rdivr_ok (p0 * eff b * hours) (cap b) Hcn) in H. cbn [bind] in H.
  set (tgt := soc b + p0 * eff b * hours / cap b) in *.
  assert (Hge : soc b <= tgt).
  { unfold tgt. assert (0 <= p0 * eff b * hours / cap b); [|lra]. apply Rmult_le_pos; [apply Rmult_le_pos; [apply Rmult_le_pos|]; lra|]. left. apply Rinv_0_lt_compat. lra. }
  cbn [nltb nsub RNum] in H. rewrite Rltb_false in H by lra.
  destruct (clamped _ _ _ _) as [cl|] eqn:Ecl; cbn [bind] in H; [|discriminate].
  destruct (Radjust true b hours cl (nmin one tgt)) as [[b1 avg]|] eqn:Eadj; cbn [bind] in H; [|discriminate].
  destruct (Rdivr avg (eff b)) as [avg'|] eqn:Ediv; cbn [bind] in H; [|discriminate].
  injection H as <- <- <-. apply Rdivr_inv in Ediv. destruct Ediv as [_ ->].
  assert (Hmin : @nmin R RNum (@one R RNum) tgt = tgt).
  { rewrite nmin_R, one_1. apply Rmin_right. lra. }
  rewrite Hmin in Eadj.
  pose proof (adjust_exact true b hours cl tgt b1 avg Eadj Hw Hh ltac:(lra) Hge Hlt) as Hex.
  rewrite Hreach in Hex. unfold tgt in Hex.
  assert (avg * hours = p0 * eff b * hours) by (rewrite Hex; field; lra).
  assert (avg = p0 * eff b) by nra. subst avg. field. lra.
Qed.
