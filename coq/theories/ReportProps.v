(* ReportProps.v — split_feedin on R (property C18). *)
From Coq Require Import Reals Lra.
From SV Require Import Num RNum Report.
Open Scope R_scope.
Lemma split_unfold g ge cs : @split_feedin R RNum g ge cs =
  let gen := Rmax (Rmin (- ge) g) 0 in let v2g := Rmax (Rmin (- cs) (g - gen)) 0 in (gen, v2g, Rmax (g - gen - v2g) 0).
Proof. unfold split_feedin. rewrite !nmax_R, !nmin_R, !nneg_R, zero_0. reflexivity. Qed.

(* non-negative parts, in the priority generation > V2G > battery, summing to the total feed-in *)
Lemma split_spec g ge cs : ge <= 0 -> cs <= 0 ->
  let '(gen, v2g, bat) := @split_feedin R RNum g ge cs in
  0 <= gen /\ 0 <= v2g /\ 0 <= bat /\ gen + v2g + bat = Rmax g 0 /\
  gen = Rmin (- ge) (Rmax g 0) /\ v2g = Rmin (- cs) (Rmax g 0 - gen) /\ bat = Rmax g 0 - gen - v2g.
Proof.
  intros Hg Hc. rewrite split_unfold. cbv zeta.
  unfold Rmax, Rmin; repeat destruct Rle_dec; repeat split; lra.
Qed.
(* without the sign assumptions the parts are still non-negative *)
Lemma split_nonneg g ge cs : let '(gen, v2g, bat) := @split_feedin R RNum g ge cs in 0 <= gen /\ 0 <= v2g /\ 0 <= bat.
Proof. rewrite split_unfold. cbv zeta. repeat split; apply Rmax_r. Qed.
