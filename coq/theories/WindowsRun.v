(* WindowsRun.v — executable comparison of the Windows model with recorded implementation results. *)
From Coq Require Import ZArith List Bool Lia.
From SV Require Import Windows.
Import ListNotations.
Open Scope Z_scope.
Record wcase := { w_seasons : list season; w_lvl : nat; w_core : option core; w_ts : list Z;
                  w_exp_win : list bool; w_exp_core : list bool;
                  w_series : option (Z*Z*Z); w_exp_series : list bool }.
Fixpoint eqbl (a b:list bool) : bool := match a,b with [],[] => true | x::r,y::s => Bool.eqb x y && eqbl r s | _,_ => false end.
Definition run_win (c:wcase) := map (fun t => dt_within_window t (w_seasons c) (w_lvl c)) (w_ts c).
Definition run_core (c:wcase) := map (fun t => within_core t (w_core c)) (w_ts c).
Definition run_series (c:wcase) : list bool := match w_series c with None => []
  | Some (a,b,d) => match window_series a b d (w_seasons c) (w_lvl c) with Some l => l | None => [] end end.
Definition ok_case (c:wcase) : bool :=
  eqbl (run_win c) (w_exp_win c) && eqbl (run_core c) (w_exp_core c) && eqbl (run_series c) (w_exp_series c).
Fixpoint failing (i:nat) (cs:list wcase) : list nat := match cs with [] => []
  | c::r => if ok_case c then failing (S i) r else i :: failing (S i) r end.
Definition run_wcase (c:wcase) := (run_win c, run_core c, run_series c).
(* tag: 1 if both truth values occur among window answers or core answers *)
Definition mixed (l:list bool) : bool := existsb (fun b => b) l && existsb negb l.
Definition tag (c:wcase) : nat := if mixed (run_win c) || mixed (run_core c) || mixed (run_series c) then 1%nat else 0%nat.
