(* RunLoop.v — model of the per-step bookkeeping of Scenario.run (scenario.py):
   connector power from the load dictionary, the two safety checks, the error latch, the
   abort.  The strategy is abstract: a step is observed as the load dictionaries left behind
   and whether the event processing / the strategy raised.  Generic in Num. *)
From Coq Require Import ZArith QArith List Bool Lia.
From SV Require Import Num.
Import ListNotations.

Section Model.
Context {T} {N: Num T}.
Local Infix "+" := nadd. Local Infix "-" := nsub. Local Infix "*" := nmul.
Local Infix "<=?" := nleb. Local Infix "<?" := nltb.

(* one load entry of gc.current_loads: value and whether its key is a local-generation list *)
Record load := { l_val : T; l_gen : bool }.
(* a connected vehicle's station at this connector: cs.max_power and gc.current_loads.get(cs_id, 0) *)
Record csobs := { cs_max : T; cs_load : T }.
Record gcobs := { g_max : T; g_curmax : T; g_loads : list load; g_cs : list csobs }.
Record stepobs := { s_pre_error : bool; s_strat_error : bool; s_gcs : list gcobs }.

Definition nsum (l:list T) : T := fold_left nadd l zero.
(* curLocalGeneration -= sum(gc.current_loads.get(k, 0) for k in local_generation_keys) *)
Definition local_generation (g:gcobs) : T := nneg (nsum (map l_val (filter l_gen (g_loads g)))).
(* gc.get_current_load(exclude=local_generation_keys) *)
Definition load_excl (g:gcobs) : T := nsum (map l_val (filter (fun l => negb (l_gen l)) (g_loads g))).
(* gc_load = max(-gc.max_power, gc_load - curLocalGeneration) *)
Definition gc_load (g:gcobs) : T := nmax (nneg (g_max g)) (load_excl g - local_generation g).
(* -powerLimit <= gc_load <= powerLimit,  powerLimit = cur_max_power + EPS *)
Definition gc_within (eps:T) (g:gcobs) : bool :=
  let lim := g_curmax g + eps in (nneg lim <=? gc_load g) && (gc_load g <=? lim).
(* abs(cs_load) <= cs.max_power + EPS *)
Definition cs_within (eps:T) (c:csobs) : bool := nabs (cs_load c) <=? cs_max c + eps.
Definition step_ok (eps:T) (s:stepobs) : bool :=
  negb (s_pre_error s) && negb (s_strat_error s) &&
  forallb (fun g => gc_within eps g && forallb (cs_within eps) (g_cs g)) (s_gcs s).

(* what one step appends to totalLoad / localGenerationPower (per connector, in order) *)
Record row := { r_total : list T; r_gen : list T }.
Definition mk_row (s:stepobs) : row :=
  {| r_total := map gc_load (s_gcs s); r_gen := map local_generation (s_gcs s) |}.

(* for step_i in range(n): ...bookkeeping...; if error is not None: break *)
Fixpoint run (eps:T) (steps:list stepobs) : list row * bool := match steps with
  | [] => ([], false)
  | s :: r => if step_ok eps s then let '(rows, ab) := run eps r in (mk_row s :: rows, ab)
              else ([mk_row s], true) end.
(* step_i after the loop (step_i += 1) *)
Definition step_i (eps:T) (steps:list stepobs) : nat := length (fst (run eps steps)).
Definition aborted (eps:T) (steps:list stepobs) : bool := snd (run eps steps).
End Model.
