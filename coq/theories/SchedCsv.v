(* SchedCsv.v — model of events.get_schedule_from_csv (repaired revision: every row computes its own
   start/signal time) and of generate_schedule.aggressive_round / the charge flag of the CSV writer.
   A row is (start time, candidate signal time, target, window flag, per-vehicle schedules); times are
   integers, calendar glue (ISO parsing, "9am the day before") is done by the harness. *)
From Coq Require Import ZArith QArith List Bool Lia.
Import ListNotations.
Open Scope Z_scope.

Record row := { r_start : Z; r_sigcand : Z; r_target : Q; r_window : option bool; r_veh : list Q }.
Inductive sev :=
  | SGc (start signal:Z) (target:Q) (window:option bool)
  | SVeh (start signal:Z) (vidx:nat) (value:Q).
Definition eqow (a b:option bool) : bool := match a,b with Some x, Some y => Bool.eqb x y | None,None => true | _,_ => false end.
Definition eqoq (a b:option Q) : bool := match a,b with Some x, Some y => Qeq_bool x y | None,None => true | _,_ => false end.

(* per-vehicle loop of one row: emit an event for every vehicle whose value changed *)
Fixpoint veh_events (st sg:Z) (i:nat) (vals:list Q) (last:list (option Q)) : list sev * list (option Q) :=
  match vals, last with
  | v :: vs, l :: ls => let '(evs, ls') := veh_events st sg (S i) vs ls in
      if eqoq (Some v) l then (evs, l :: ls') else (SVeh st sg i v :: evs, Some v :: ls')
  | _, _ => ([], last) end.

(* AssertionError "starts before being sent" is the [None] result *)
Fixpoint rows_events (start0:Z) (rows:list row) (lt:option Q) (lw:option (option bool)) (lv:list (option Q)) : option (list sev) :=
  match rows with
  | [] => Some []
  | r :: rest =>
      let sg := Z.max start0 (r_sigcand r) in
      let changed := negb (eqoq (Some (r_target r)) lt) || negb (match lw with Some w => eqow (r_window r) w | None => false end) in
      let '(vevs, lv') := veh_events (r_start r) sg 0 (r_veh r) lv in
      let vchanged := match vevs with [] => false | _ => true end in
      if (changed || vchanged) && (r_start r <? sg) then None else
      let gcev := if changed then [SGc (r_start r) sg (r_target r) (r_window r)] else [] in
      match rows_events start0 rest (if changed then Some (r_target r) else lt) (if changed then Some (r_window r) else lw) lv' with
      | Some tl => Some (gcev ++ vevs ++ tl)%list | None => None end
  end.
Definition schedule_events (start0:Z) (nveh:nat) (rows:list row) : option (list sev) :=
  rows_events start0 rows None None (repeat None nveh).

(* The pinned upstream revision: vehicle events reuse start/signal time of the last connector change (defect D4) *)
Fixpoint rows_events_orig (start0:Z) (rows:list row) (lt:option Q) (lw:option (option bool)) (lv:list (option Q)) (ls:Z*Z) : option (list sev) :=
  match rows with
  | [] => Some []
  | r :: rest =>
      let sg := Z.max start0 (r_sigcand r) in
      let changed := negb (eqoq (Some (r_target r)) lt) || negb (match lw with Some w => eqow (r_window r) w | None => false end) in
      if changed && (r_start r <? sg) then None else
      let ls' := if changed then (r_start r, sg) else ls in
      let gcev := if changed then [SGc (r_start r) sg (r_target r) (r_window r)] else [] in
      let '(vevs, lv') := veh_events (fst ls') (snd ls') 0 (r_veh r) lv in
      match rows_events_orig start0 rest (if changed then Some (r_target r) else lt) (if changed then Some (r_window r) else lw) lv' ls' with
      | Some tl => Some (gcev ++ vevs ++ tl)%list | None => None end
  end.

(* aggressive_round(f, 3) is modelled in SchedCsvRun (needs rounding); the charge flag of row t *)
Definition charge_flag (eps curtailment residual:Q) : bool := negb (Qle_bool curtailment eps) || negb (Qle_bool (- eps) residual).

(* ---------- what a reader sees: the target in force at row t is the last emitted one ---------- *)
Fixpoint target_at (evs:list sev) (t:Z) (cur:option Q) : option Q := match evs with
  | [] => cur
  | SGc st _ tg _ :: r => if st <=? t then target_at r t (Some tg) else target_at r t cur
  | _ :: r => target_at r t cur end.
Fixpoint veh_at (evs:list sev) (i:nat) (t:Z) (cur:option Q) : option Q := match evs with
  | [] => cur
  | SVeh st _ j v :: r => if (st <=? t) && Nat.eqb i j then veh_at r i t (Some v) else veh_at r i t cur
  | _ :: r => veh_at r i t cur end.
