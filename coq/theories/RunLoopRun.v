(* RunLoopRun.v — executable comparison of the RunLoop model with Scenario.run's recorded output. *)
From Coq Require Import ZArith QArith List Bool.
From SV Require Import Num RunLoop CurveRun.
Import ListNotations.
Record rcase := { rc_eps : Q; rc_steps : list (@stepobs Q); rc_rows : list (list Q * list Q); rc_aborted : bool }.
Definition N0 := QNum0.
Definition run_rcase (c:rcase) := let '(rows, ab) := @run Q N0 (rc_eps c) (rc_steps c) in (map (fun r => (r_total r, r_gen r)) rows, ab).
Definition same_row (a b:list Q * list Q) := all2 Qeq_bool (fst a) (fst b) && all2 Qeq_bool (snd a) (snd b).
Definition ok_case (c:rcase) : bool := let '(rows, ab) := run_rcase c in all2 same_row rows (rc_rows c) && Bool.eqb ab (rc_aborted c).
Fixpoint failing (i:nat) (cs:list rcase) : list nat := match cs with [] => []
  | c::r => if ok_case c then failing (S i) r else i :: failing (S i) r end.
(* tag: 2 aborted, 1 some connector carries load, 0 nothing happens *)
Definition tag (c:rcase) : nat := let '(rows, ab) := run_rcase c in
  if ab then 2%nat else if existsb (fun r => existsb (fun x => negb (Qeq_bool x 0)) (fst r)) rows then 1%nat else 0%nat.

(* one evaluation per case: (agrees, tag) encoded as 2*tag + (0 if agrees else 1) *)
Definition check_tag (c:rcase) : nat := let '(rows, ab) := run_rcase c in
  let ok := all2 same_row rows (rc_rows c) && Bool.eqb ab (rc_aborted c) in
  let t := if ab then 2%nat else if existsb (fun r => existsb (fun x => negb (Qeq_bool x 0)) (fst r)) rows then 1%nat else 0%nat in
  (2 * t + (if ok then 0 else 1))%nat.
