(* Curve.v — model of spice_ev/loading_curve.py (LoadingCurve), generic in Num.
   Follows the source statement by statement; Python asserts are AssertFail k:
     1: points[0][0] == 0.0    2: points[-1][0] == 1    3: soc <= 1 (power_from_soc)
     9: power_from_soc fell off the end of the list (Python would return None) *)
From Coq Require Import ZArith QArith List Bool Lia.
From SV Require Import Num.
Import ListNotations.

Section Model.
Context {T} {N: Num T}.
Local Infix "+" := nadd. Local Infix "-" := nsub. Local Infix "*" := nmul.
Local Infix "<=?" := nleb. Local Infix "<?" := nltb.

Local Notation point := (T*T)%type.
(* sorted(points, key=lambda a: a[0]) — stable insertion sort *)
Fixpoint insert (p:point) (l:list point) : list point := match l with
  | [] => [p] | q::r => if fst q <? fst p then q :: insert p r else p::q::r end.
(* fold_right inserts the last element first; an element inserted later is placed
   before elements with an equal key, so the original order of ties is kept *)
Definition sortpts (l:list point) : list point := fold_right insert [] l.

Record curve := { pts : list point; maxp : T }.
Definition mk_curve (l:list point) : res curve :=
  let s := sortpts l in
  let mp := fold_left (fun acc p => nmax (snd p) acc) s zero in  (* max(p[1], self.max_power) *)
  match s with
  | [] => Err IndexErr
  | p0::_ => if negb (neqb (fst p0) zero) then Err (AssertFail 1)
             else if negb (neqb (fst (last s p0)) one) then Err (AssertFail 2)
             else Ok {| pts := s; maxp := mp |} end.

(* power_from_soc: first point with p[0] >= soc; lerp with its predecessor *)
Fixpoint pfs_from (prev:point) (ps:list point) (soc:T) : res T := match ps with
  | [] => Err (AssertFail 9)
  | p::rest => if soc <=? fst p then
       let! t := ndiv (soc - fst prev) (fst p - fst prev) in
       Ok (snd prev + (snd p - snd prev) * t)
     else pfs_from p rest soc end.
Definition pfs_pts (ps:list point) (soc:T) : res T :=
  match ps with [] => Err (AssertFail 9)
  | p0::rest => if soc <=? fst p0 then Ok (snd p0) else pfs_from p0 rest soc end.
Definition power_from_soc (c:curve) (soc:T) : res T :=
  if one <? soc then Err (AssertFail 3) else pfs_pts (pts c) soc.

(* clamped(max_power, pre_scale, post_scale). [ps] is the pre-scaled list; both end
   points of every section come from it. *)
Definition clamp_sec (lim:T) (p q:point) : res (list point) :=
  let a := fst p in let b := fst q in let pa := snd p in let pb := snd q in
  if (pa <=? lim) && (pb <=? lim) then Ok [(a,pa)]
  else if (lim <=? pa) && (lim <=? pb) then Ok [(a,lim)]
  else if (pa <=? lim) && (lim <=? pb) then
    let! t := ndiv (lim - pa) (pb - pa) in Ok [(a,pa); (a + (b - a)*t, lim)]
  else if (lim <=? pa) && (pb <=? lim) then
    let! t := ndiv (lim - pa) (pb - pa) in Ok [(a,lim); (a + (b - a)*t, lim)]
  else Ok [].
Fixpoint clamp_secs (lim:T) (ps: list point) : res (list point) := match ps with
  | p :: ((q :: _) as rest) =>
     let! hd := clamp_sec lim p q in
     let! tl := clamp_secs lim rest in Ok (hd ++ tl)
  | [q] => Ok [(one, nmin lim (snd q))]
  | [] => Err IndexErr end.
Definition scale_pts (k:T) (ps:list point) : list point := map (fun p => (fst p, k * snd p)) ps.
Definition clamped (c:curve) (lim pre post:T) : res curve :=
  match pts c with [] | [_] => Err IndexErr | _ =>
  let! np := clamp_secs lim (scale_pts pre (pts c)) in
  mk_curve (scale_pts post np) end.

(* The pinned upstream revision took the *next* point of every section from the
   un-prescaled list (defect D1).  Kept for the record: C03 refutes it. *)
Fixpoint clamp_secs_orig (pre lim:T) (ps: list point) : res (list point) := match ps with
  | p :: ((q :: _) as rest) =>
     let! hd := clamp_sec lim (fst p, pre * snd p) q in
     let! tl := clamp_secs_orig pre lim rest in Ok (hd ++ tl)
  | [q] => Ok [(one, nmin lim (snd q))]
  | [] => Err IndexErr end.
Definition clamped_orig (c:curve) (lim pre post:T) : res curve :=
  match pts c with [] | [_] => Err IndexErr | _ =>
  let! np := clamp_secs_orig pre lim (pts c) in
  mk_curve (scale_pts post np) end.

Definition nthp (l:list point) (i:nat) : res point :=
  match nth_error l i with Some p => Ok p | None => Err IndexErr end.
(* get_section_boundary: while idx_1 < len-1: idx_2 = idx_1+1; if soc >= x2: idx_1 += 1 else break *)
Fixpoint secb (fuel:nat) (l:list point) (soc:T) (i1 i2:nat) : res (nat*nat) := match fuel with
  | O => Ok (i1,i2)
  | S f => if Nat.ltb i1 (length l - 1) then
       let i2' := S i1 in let! p := nthp l i2' in
       if fst p <=? soc then secb f l soc (S i1) i2' else Ok (i1,i2')
     else Ok (i1,i2) end.
Definition section_boundary (c:curve) (soc:T) : res (nat*nat) := secb (length (pts c)) (pts c) soc 0 0.

(* VehicleType.__init__: discharge_curve = charging_curve.clamped(max_power, pre_scale=v2g_power_factor) *)
Definition default_discharge (c:curve) (factor:T) : res curve := clamped c (maxp c) factor one.
End Model.
