(* Tie.v — the hand-written kernels ARE the translated source (generated/Src.v, regenerated from /repo on every run).
   Each lemma is closed by reflexivity: a change of the source text that changes the translated function breaks it. *)
From Coq Require Import QArith Bool.
From SV Require Import Num Kernel Report.
From SVG Require Import Src.

Lemma clamp_power_is_source {T} {N:Num T} (power cs_cur cs_max cs_min veh_min : T) :
  clamp_power_src power cs_cur cs_max cs_min veh_min = clamp_power power cs_cur cs_max cs_min veh_min.
Proof. reflexivity. Qed.

Lemma split_feedin_is_source {T} {N:Num T} (grid generation cs_sum : T) :
  split_feedin_src grid generation cs_sum = split_feedin grid generation cs_sum.
Proof. reflexivity. Qed.
