(* CostsRun.v — executable comparison of the Costs model: applies the 2-decimal rounding of
   calculate_costs (round half even, as Python's round on exact numbers) and compares with the
   returned dictionary and the "costs" section written to the results JSON. *)
From Coq Require Import ZArith QArith List Bool.
From SV Require Import Num Costs CurveRun.
Import ListNotations.
Definition N0 := QNum0.
(* round(q, 2): half to even *)
Definition qround2 (q:Q) : Q :=
  let x := Qred (q * 100) in
  let a := Qnum x in let b := Zpos (Qden x) in
  let fl := (a / b)%Z in let rm := (a mod b)%Z in
  let r := if (2 * rm <? b)%Z then fl else if (b <? 2 * rm)%Z then (fl + 1)%Z else if Z.even fl then fl else (fl + 1)%Z in
  Qred (r # 100).
Record expected := { x_ret : list Q; x_peak : option Q; x_json : list Q }.
Record ccase := { cc_sheet : @sheet Q; cc_inp : @inputs Q; cc_exp : res expected }.
Definition qsum (l:list Q) : Q := fold_left (fun a b => Qred (a + b)) l 0.
Definition summarize (o:@outputs Q) : expected :=
  let r := qround2 in
  {| x_ret := [ r (o_total_py o); r (o_commodity_py o); r (o_capacity o); r (o_procurement_py o);
                r (qsum (map r (o_levies_py o)) + r (o_concession_py o) + r (o_etax_py o) + r (o_vat_py o));
                r (qsum (o_feedin_py o)) ];
     x_peak := o_peak_in_windows o;
     x_json := [ r (o_total_sim o); r (o_commodity_sim o); r (o_additional_py o); r (o_additional_sim o); r (o_procurement_sim o);
                 r (o_vat_sim o); r (o_etax_sim o); r (o_concession_sim o); r (o_vat_py o); r (o_etax_py o); r (o_concession_py o) ]
               ++ map r (o_levies_py o) ++ map r (o_levies_sim o) ++ map r (o_feedin_py o) ++ map r (o_feedin_sim o) |}.
Definition run_ccase (c:ccase) : res expected := match @calculate_costs Q N0 (cc_sheet c) (cc_inp c) with
  | Ok o => Ok (summarize o) | Err e => Err e end.
Definition eqoq (a b:option Q) := match a,b with Some x, Some y => Qeq_bool x y | None,None => true | _,_ => false end.
Definition same (a b:res expected) := match a,b with
  | Ok x, Ok y => all2 Qeq_bool (x_ret x) (x_ret y) && eqoq (x_peak x) (x_peak y) && all2 Qeq_bool (x_json x) (x_json y)
  | Err e, Err e' => same_err e e' | _,_ => false end.
Fixpoint failing (i:nat) (cs:list ccase) : list nat := match cs with [] => []
  | c::r => if same (run_ccase c) (cc_exp c) then failing (S i) r else i :: failing (S i) r end.
(* tag: 0 error, else 1 + scheme index *)
Definition tag (c:ccase) : nat := match @calculate_costs Q N0 (cc_sheet c) (cc_inp c) with
  | Err _ => 0%nat
  | Ok o => match i_cc (cc_inp c) with FixedWo => 1 | FixedW => 2 | VarWo => 3 | VarW => 4 | BalMarket => 5 | Schedule => 6 | FlexWindow => 7 end%nat end.
