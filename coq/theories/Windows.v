(* Windows.v — model of util.datetime_within_time_window, util.dt_within_core_standing_time
   and the per-step series of util.get_time_windows_from_json.  Integers only.
   A timestamp is an absolute number of microseconds t; its date ordinal is t / DAY
   (floor), its time of day t mod DAY, its weekday (ordinal + 6) mod 7 (Python:
   date.toordinal() / weekday(), ordinal 1 = Monday 0001-01-01). *)
From Coq Require Import ZArith List Bool Lia.
Import ListNotations.
Open Scope Z_scope.

Definition DAY : Z := 86400000000.
Definition ordinal (t:Z) : Z := t / DAY.
Definition tod (t:Z) : Z := t mod DAY.
Definition weekday (t:Z) : Z := (ordinal t + 6) mod 7.

Record season := { s_first : Z; s_last : Z; s_wins : list (nat * list (Z*Z)) }.   (* level id -> [(start,end)] *)

Fixpoint wins_of (lvl:nat) (w:list (nat * list (Z*Z))) : list (Z*Z) := match w with
  | [] => [] | (k,v)::r => if Nat.eqb k lvl then v else wins_of lvl r end.

(* if window[1] < window[0]: t >= w0 or t < w1   elif w0 <= t < w1 *)
Definition in_win (t:Z) (w:Z*Z) : bool :=
  if snd w <? fst w then (fst w <=? t) || (t <? snd w) else (fst w <=? t) && (t <? snd w).

Fixpoint within_window (day t:Z) (seasons:list season) (lvl:nat) : bool := match seasons with
  | [] => false
  | s :: r => if (s_first s <=? day) && (day <=? s_last s)
              then existsb (in_win t) (wins_of lvl (s_wins s))
              else within_window day t r lvl end.
Definition dt_within_window (ts:Z) (seasons:list season) (lvl:nat) : bool :=
  within_window (ordinal ts) (tod ts) seasons lvl.

Record core := { c_nodrive : list Z; c_holidays : list Z; c_times : list (Z*Z) }.
(* end < start: t >= start or t < end   else: start <= t <= end  (end INCLUSIVE, as the code has it) *)
Definition in_core_win (t:Z) (w:Z*Z) : bool :=
  if snd w <? fst w then (fst w <=? t) || (t <? snd w) else (fst w <=? t) && (t <=? snd w).
Definition within_core (ts:Z) (c:option core) : bool := match c with
  | None => true
  | Some c => existsb (Z.eqb (weekday ts)) (c_nodrive c) || existsb (Z.eqb (ordinal ts)) (c_holidays c)
              || existsb (in_core_win (tod ts)) (c_times c) end.

(* cur = start; while cur < stop: append(within(cur)); cur += interval *)
Fixpoint series_loop (fuel:nat) (cur stop delta:Z) (seasons:list season) (lvl:nat) : option (list bool) :=
  if cur <? stop then
    match fuel with O => None    (* out of fuel *)
    | S f => match series_loop f (cur + delta) stop delta seasons lvl with
             | Some l => Some (dt_within_window cur seasons lvl :: l) | None => None end end
  else Some [].
Definition steps_between (start stop delta:Z) : Z := (stop - start + delta - 1) / delta.
Definition window_series (start stop delta:Z) (seasons:list season) (lvl:nat) : option (list bool) :=
  series_loop (Z.to_nat (steps_between start stop delta)) start stop delta seasons lvl.
