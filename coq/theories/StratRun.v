(* StratRun.v — executable comparison of the Strat model with recorded strategy steps. *)
From Coq Require Import ZArith QArith List Bool String.
From SV Require Import Num Curve CurveRun Battery Kernel Strat.
Import ListNotations.

Record sexp := { sx_loads : list (list (string*Q)); sx_vsoc : list Q; sx_bsoc : list Q; sx_cscur : list Q; sx_cmds : list (string*Q) }.
Record scase := { sc_strat : strat; sc_opts : @sopts Q; sc_world : @sworld Q; sc_tbl : oracle; sc_exp : res sexp }.
Definition observe (w:@sworld Q) (cmds:list (string*Q)) : sexp :=
  {| sx_loads := map (fun kg => gc_loads (snd kg)) (sw_gcs w);
     sx_vsoc := map (fun kv => soc (vh_bat (snd kv))) (sw_veh w);
     sx_bsoc := map (fun kb => soc (sb_bat (snd kb))) (sw_bats w);
     sx_cscur := map (fun kc => cs_cur (snd kc)) (sw_css w);
     sx_cmds := cmds |}.
Definition run_scase (c:scase) : res sexp :=
  match @strategy_step Q (QNum (sc_tbl c)) (sc_strat c) (sc_opts c) (sc_world c) with
  | Ok (w, cmds) => Ok (observe w cmds) | Err e => Err e end.
Definition eqkv (a b:string*Q) := String.eqb (fst a) (fst b) && Qeq_bool (snd a) (snd b).
(* commands: compared as dictionaries (same keys and values, order of first insertion) *)
Definition same (a b:res sexp) := match a,b with
  | Ok x, Ok y => all2 (all2 eqkv) (sx_loads x) (sx_loads y) && all2 Qeq_bool (sx_vsoc x) (sx_vsoc y)
                  && all2 Qeq_bool (sx_bsoc x) (sx_bsoc y) && all2 Qeq_bool (sx_cscur x) (sx_cscur y)
                  && all2 eqkv (sx_cmds x) (sx_cmds y)
  | Err e, Err e' => same_err e e' | _,_ => false end.
Definition check_tag (c:scase) : nat :=
  let r := run_scase c in
  let t := match r with Err _ => 3%nat
           | Ok x => if existsb (fun kv => negb (Qeq_bool (snd kv) 0)) (sx_cmds x) then (if Nat.eqb (List.length (sc_tbl c)) 0 then 1 else 2)%nat else 0%nat end in
  (2 * t + (if same r (sc_exp c) then 0 else 1))%nat.
Fixpoint failing (i:nat) (cs:list scase) : list nat := match cs with [] => []
  | c::r => if same (run_scase c) (sc_exp c) then failing (S i) r else i :: failing (S i) r end.
