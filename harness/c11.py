"""C11 — signal-driven strategies (windows, prices, schedules) follow their signal.

Theorem (props/C11.v): the individual-schedule command is never below the scheduled power as far as the limits allow.
peak_load_window, flex_window and balanced_market are not modelled: their clauses are evaluated on generated
scenarios (implementation-level, sampled)."""
import copy
import datetime
import random
from collections import Counter

import common as C
import corr
import svc

TOL = 1e-4
SIGNAL_STRATS = ["peak_load_window", "flex_window", "balanced_market"]


# ---------------------------------------------------------------- A: no charging in discouraged periods
def check_signal_case(case):
    st = Counter()
    js = case["js"] if case.get("prebuilt") else svc.finish(case)
    if js is None:
        st["infeasible-generated"] += 1
        return [], st
    strategy = case["strategy"]
    res = svc.run(js, strategy, case["extra"])
    if res.get("error"):
        return [("C11/%s/crash" % strategy, "run raised %s" % res["error"])], st
    if res["aborted"]:
        st["aborted"] += 1
        return [], st
    v = []
    pat = case["pattern"]
    taper = len({pw for _, pw in js["components"]["vehicle_types"]["vt"]["charging_curve"]}) > 1
    for p in res["periods"]:
        if "dep_time" not in p:
            continue
        a, d = svc.step_of(res, p["arr_time"]), svc.step_of(res, p["dep_time"])
        st["periods"] += 1
        bad = [(i, res["charge"][i].get(p["cs"], 0)) for i in range(a, min(d, len(pat))) if not pat[i] and res["charge"][i].get(p["cs"], 0) > 1e-6]
        st["discouraged-steps"] += sum(1 for i in range(a, min(d, len(pat))) if not pat[i])
        e = sum(x for _, x in bad) * res["interval"].total_seconds() / 3600
        if bad and e > 1e-4 * js["components"]["vehicle_types"]["vt"]["capacity"]:
            sub = ""
            if len(js["components"]["vehicles"]) == 1:
                # what happened on the encouraged steps AFTER the last one with restricted head room: raised to the full
                # available power (the plan was corrected, but too late) or left under-used
                lim_ = svc.limit_series(js, res["n"] + 1)
                csmax = js["components"]["charging_stations"][p["cs"]]["max_power"]
                enc = [i for i in range(a, min(d, len(pat))) if pat[i]]
                restricted = [i for i in enc if lim_[i] < csmax - 1e-9]
                if restricted:
                    later = [i for i in enc if i > restricted[-1]]
                    under = [i for i in later if res["charge"][i].get(p["cs"], 0) < min(csmax, lim_[i]) - 1e-3]
                    sub = "/late-underused" if (under or not later) and later else "/late-saturated"
            v.append(("C11/%s/charged-in-discouraged%s" % (strategy, sub),
                      "%s draws %.4f kWh in %d discouraged step(s) (first: step %d, %.3f kW) although the encouraged steps of its standing period "
                      "[%d,%d) offer >= 1.3x the needed charging time; interval %s, departure offset %s"
                      % (p["vid"], e, len(bad), bad[0][0], bad[0][1], a, d, js["scenario"]["interval"], case["dep_offset"])))
        if p["desired"] - p["dep_soc"] > TOL:
            sub2 = "/taper" if taper else ""
            if not taper and len(js["components"]["vehicles"]) == 1:
                # the even-plan weakness catalogued under C09: head room binding on some encouraged step while others stay under-used
                lim_ = svc.limit_series(js, res["n"] + 1)
                csmax = js["components"]["charging_stations"][p["cs"]]["max_power"]
                enc = [i for i in range(a, min(d, len(pat))) if pat[i]]
                if any(lim_[i] < csmax - 1e-9 for i in enc) and any(res["charge"][i].get(p["cs"], 0) < min(csmax, lim_[i]) - 1e-3 for i in enc):
                    sub2 = "/headroom-underused"
            v.append(("C11/%s/desired-missed%s" % (strategy, sub2),
                      "%s leaves with SoC %.6f < desired %.4f although the encouraged steps alone offer >= 1.3x the needed time; standing [%d,%d)"
                      % (p["vid"], p["dep_soc"], p["desired"], a, d)))
    return v, st


def gen_plw_directed(rng):
    """peak_load_window: two peak windows inside the standing time, a block of high building load on outside steps between /
    after them (little head room there), constant charging curve, one vehicle; the outside steps still offer >= 1.3x"""
    import datetime
    interval = rng.choice([15, 15, 30])
    dt = datetime.timedelta(minutes=interval)
    n = rng.choice([24, 32])
    start = svc.T0
    w1 = rng.randrange(4, n // 3)
    w1e = w1 + rng.choice([2, 4])
    w2 = rng.randrange(w1e + 4, n - 3)
    w2e = min(n - 1, w2 + rng.choice([2, 3]))
    pat = [not (w1 <= i < w1e or w2 <= i < w2e) for i in range(n)]
    b0 = rng.randrange(w1e, w2)
    b1 = rng.randrange(b0 + 1, w2 + 1)
    gc_max = rng.choice([20, 30])
    hi = gc_max - rng.choice([2, 4])
    fl = [hi if b0 <= i < b1 else 2.0 for i in range(n + 2)]
    P = rng.choice([11, 22])
    cap = rng.choice([50, 76])
    soc0 = rng.choice([0.2, 0.4])
    # needed energy ~ half of what the outside steps offer
    h = interval / 60
    avail = sum(min(P, gc_max - fl[i]) * h for i in range(n) if pat[i]) * 0.95
    desired = round(min(0.95, soc0 + avail / cap / rng.choice([1.5, 2.0, 2.5])), 3)

    def hm(i):
        return (start + dt * i).strftime("%H:%M")
    js = {"scenario": {"start_time": svc.iso(start), "interval": interval, "n_intervals": n + 2},
          "components": {"vehicle_types": {"vt": {"name": "vt", "capacity": cap, "mileage": 20, "charging_curve": [[0, P], [1, P]],
                                                  "min_charging_power": 0, "v2g": False}},
                         "vehicles": {"v0": {"vehicle_type": "vt", "soc": soc0, "desired_soc": desired, "connected_charging_station": "cs0_deps",
                                             "estimated_time_of_departure": svc.iso(start + dt * n)}},
                         "charging_stations": {"cs0_deps": {"max_power": P, "min_power": 0, "parent": "GC1"}},
                         "batteries": {}, "photovoltaics": {},
                         "grid_connectors": {"GC1": {"max_power": gc_max, "voltage_level": "MV", "grid_operator": "op",
                                                     "cost": {"type": "fixed", "value": 0.3}}}},
          "events": {"grid_operator_signals": [], "local_generation": {},
                     "fixed_load": {"building": {"start_time": svc.iso(start), "step_duration_s": interval * 60, "grid_connector_id": "GC1", "values": fl}},
                     "vehicle_events": [{"signal_time": svc.iso(start + dt * n), "start_time": svc.iso(start + dt * n), "vehicle_id": "v0",
                                         "event_type": "departure", "update": {"estimated_time_of_arrival": svc.iso(start + dt * (n + 100))}}]}}
    tw = {"op": {"all": {"start": "2021-01-01", "end": "2021-12-31", "windows": {"MV": [[hm(w1), hm(w1e)], [hm(w2), hm(w2e)]]}}}}
    return {"js": js, "pattern": pat, "strategy": "peak_load_window", "extra": {"time_windows": tw}, "signal_case": True,
            "dep_offset": 0, "seed": 0, "prebuilt": True}


# ---------------------------------------------------------------- B: balanced_market never pays more than greedy
def check_cost_case(case):
    st = Counter()
    js = svc.finish(case)
    if js is None:
        return [], st
    rb = svc.run(js, "balanced_market", case["extra"])
    rg = svc.run(js, "greedy", case["extra"])
    for r_, nm in ((rb, "balanced_market"), (rg, "greedy")):
        if str(r_.get("error") or "").startswith("Timeout"):
            return [("C11/%s/crash" % nm, "run raised %s" % r_["error"])], st
    if rb.get("error") or rg.get("error") or rb["aborted"] or rg["aborted"]:
        st["skipped"] += 1
        return [], st
    h = rb["interval"].total_seconds() / 3600

    def energy(r):
        return sum(sum(c.values()) for c in r["charge"]) * h

    def cost(r):
        return sum(pr * max(t, 0) * h for pr, t in zip(r["prices"], r["total"]))
    eb, eg = energy(rb), energy(rg)
    if abs(eb - eg) > 1e-3 * max(1.0, eg):
        st["energy-differs"] += 1
        return [], st
    st["compared"] += 1
    if cost(rb) > cost(rg) + 1e-6 * max(1.0, cost(rg)):
        return [("C11/balanced_market/pays-more-than-greedy",
                 "equal energy charged (%.4f kWh) but balanced_market pays %.6f, greedy %.6f" % (eb, cost(rb), cost(rg)))], st
    return [], st


# ---------------------------------------------------------------- C: individual schedules
def gen_schedule_case(rng):
    interval = rng.choice([15, 15, 10, 60])
    dt = datetime.timedelta(minutes=interval)
    start = svc.T0 + datetime.timedelta(hours=rng.choice([0, 7, 20]))
    n = rng.choice([12, 24, 40])
    nveh = rng.choice([1, 2, 3])
    P = rng.choice([11, 22, 50])
    vt = {"name": "vt", "capacity": rng.choice([50, 100]), "mileage": 20,
          "charging_curve": [[0, P], [0.8, P], [1, P / 4]] if rng.random() < 0.3 else [[0, P], [1, P]],
          "min_charging_power": rng.choice([0, 0, 0, 1]), "v2g": False}
    fixed = rng.random() < 0.4
    fl = [round(rng.uniform(0, 20), 2) for _ in range(n + 1)] if fixed else []
    tight = rng.random() < 0.3
    gc_max = (max(fl) if fixed else 0) + (rng.choice([5, 12, P]) if tight else nveh * 2 * P + 10)
    comp = {"vehicle_types": {"vt": vt}, "vehicles": {}, "charging_stations": {}, "batteries": {}, "photovoltaics": {},
            "grid_connectors": {"GC1": {"max_power": gc_max, "cost": {"type": "fixed", "value": 0.3}}}}
    ev = {"grid_operator_signals": [], "fixed_load": {}, "local_generation": {}, "vehicle_events": []}
    if fixed:
        ev["fixed_load"]["building"] = {"start_time": svc.iso(start), "step_duration_s": interval * 60, "grid_connector_id": "GC1", "values": fl}
    sched = {}
    for k in range(nveh):
        vid, cs = "v%d" % k, "cs%d" % k
        comp["charging_stations"][cs] = {"max_power": rng.choice([P, P / 2, 2 * P]), "min_power": rng.choice([0, 0, 0, 2]), "parent": "GC1"}
        d = rng.randrange(max(2, n // 2), n + 1)
        s0 = rng.choice([0, 2, 5, 10, P, 2 * P])
        comp["vehicles"][vid] = {"vehicle_type": "vt", "soc": rng.choice([0.1, 0.3, 0.7, 0.95]), "desired_soc": rng.choice([0.5, 0.8, 1.0]),
                                 "connected_charging_station": cs, "estimated_time_of_departure": svc.iso(start + dt * d), "schedule": s0}
        changes = []
        for i in sorted(rng.sample(range(1, n), rng.choice([0, 1, 2, 4]))):      # one change per step and vehicle at most
            t = start + dt * i + datetime.timedelta(minutes=rng.choice([0, 0, 0, -2]))
            val = rng.choice([0, 1, 3, 8, P, P * 3])
            sig = rng.choice([start, t, t - dt * 2])
            ev["vehicle_events"].append({"signal_time": svc.iso(max(start - dt, sig)), "start_time": svc.iso(t), "vehicle_id": vid,
                                         "event_type": "schedule", "update": {"schedule": val}})
            changes.append((t, val))
        ev["vehicle_events"].append({"signal_time": svc.iso(start + dt * d), "start_time": svc.iso(start + dt * d), "vehicle_id": vid,
                                     "event_type": "departure", "update": {"estimated_time_of_arrival": svc.iso(start + dt * (d + 100))}})
        sched[vid] = (s0, changes)
    ev["vehicle_events"].sort(key=lambda e: e["start_time"])
    return {"js": {"scenario": {"start_time": svc.iso(start), "interval": interval, "n_intervals": n}, "components": comp, "events": ev}}


def check_schedule_case(case):
    from spice_ev.battery import Battery
    from spice_ev.loading_curve import LoadingCurve
    from spice_ev.scenario import Scenario
    import contextlib
    import io
    import warnings
    st = Counter()
    js = case["js"]
    C.setup_repo_path()
    with warnings.catch_warnings(), contextlib.redirect_stdout(io.StringIO()):
        warnings.simplefilter("ignore")
        s = Scenario(copy.deepcopy(js))
        try:
            s.run("schedule", {"LOAD_STRAT": "individual", "skip_flex_report": True})
        except Exception as e:  # noqa
            return [("C11/schedule/crash", "run raised %r" % (e,))], st
    if s.step_i != s.n_intervals:
        st["aborted"] += 1
    comp = js["components"]
    vt = comp["vehicle_types"]["vt"]
    start, dt = s.start_time, s.interval
    vids = sorted(comp["vehicles"])
    order = list(comp["vehicles"])               # dictionary order = processing order
    # schedule value per vehicle and step: an event applies from the first step starting at or after its start time
    evs = sorted([e for e in js["events"]["vehicle_events"] if e["event_type"] == "schedule"], key=lambda e: e["start_time"])
    lim = svc.limit_series(js, s.n_intervals + 1)
    v = []
    for i in range(min(s.step_i, s.n_intervals)):
        t = start + dt * i
        used = 0.0
        for vid in order:
            vidx = vids.index(vid)
            soc = s.socs[i][vidx]
            cs_id = comp["vehicles"][vid]["connected_charging_station"]
            if soc is None or cs_id not in s.connChargeByTS["GC1"][i]:
                continue
            cs = comp["charging_stations"][cs_id]
            cur = comp["vehicles"][vid]["schedule"]
            for e in evs:
                if e["vehicle_id"] == vid and datetime.datetime.fromisoformat(e["start_time"]) <= t:
                    cur = e["update"]["schedule"]
            got = s.connChargeByTS["GC1"][i][cs_id]
            p = min(cur, cs["max_power"])
            if p < cs.get("min_power", 0) or p < vt.get("min_charging_power", 0):
                p = 0
            p = max(0.0, min(p, lim[i] - used))
            b = Battery(vt["capacity"], LoadingCurve(vt["charging_curve"]), soc, vt.get("battery_efficiency", 0.95))
            want = b.load(dt, target_power=p)["avg_power"] if p > 0 else 0.0
            st["vehicle-steps"] += 1
            st["limited" if want < cur - 1e-9 else "full"] += 1
            if got < want - 1e-6:
                v.append(("C11/schedule/below-schedule",
                          "step %d vehicle %s: station power %.5f below what schedule %.3f, station %.3f, curve and head room %.3f allow (%.5f)"
                          % (i, vid, got, cur, cs["max_power"], lim[i] - used, want)))
                return v, st
            used += got
    return v, st


def run(tier):
    def extra(rep, tier_, sd):
        rng = random.Random("c11/%d" % sd)
        n = 25 if tier_ == "quick" else 300
        dist = Counter()
        for strategy in SIGNAL_STRATS:
            for i in range(n):
                case = svc.gen(rng, strategy, signal_case=True)
                viol, st = check_signal_case(case)
                for k, c in st.items():
                    dist["%s/%s" % (strategy, k)] += c
                if not rep.cov["samples"] and st.get("periods"):
                    rep.cov["samples"].append({"strategy": strategy, "scenario": svc.finish(case), "pattern": case["pattern"], "stats": dict(st)})
                for cls, what in viol:
                    rep.add_violation(cls, what, {"unit": "signal", "case": case})
        for i in range(max(6, n // 2)):
            case = gen_plw_directed(rng)
            viol, st = check_signal_case(case)
            for k, c in st.items():
                dist["plw-directed/%s" % k] += c
            for cls, what in viol:
                rep.add_violation(cls, what, {"unit": "signal", "case": case})
        for i in range(n):
            case = svc.gen(rng, "balanced_market", signal_case=rng.random() < 0.5)
            viol, st = check_cost_case(case)
            for k, c in st.items():
                dist["cost/%s" % k] += c
            for cls, what in viol:
                rep.add_violation(cls, what, {"unit": "cost", "case": case})
        for i in range(2 * n):
            case = gen_schedule_case(rng)
            viol, st = check_schedule_case(case)
            for k, c in st.items():
                dist["schedule/%s" % k] += c
            for cls, what in viol:
                rep.add_violation(cls, what, {"unit": "schedule", "case": case})
        import c07 as c07_
        c07_.window_schedule(rep, tier_, sd)       # the window flag these strategies act on, step by step
        rep.cov["evaluations"] += n * (len(SIGNAL_STRATS) + 3)
        rep.cov["distinct_nontrivial"] += sum(c for k, c in dist.items() if k.endswith("/periods") or k.endswith("compared") or k.endswith("vehicle-steps"))
        rep.notes["signal"] = {"scenarios_per_strategy": n, "dist": dict(dist)}
    # the signals these strategies follow are produced by the window-membership functions (C15) and delivered / written to the
    # vehicles and connectors by the event machinery (C07): both correspondence units are part of this check as well
    import c07
    import c15
    c15.UNIT.minutes_cases = 1 if tier == "quick" else 10
    return corr.standard_run(
        "C11", tier, [c15.UNIT, c07.UNIT], {"windows": 250, "events": 250}, {"windows": 2500, "events": 2500},
        trusted=["peak_load_window, flex_window, balanced_market and the look-ahead part of schedule (individual) are NOT modelled; "
                 "their clauses are evaluated on generated scenarios (sampled)",
                 "the harness's scenario generator, recorder around Strategy.step and battery oracle (implementation's Battery class)"],
        rule="(A) scenarios without surplus whose standing periods contain encouraged steps with >= 1.3x the needed charging time: no "
             "station power in discouraged steps, desired SoC reached (peak_load_window, flex_window balanced, balanced_market with two/"
             "three price levels, aligned and unaligned price events); (B) balanced_market vs greedy on the same scenario: equal energy "
             "=> cost not higher; (C) schedule (individual): station power >= what min(schedule, station, head room) and the curve allow, "
             "every vehicle and step, schedule-change events signalled early/late, tight connectors, minimum powers",
        extra=extra)


def replay(payload):
    inp = payload["input"]
    if inp.get("unit") == "windows":
        import c15
        return c15.replay(payload)
    if inp.get("unit") in ("events", "weekly", "windowsched"):
        import c07
        return c07.replay(payload)
    case = C.unjson(inp["case"])
    f = {"signal": check_signal_case, "cost": check_cost_case, "schedule": check_schedule_case}[inp["unit"]]
    return f(case)[0]
