#!/usr/bin/env python3
"""Writes /verif/MANIFEST.json from the table below (kept in one place so it stays valid)."""
import json
import os

V = os.path.dirname(os.path.dirname(os.path.abspath(__file__)))
ALL = ["C%02d" % i for i in range(1, 21)]

# pid -> dict(level text, note, technique, design_ref, category)
CLAIMS = {}
NA = {}


def claim(pid, text, note, technique, ref, category="proof"):
    CLAIMS[pid] = dict(text=text, note=note, technique=technique, ref=ref, category=category)


AX_R = ("Axioms (all from Coq's standard library, as Print Assumptions reports): ClassicalDedekindReals.sig_forall_dec, "
        "sig_not_dec, FunctionalExtensionality.functional_extensionality_dep (Reals)")
TB = ("Trusted: Coq 8.16.1 kernel + VM (no native_compute); the hand-written Gallina model is tied to /repo only by the exact "
      "differential correspondence run by this check (implementation executed on exact rationals via harness/ex.py, model "
      "evaluated by vm_compute on the Q instance); theorems are about the R instance of the same Num-generic term (transfer "
      "argued, not proved); IEEE rounding not modelled. ")

exec(open(os.path.join(V, "harness", "claims.py")).read())

checks = []
for pid in ALL:
    if pid in CLAIMS:
        c = CLAIMS[pid]
        checks.append({
            "property_id": pid,
            "quick_cmd": "./check %s --tier quick" % pid,
            "thorough_cmd": "./check %s --tier thorough" % pid,
            "evidence_file": "/verif/evidence/%s.json" % pid,
            "replay_cmd_template": "./check %s --replay {path}" % pid,
            "engine": "coq-model+exact-correspondence",
            "level_claimed": {"category": c["category"], "text": c["text"], "design_ref": c["ref"]},
            "level_note": c["note"],
            "technique": c["technique"],
        })
m = {
    "version": 1,
    "setup_cmd": "cd /verif/coq && /venv/bin/python ../harness/translate.py; ./configure.sh && timeout 3000 make -k -j16",
    "hooks": {"guard": "RL_INSTITUT_SPICE_EV_VERIF", "enable": "no source hooks: the harness instruments /repo by run-time "
              "monkey-patching only (PYTHONPATH=/repo)", "baseline_off_cmd":
              "cd /repo && /venv/bin/python -m pytest -ra -q -p no:cacheprovider --timeout=900 --continue-on-collection-errors",
              "source_commits": [], "add_only": True},
    "engines": [{"name": "coq-model+exact-correspondence", "path": "/verif/check",
                 "serves_properties": sorted(CLAIMS), "kind_free_text":
                 "Rocq/Coq 8.16.1 theorems over a hand-written Gallina model (Num-generic: Q executable, R for proofs), tied to "
                 "/repo on every run by exact differential correspondence (implementation executed on exact rationals) and a "
                 "fail-closed ast translator for constants and straight-line kernels"}],
    "checks": checks,
    "not_applicable": [{"property_id": p, "reason": NA.get(p, "no check built yet in this development; see DESIGN.md section 9")}
                       for p in ALL if p not in CLAIMS],
    "notes": "See DESIGN.md. fix: commits in /repo are listed in known_findings.json.",
}
json.dump(m, open(os.path.join(V, "MANIFEST.json"), "w"), indent=1)
print("claimed:", sorted(CLAIMS))
