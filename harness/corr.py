"""Generic exact differential correspondence between a Coq model unit and /repo."""
import json
import os
import random
import time
from collections import Counter

import common as C


class Unit:
    """Subclass per modelled unit.
    name      : short id (file prefix)
    header    : Coq text placed before the case list (imports, scopes)
    casetype  : Coq type of one case
    failing   : Coq function  nat -> list casetype -> list nat
    tagfn     : Coq function  casetype -> nat   (branch tag measured by the model) or None
    trivial_tags : tags that do not count as non-trivial
    per_file  : max cases per .v file
    """
    name = "unit"
    header = ""
    casetype = "case"
    failing = "failing"
    tagfn = "tag"
    trivial_tags = ()
    per_file = 250

    def generate(self, rng, n, biased=False):
        raise NotImplementedError

    def run_impl(self, case):
        """run the implementation (from /repo, exact numbers); returns outputs"""
        raise NotImplementedError

    def emit(self, case, out):
        """Coq term of type casetype holding inputs and the implementation's outputs"""
        raise NotImplementedError

    def check_property(self, case, out):
        """independent Python statement of the property, evaluated on implementation
        behaviour; returns list of (cls, what)"""
        return []

    def key(self, case):
        return json.dumps(C.jsonable(case), sort_keys=True)

    def corpus(self):
        d = os.path.join(C.VERIF, "corpus", self.name)
        out = []
        if os.path.isdir(d):
            for fn in sorted(os.listdir(d)):
                if fn.endswith(".json"):
                    out.append(C.unjson(json.load(open(os.path.join(d, fn)))))
        return out


def correspond(unit, n, seed, rep, biased=False, label=None, check_model=True):
    """returns dict(ok, evaluations, nontrivial, failing=[case...], dist, samples)"""
    t0 = time.time()
    rng = random.Random("%s/%s/%d" % (unit.name, "b" if biased else "n", seed))
    cases = list(unit.corpus()) if not biased else []
    n_corpus = len(cases)
    cases += unit.generate(rng, n, biased=biased)
    outs = []
    viol = 0
    for cs in cases:
        o = unit.run_impl(cs)
        outs.append(o)
        for cls, what in unit.check_property(cs, o):
            rep.add_violation(cls, what, {"unit": unit.name, "case": cs})
            viol += 1
    res = {"ok": True, "evaluations": len(cases), "corpus": n_corpus, "failing": [], "dist": {},
           "property_violations": viol, "impl_s": round(time.time() - t0, 2)}
    keys = [unit.key(c) for c in cases]
    tags = [None] * len(cases)
    if check_model:
        files = []
        idx = list(range(len(cases)))
        for k, ch in enumerate(C.chunks(idx, unit.per_file)):
            body = ";\n".join(unit.emit(cases[i], outs[i]) for i in ch)
            txt = unit.header + "\nDefinition cases : list (%s) := [\n%s\n].\n" % (unit.casetype, body)
            if getattr(unit, "both", None):
                txt += "Eval vm_compute in (map (%s) cases).\n" % unit.both
            else:
                txt += "Eval vm_compute in (%s 0%%nat cases).\n" % unit.failing
                if unit.tagfn:
                    txt += "Eval vm_compute in (map (%s) cases).\n" % unit.tagfn
            files.append(("%s_%s%d_%d" % (unit.name, "b" if biased else "n", seed % 100000, k), txt, ch))
        results = C.eval_case_files([(n_, t_) for n_, t_, _ in files])
        for n_, _, ch in files:
            rc, vals, log = results[n_]
            if rc != 0 or len(vals) < 1:
                res["ok"] = False
                res["failing"].append({"file": n_, "error": log[-1500:]})
                continue
            if getattr(unit, "both", None):
                codes = C.parse_natlist(vals[0])
                bad = [j for j, c_ in enumerate(codes) if c_ % 2 == 1]
                for j, c_ in zip(ch, codes):
                    tags[j] = c_ // 2
            else:
                bad = C.parse_natlist(vals[0])
            for j in bad:
                res["ok"] = False
                res["failing"].append({"case": cases[ch[j]], "impl": outs[ch[j]]})
            if unit.tagfn and len(vals) > 1 and not getattr(unit, "both", None):
                tg = C.parse_natlist(vals[1])
                for j, t in zip(ch, tg):
                    tags[j] = t
    res["dist"] = dict(Counter(str(t) for t in tags))
    distinct = {}
    for k_, t in zip(keys, tags):
        distinct[k_] = t
    res["nontrivial"] = sum(1 for t in distinct.values() if t not in unit.trivial_tags)
    res["distinct"] = len(distinct)
    res["samples"] = [{"case": cases[i], "impl": outs[i]} for i in range(min(2, len(cases)))]
    res["wall_s"] = round(time.time() - t0, 2)
    rep.cov["evaluations"] += len(cases)
    rep.cov["programs_compared"] = rep.cov.get("programs_compared", 0) + len(cases)     # each case: two executions compared
    rep.cov["distinct_nontrivial"] += res["nontrivial"]
    rep.cov["samples"] += res["samples"][:1]
    rep.notes.setdefault("correspondence", {})[label or unit.name + ("/biased" if biased else "")] = {
        k: res[k] for k in ("evaluations", "corpus", "distinct", "nontrivial", "dist", "wall_s", "impl_s",
                            "property_violations")}
    rep.notes["correspondence"][label or unit.name + ("/biased" if biased else "")]["disagreements"] = len(res["failing"])
    return res


def standard_run(pid, tier, units, n_quick, n_thorough, trusted, rule, level_parts=None, extra=None,
                 search_factor=3):
    """The check of section 6 of DESIGN.md for one property."""
    rep = C.Report(pid, tier)
    sd = C.seed()
    tr_ok, log = C.build()
    if not tr_ok:
        rep.add_broken("translator (T1)", log[-800:])
    bad = C.gate()
    if bad:
        rep.add_broken("gate: forbidden vernacular", bad[:10])
    au = C.audit_props(pid)
    thms = [t for t in au["theorems"]]
    rep.cov["obligations"] = len(thms)
    rep.cov["discharged"] = len(thms) if au["ok"] else 0
    rep.cov["checker_cmd"] = "cd /verif/coq && ./configure.sh && make -k -j16 && coqc <flags> props/%s.v  (Print Assumptions audited)" % pid
    rep.cov["trusted_base"] = C.TRUSTED_COMMON + trusted + ["axioms reported by Print Assumptions: " + (", ".join(au["axioms"]) or "none")]
    rep.notes["theorems"] = thms
    rep.notes["axioms"] = au["axioms"]
    rep.cov["rule"] = rule
    if not au["ok"]:
        rep.add_broken("props/%s.v" % pid, au["log"][-1500:] + (" bad axioms: %s" % au["bad_axioms"] if au["bad_axioms"] else ""))
    n = n_thorough if tier == "thorough" else n_quick
    all_ok = True
    for u in units:
        nn = n[u.name] if isinstance(n, dict) else n
        r = correspond(u, nn, sd, rep)
        if not r["ok"]:
            all_ok = False
            f0 = r["failing"][0]
            rep.add_broken("correspondence %s (model vs /repo): %d disagreement(s)" % (u.name, len(r["failing"])), f0)
    if extra:
        extra(rep, tier, sd)
    if rep.broken and not rep.violations:
        # something no longer checks: search the implementation for a failing input of the property
        for u in units:
            nn = n[u.name] if isinstance(n, dict) else n
            correspond(u, nn * search_factor, sd + 1, rep, biased=True, check_model=False)
            if rep.violations:
                break
    if tier == "thorough" and not rep.broken:
        rc, out = C.sh("timeout 1500 coqchk -silent -o %s SVP.%s 2>&1" % (
            " ".join("-Q %s %s" % (d, l) for d, l in (("theories", "SV"), ("generated", "SVG"), ("props", "SVP"))), pid),
            cwd=C.COQ, timeout=1600)
        tail = out[-2500:]
        rep.notes["coqchk"] = tail
        ok = rc == 0 and "CONTEXT SUMMARY" in tail
        for key in ("type-in-type", "unsafe (co)fixpoints", "positivity is assumed"):
            # each of these sections must read <none>
            i = tail.find(key)
            if i < 0 or "<none>" not in tail[i:i + len(key) + 12]:
                ok = False
        if ok:
            # axioms reported by the independent checker must be on the allow-list too
            i = tail.find("* Axioms:")
            j = tail.find("* Constants/Inductives relying on type-in-type")
            ax = [l.strip() for l in tail[i + 9:j].splitlines() if l.strip() and l.strip() != "<none>"]
            rep.notes["coqchk_axioms"] = ax
            rep.cov["trusted_base"].append("axioms of every loaded library as listed by coqchk -o (superset of Print Assumptions): " + ("; ".join(ax) or "none"))
        else:
            rep.add_broken("coqchk props/%s" % pid, tail[-800:])
    return rep.finish()
