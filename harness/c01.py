"""C01 / C02 — Battery: SoC bounds, energy conservation, analytic step."""
import datetime
import math
from fractions import Fraction as F

import common as C
import corr
from ex import Ex, fr

CALLS = []          # oracle log of the current case: (kind, arg, result)
E5 = F(1e-5)        # the double the code writes as 1e-5


def _arg(x):
    return x.v if isinstance(x, Ex) else F(x)


def rexp(x):
    a = _arg(x)
    try:
        r = math.exp(float(x))
    except OverflowError:
        CALLS.append((2, a, F(0)))
        raise
    CALLS.append((0, a, F(r)))
    return r


def rlog(x):
    a = _arg(x)
    try:
        r = math.log(float(x))
    except ValueError:
        if a > 0:
            CALLS.append((3, a, F(0)))
        raise
    except OverflowError:
        CALLS.append((4, a, F(0)))
        raise
    CALLS.append((1, a, F(r)))
    return r


ORACLE_STATS = {"checked": 0, "max_rel_err": 0.0}


def validate_oracle(tbl):
    """every recorded libm result against 60-digit decimal arithmetic: the float handed to the implementation (and, as an
    exact rational, to the Q model) must be within 2^-51 relative of the true exp / ln the theorems on R talk about.
    returns a list of offending entries"""
    import decimal
    bad = []
    ctx = decimal.Context(prec=60, Emax=10**6, Emin=-10**6)
    for kind, a, r in tbl:
        if kind not in (0, 1) or r == 0:
            continue
        try:
            x = ctx.divide(decimal.Decimal(a.numerator), decimal.Decimal(a.denominator))
            true = ctx.exp(x) if kind == 0 else ctx.ln(x)
            got = ctx.divide(decimal.Decimal(r.numerator), decimal.Decimal(r.denominator))
            # the exact-rational argument is rounded to a double before libm is called: allow that rounding, amplified by the
            # function's conditioning — exp: relative error <= 2^-51 (1 + |x|); ln: absolute error <= 2^-51 (1 + |ln x|)
            diff = abs(ctx.subtract(got, true))
            if kind == 0:
                err = float(ctx.divide(diff, abs(true))) / (1 + abs(float(x)))
            else:
                err = float(diff) / (1 + abs(float(true)))
        except (decimal.InvalidOperation, decimal.Overflow, ZeroDivisionError):
            continue
        ORACLE_STATS["checked"] += 1
        ORACLE_STATS["max_rel_err"] = max(ORACLE_STATS["max_rel_err"], err)
        if err > 2.0 ** -51:
            bad.append((kind, float(a), float(r), err))
    return bad


def install():
    from spice_ev import battery
    battery.exp = rexp
    battery.log = rlog
    return battery


POW = [3.7, 11, 22, 50, 150, 0.5]


def gen_curve(rng):
    k = rng.choice([1, 1, 2, 2, 3, 4, 6])
    xs = sorted(rng.sample(range(1, 20), k - 1)) if k > 1 else []
    xs = [F(0)] + [F(x, 20) for x in xs] + [F(1)]
    shape = rng.choice(['const', 'const', 'taper', 'taper', 'rise', 'zeroend', 'rand', 'zerostart', 'pos'])
    P = F(rng.choice(POW))
    if shape == 'const':
        ys = [P] * len(xs)
    elif shape == 'taper':
        ys = [P] * (len(xs) - 1) + [P * rng.choice([F(1, 10), F(1, 2), F(1, 50)])]
    elif shape == 'rise':
        ys = [P * rng.choice([F(1, 5), F(1, 2)])] + [P] * (len(xs) - 1)
    elif shape == 'zeroend':
        ys = [P] * (len(xs) - 1) + [F(0)]
    elif shape == 'zerostart':
        ys = [F(0)] + [P] * (len(xs) - 1)
    elif shape == 'pos':
        ys = [P * F(rng.randint(1, 8), 8) for _ in xs]
    else:
        ys = [rng.choice([F(0), P / 4, P / 2, P]) for _ in xs]
    pts = [[x, y] for x, y in zip(xs, ys)]
    rng.shuffle(pts)
    return pts


def curve_at(pts, s):
    pts = sorted(pts, key=lambda p: p[0])
    if s <= pts[0][0]:
        return pts[0][1]
    for (a, pa), (b_, pb) in zip(pts, pts[1:]):
        if a <= s <= b_:
            return pa + (pb - pa) * (s - a) / (b_ - a)
    return pts[-1][1]


def curve_max_on(pts, lo, hi):
    xs = [lo, hi] + [p[0] for p in pts if lo <= p[0] <= hi]
    return max(curve_at(pts, min(max(x, F(0)), F(1))) for x in xs)


class BatUnit(corr.Unit):
    name = "battery"
    header = ("From Coq Require Import ZArith QArith List Bool.\nFrom SV Require Import Num Curve Battery BatteryRun.\n"
              "Import ListNotations.\nOpen Scope Q_scope.\n")
    casetype = "bcase"
    failing = "failing"
    tagfn = "tag"
    runfn = "run_bcase"
    trivial_tags = (None, 0)
    per_file = 60
    positive_only = False      # C02: strictly positive curve power

    def generate(self, rng, n, biased=False):
        cases = []
        for _ in range(n):
            unlimited = rng.random() < 0.08
            cap = F(2**64) if unlimited else F(rng.choice([0.5, 10, 50, 76.5, 315, 1000, 40]))
            if unlimited:
                p = F(rng.choice([5, 11, 100]))
                lcp = [[F(0), p], [F(1), p]]
                ucp = None
            else:
                lcp = gen_curve(rng)
                ucp = gen_curve(rng) if rng.random() < 0.4 else None
                if self.positive_only:
                    while min(p[1] for p in lcp) <= 0:
                        lcp = gen_curve(rng)
                    while ucp and min(p[1] for p in ucp) <= 0:
                        ucp = gen_curve(rng)
            eff = F(rng.choice([1, 0.95, 0.9, 0.5, 0.75, 0.875]))
            xs = sorted(p[0] for p in lcp)
            soc = rng.choice([F(0), F(1, 5), F(1, 2), F(4, 5), F(1), F(-3, 10), F(rng.randint(-10, 20), 20),
                              F(rng.random()), rng.choice(xs), rng.choice(xs) - E5 / cap / 2, rng.choice(xs) + E5 / cap / 2])
            soc = min(soc, F(1))
            ops = []
            for _ in range(rng.randint(1, 5)):
                kind = rng.choice(['load', 'load', 'unload', 'unload', 'avail'])
                secs = rng.choice([1, 60, 300, 900, 900, 3600, 3600, 36000, 5 * 86400, 0])
                mp = rng.choice([None, None, 0, 3, 11, 30, 1000, 0.05])
                mode = rng.choice(['none', 'none', 'soc', 'power'])
                if rng.random() < 0.01:
                    mode = 'both'
                ts = tp = None
                if mode in ('soc', 'both'):
                    ts = F(rng.choice([0, 0.3, 0.5, 0.8, 1, 1.2, -0.1, rng.random()]))
                if mode in ('power', 'both'):
                    tp = F(rng.choice([0, 1, 5, 11, 22, 100, 0.01]))
                ops.append({"op": kind, "secs": secs, "mp": None if mp is None else F(mp), "ts": ts, "tp": tp})
            cases.append({"cap": cap, "eff": eff, "soc": soc, "lc": lcp, "uc": ucp, "ops": ops})
        return cases

    # ---- implementation on exact numbers
    def run_impl(self, case):
        battery = install()
        from spice_ev.loading_curve import LoadingCurve
        del CALLS[:]

        def mkc(pts):
            return LoadingCurve([(Ex(a), Ex(b_)) for a, b_ in pts])
        b = battery.Battery(Ex(case["cap"]), mkc(case["lc"]), Ex(case["soc"]), Ex(case["eff"]),
                            mkc(case["uc"]) if case["uc"] else None)
        res = []
        for o in case["ops"]:
            td = datetime.timedelta(seconds=o["secs"])
            mp = None if o["mp"] is None else Ex(o["mp"])
            ts = None if o["ts"] is None else Ex(o["ts"])
            tp = None if o["tp"] is None else Ex(o["tp"])
            before = fr(b.soc)
            try:
                if o["op"] == 'load':
                    r = b.load(td, max_power=mp, target_soc=ts, target_power=tp)
                elif o["op"] == 'unload':
                    r = b.unload(td, max_power=mp, target_soc=ts, target_power=tp)
                else:
                    r = {'avg_power': b.get_available_power(td), 'soc_delta': 0}
                res.append({"avg": fr(r['avg_power']), "delta": fr(r['soc_delta']), "soc": fr(b.soc), "before": before})
            except Exception as e:  # noqa
                res.append({"err": C.err(e), "before": before, "exc": repr(e)[:120]})
                break
        out_ = {"res": res, "tbl": list(CALLS), "eps": fr(b.EPS), "uc_pts": [[fr(a), fr(b_)] for a, b_ in b.unloading_curve.points]}
        out_["oracle_bad"] = validate_oracle(out_["tbl"])
        return out_

    def emit(self, case, out):
        def tg(o):
            if o["ts"] is not None and o["tp"] is not None:
                return "(TBoth %s %s)" % (C.q(o["ts"]), C.q(o["tp"]))
            if o["ts"] is not None:
                return "(TSoc %s)" % C.q(o["ts"])
            if o["tp"] is not None:
                return "(TPower %s)" % C.q(o["tp"])
            return "TNone"
        ops = []
        for o in case["ops"]:
            h = F(datetime.timedelta(seconds=o["secs"]).total_seconds() / 3600.0)
            if o["op"] == 'load':
                ops.append("OLoad %s %s %s" % (C.q(h), C.qopt(o["mp"]), tg(o)))
            elif o["op"] == 'unload':
                ops.append("OUnload %s %s %s" % (C.q(h), C.qopt(o["mp"]), tg(o)))
            else:
                ops.append("OAvail %s" % C.q(h))
        exp = []
        for r in out["res"]:
            exp.append("Err %s" % r["err"] if "err" in r else "Ok (%s,%s,%s)" % (C.q(r["avg"]), C.q(r["delta"]), C.q(r["soc"])))

        def pl(ps):
            return C.lst("(%s,%s)" % (C.q(a), C.q(b_)) for a, b_ in ps)
        tbl = C.lst("(%d%%nat,%s,%s)" % (k, C.q(a), C.q(r)) for k, a, r in out["tbl"])
        return ("{| b_cap:=%s; b_eps:=%s; b_eff:=%s; b_soc:=%s; b_lc:=%s; b_uc:=%s; b_tbl:=%s; b_ops:=%s; b_exp:=%s |}" % (
            C.q(case["cap"]), C.q(E5 / case["cap"]), C.q(case["eff"]), C.q(case["soc"]), pl(case["lc"]),
            pl(case["uc"] if case["uc"] else case["lc"]), tbl, C.lst(ops), C.lst(exp)))

    # ---- C01 stated on implementation behaviour
    def check_property(self, case, out):
        v = []
        cap, eff = case["cap"], case["eff"]
        eps = E5 / cap
        lc = case["lc"]
        uc = case["uc"] if case["uc"] else case["lc"]
        for o, r in zip(case["ops"], out["res"]):
            admissible = not (o["ts"] is not None and o["tp"] is not None) and (o["mp"] is None or o["mp"] >= 0)
            if not admissible:
                continue
            T = F(datetime.timedelta(seconds=o["secs"]).total_seconds() / 3600.0)
            s0 = r["before"]
            desc = "%s(T=%ss, max_power=%s, target_soc=%s, target_power=%s) cap=%s eff=%s soc=%s curve=%s" % (
                o["op"], o["secs"], o["mp"], o["ts"], o["tp"], cap, eff, s0, lc if o["op"] == 'load' else uc)
            if "err" in r:
                pts = lc if o["op"] == 'load' else uc
                zero = s0 <= 1 and curve_at(pts, max(s0, F(0))) == 0
                v.append(("C01/error-at-zero-power" if zero else "C01/error", "%s raised %s: %s" % (desc, r["err"], r.get("exc"))))
                continue
            s1, avg, d = r["soc"], r["avg"], r["delta"]
            if o["op"] == 'avail':
                if s1 != s0:
                    v.append(("C01/avail-changes-state", desc))
                continue
            if avg < 0:
                v.append(("C01/negative-power", "%s -> avg %s" % (desc, avg)))
            if o["op"] == 'load':
                tgt = o["ts"] if o["ts"] is not None else (s0 + o["tp"] * eff * T / cap if o["tp"] is not None else F(1))
                if s1 < s0 or s1 > 1 or s1 > max(s0, min(F(1), tgt)) + eps:
                    v.append(("C01/soc-bounds", "%s: soc %s -> %s (target %s)" % (desc, s0, s1, tgt)))
                if d != s1 - s0:
                    v.append(("C01/soc-delta", "%s: reported delta %s, actual %s" % (desc, d, s1 - s0)))
                if abs(avg * T * eff - cap * (s1 - s0)) > cap * eps:
                    v.append(("C01/energy", "%s: avg*T*eff = %s, stored = %s" % (desc, float(avg * T * eff), float(cap * (s1 - s0)))))
                lim = curve_max_on(lc, max(s0, F(0)), s1)
                if o["mp"] is not None:
                    lim = min(lim, o["mp"])
                if avg > lim * (1 + F(1, 10**9)) + eps:
                    near = any(abs(s0 - x) < eps for x, _ in lc)
                    v.append(("C01/power-limit-negative-soc" if s0 < 0 else "C01/power-limit/eps-breakpoint" if near else "C01/power-limit",
                              "%s: avg %s exceeds limit/curve %s" % (desc, float(avg), float(lim))))
            else:
                tgt = o["ts"] if o["ts"] is not None else (s0 - o["tp"] / eff * T / cap if o["tp"] is not None else F(0))
                floor = max(min(s0, F(0)), tgt)
                if s1 > s0 or s1 < min(s0, floor) - eps:
                    v.append(("C01/soc-bounds", "%s: soc %s -> %s (floor %s)" % (desc, s0, s1, floor)))
                if s0 < 0 and s1 != s0:
                    v.append(("C01/soc-bounds", "%s: negative soc changed %s -> %s" % (desc, s0, s1)))
                if d != s0 - s1:
                    v.append(("C01/soc-delta", "%s: reported delta %s, actual %s" % (desc, d, s0 - s1)))
                if abs(avg * T / eff - cap * (s0 - s1)) > cap * eps:
                    v.append(("C01/energy", "%s: avg*T/eff = %s, released = %s" % (desc, float(avg * T / eff), float(cap * (s0 - s1)))))
                lim = curve_max_on(uc, max(s1, F(0)), max(s0, F(0)))
                if o["mp"] is not None:
                    lim = min(lim, o["mp"])
                if avg > lim * (1 + F(1, 10**9)) + eps:
                    near = any(abs(s0 - x) < eps for x, _ in uc)
                    v.append(("C01/power-limit/eps-breakpoint" if near else "C01/power-limit",
                              "%s: avg %s exceeds limit/curve %s" % (desc, float(avg), float(lim))))
        return v[:3]


UNIT = BatUnit()
TRUSTED = ["exp/log oracle: spice_ev.battery.exp/log are replaced by recording wrappers around math.exp/math.log; the Q model "
           "answers transcendental calls from that table (a miss is an error), theorems are about the true exp/ln on R",
           "float artefacts of math.exp/log (OverflowError, underflow to log(0)) are replayed from the table, not modelled"]
RULE = ("random call sequences (1-5 of load/unload/get_available_power) on one battery: curves with 1-6 sections (constant, "
        "tapered, rising, zero end points, random), shuffled points, capacities 0.5..1000 kWh and the 2^64 'unlimited' battery "
        "with constant curve, efficiencies {1,.95,.9,.875,.75,.5}, start SoC in [-0.5,1] incl. break points +-EPS/2, durations 0 s "
        "to 5 d, every combination of max_power / target_soc / target_power (1% inadmissible 'both'); non-trivial = distinct "
        "sequence in which energy moved, exp/ln was used or an error path was taken")


def float_unlimited(rep, tier, sd):
    """the 'unlimited' stationary battery (capacity -1 -> 2^64 kWh) in plain floats: a SoC change of power*T/2^64 is
    absorbed by any SoC that is not tiny, the code's own assertion 'energy_delta > 0' then fails (float-level finding,
    outside the exact-arithmetic model)"""
    import datetime
    import random
    C.setup_repo_path()
    from spice_ev.components import StationaryBattery
    rng = random.Random("c01/unl/%d" % sd)
    n = 0
    for _ in range(20 if tier == "quick" else 200):
        soc = rng.choice([0.0, 0.0, 1e-12, 0.25, 0.5, 0.9, 1.0])
        p = rng.choice([1, 10, 50, 1000])
        b = StationaryBattery({"parent": "GC1", "capacity": -1, "charging_curve": [[0, p], [1, p]], "soc": soc})
        for op in ("load", "unload"):
            n += 1
            try:
                r = getattr(b, op)(datetime.timedelta(minutes=rng.choice([1, 15, 60])), max_power=rng.choice([p, p / 2]))
                if r["avg_power"] < 0 or not (0 <= b.soc <= 1):
                    rep.add_violation("C01/unlimited-float", "unlimited battery soc=%r %s -> avg %r soc %r" % (soc, op, r["avg_power"], b.soc),
                                      {"unit": "unlimited-float", "case": {"soc": soc, "p": p, "op": op}})
            except Exception as e:  # noqa
                rep.add_violation("C01/unlimited-float-absorption", "unlimited battery (capacity -1) at SoC %r: %s(max_power=%s) raised %s"
                                  % (soc, op, p, type(e).__name__), {"unit": "unlimited-float", "case": {"soc": soc, "p": p, "op": op}})
    rep.cov["evaluations"] += n
    rep.notes["unlimited_float_calls"] = n


def components_glue(rep, tier, sd):
    """components.py builds the batteries: the discharge (unloading) curve handed to Battery must be the component's
    discharge curve — explicit or derived — and discharging must stay within it (implementation-level, floats)"""
    import datetime
    import random
    C.setup_repo_path()
    from spice_ev.components import StationaryBattery, VehicleType, Vehicle
    rng = random.Random("c01/glue/%d" % sd)
    n = 0
    for _ in range(30 if tier == "quick" else 300):
        P = rng.choice([10, 22, 50])
        cc = [[0, P], [0.8, P], [1, P / 2]] if rng.random() < 0.5 else [[0, P], [1, P]]
        dc = rng.choice([None, [[0, 0], [0.2, P / 4], [1, P / 4]], [[0, P / 5], [1, P / 5]], [[0, 0], [0.5, 0], [1, 2 * P]]])
        soc = rng.choice([0.1, 0.3, 0.6, 0.9, 1.0])
        spec = {"parent": "GC1", "capacity": rng.choice([20, 100]), "charging_curve": cc, "soc": soc}
        if dc is not None:
            spec["discharge_curve"] = dc
        kind = rng.choice(["battery", "vehicle"])
        if kind == "battery":
            obj = StationaryBattery(spec)
        else:
            # the vehicle's battery discharges along its type's discharge curve whether or not the type takes part in V2G
            factor = rng.choice([0.5, 1, 0.25])
            vt = {"name": "vt", "capacity": spec["capacity"], "charging_curve": cc, "v2g": rng.random() < 0.5, "v2g_power_factor": factor}
            if dc is not None:
                vt["discharge_curve"] = dc
            vtype = VehicleType(vt)
            obj = Vehicle({"vehicle_type": "vt", "soc": soc}, {"vt": vtype}).battery
            dcurve = vtype.discharge_curve
            if dc is None:
                # derived discharge curve: v2g_power_factor times the charging curve, point by point (independent of clamped())
                exp_pts = [(float(s_), float(p_) * factor) for s_, p_ in cc]
                got_pts = [(float(s_), float(p_)) for s_, p_ in dcurve.points]
                if len(exp_pts) != len(got_pts) or any(abs(a[0] - b_[0]) > 1e-12 or abs(a[1] - b_[1]) > 1e-9 for a, b_ in zip(exp_pts, got_pts)):
                    rep.add_violation("C01/components-default-discharge-curve", "vehicle type %r: derived discharge curve %r is not %s x the charging curve %r"
                                      % (vt, got_pts, factor, exp_pts), {"unit": "glue", "case": {"spec": vt, "kind": kind}})
                    continue
        want = ((obj.discharge_curve if obj.discharge_curve is not None else obj.charging_curve) if kind == "battery" else dcurve)
        n += 1
        if [tuple(p) for p in obj.unloading_curve.points] != [tuple(p) for p in want.points]:
            rep.add_violation("C01/components-discharge-curve", "%s built from %r: Battery.unloading_curve %r is not the component's discharge curve %r"
                              % (kind, spec, obj.unloading_curve.points, want.points), {"unit": "glue", "case": {"spec": spec, "kind": kind}})
            continue
        T = datetime.timedelta(minutes=rng.choice([5, 15, 60]))
        s0 = obj.soc
        p_av = obj.get_available_power(T)
        if obj.soc != s0:
            rep.add_violation("C01/avail-changes-state", "%s: get_available_power changed the SoC %r -> %r" % (kind, s0, obj.soc), {"unit": "glue", "case": {"spec": spec}})
        r = obj.unload(T)
        lim = max(p for _, p in want.points)
        if r["avg_power"] > lim * (1 + 1e-9) + 1e-9 or p_av > lim * (1 + 1e-9) + 1e-9:
            rep.add_violation("C01/power-limit", "%s built from %r: discharge %r / available %r exceeds the discharge curve maximum %r"
                              % (kind, spec, r["avg_power"], p_av, lim), {"unit": "glue", "case": {"spec": spec, "kind": kind}})
    rep.cov["evaluations"] += n
    rep.notes["components_glue_cases"] = n


def run(tier):
    def extra(rep, tier_, sd):
        float_unlimited(rep, tier_, sd)
        components_glue(rep, tier_, sd)
        rep.notes["exp_log_oracle"] = dict(ORACLE_STATS, bound="normalised error <= 2^-51 (exp: relative/(1+|x|), ln: absolute/(1+|ln x|)), against 60-digit decimal arithmetic")
        if ORACLE_STATS["max_rel_err"] > 2.0 ** -51:
            rep.add_broken("exp/log oracle: a libm result is further than the normalised bound 2^-51 from the true value", ORACLE_STATS)
    import c03
    # the curve unit (lookup / clamping, C03) is part of this check: every battery operation acts through it
    return corr.standard_run("C01", tier, [UNIT, c03.UNIT], {"battery": 400, "curve": 300}, {"battery": 6000, "curve": 3000}, TRUSTED, RULE, extra=extra)


def replay(payload):
    case = payload["input"]["case"]
    if payload["input"].get("unit") == "curve":
        import c03
        return c03.replay(payload)
    if payload["input"].get("unit") in ("unlimited-float", "glue"):
        rep = C.Report("C01", "quick")
        (float_unlimited if payload["input"]["unit"] == "unlimited-float" else components_glue)(rep, "quick", C.seed())
        for v in rep.violations:
            print("VIOLATION-REPLAY %s: %s" % (v["cls"], v["what"]))
        return 1 if rep.violations else 0
    out = UNIT.run_impl(case)
    v = UNIT.check_property(case, out)
    for cls, what in v:
        print("VIOLATION-REPLAY %s: %s" % (cls, what))
    print("replay: %d violation(s)" % len(v))
    return 1 if v else 0
