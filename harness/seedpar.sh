#!/bin/sh
# usage: seedpar.sh <PID> <worktree with the patch applied> [tier]
# runs ./check PID in a private copy of /verif against the given worktree (VERIF_REPO), so that several
# seeded changes can be tried at once and /repo is never touched.  Prints the verdict lines, removes the copy.
PID=$1; WT=$2; TIER=${3:-quick}
CP=$(mktemp -d /tmp/vseed.XXXXXX)
rsync -a --exclude .git --exclude seeded --exclude replays --exclude evidence /verif/ $CP/
mkdir -p $CP/evidence $CP/replays
( cd $CP && VERIF_REPO=$WT PYTHONPATH=$WT PYTHONHASHSEED=0 PYTHONDONTWRITEBYTECODE=1 \
    timeout 3000 /venv/bin/python harness/check.py $PID --tier $TIER > $CP/out.log 2>&1 ); RC=$?
grep -E "VIOLATION|KNOWN-FINDING|PASS|FAIL" $CP/out.log | cut -c1-300 | head -12
echo "check exit=$RC"
if [ -n "$KEEP_REPLAY" ]; then mkdir -p /tmp/seedreplays; cp -r $CP/replays/. /tmp/seedreplays/ 2>/dev/null; cp $CP/out.log /tmp/seedreplays/$PID.$(basename $WT).log; fi
rm -rf $CP
exit 0
