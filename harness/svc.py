"""Shared scenario family and run recorder for the service-level properties C09 (demands met by departure)
and C11 (signal-driven strategies follow their signal).  Implementation-level: /repo is executed in plain floats."""
import contextlib
import copy
import datetime
import io
import json
import math
import os
import shutil
import tempfile
import warnings

import common as C

TZ = datetime.timezone(datetime.timedelta(hours=1))
T0 = datetime.datetime(2021, 3, 1, 0, 0, tzinfo=TZ)
# strategies for which the minimum-power sliver is a catalogued finding; the others get no minimum power here
MINPOWER_STRATS = ("greedy", "balanced", "distributed")
TIME_LIMIT = 60
STRATS = ["greedy", "balanced", "balanced_market", "peak_load_window", "flex_window", "distributed"]


def iso(t):
    return t.isoformat()


def gen(rng, strategy, signal_case=False, shared=False):
    """one-connector scenario whose standing periods are feasible with a chosen margin.
    signal_case: the encouraged periods alone suffice with >= 1.3x margin (C11)"""
    interval = rng.choice([15, 15, 15, 10, 30, 60])
    dt = datetime.timedelta(minutes=interval)
    start = T0 + datetime.timedelta(hours=rng.choice([0, 6, 13, 22]), minutes=rng.choice([0, 0, interval]))
    horizon_steps = int(rng.choice([10, 14, 20]) * 60 / interval)
    n = horizon_steps
    nveh = rng.choice([1, 1, 2, 3, 4]) if not signal_case else rng.choice([1, 1, 2, 3])
    tight = rng.random() < (0.35 if not signal_case else 0.3)       # single vehicle, connector head room binding at times
    # directed: everything encouraged lies late, where the head room is small (rising fixed load / lowered limit)
    directed = (not signal_case) and strategy in ("balanced_market", "peak_load_window", "flex_window") and rng.random() < 0.3
    if directed:
        tight = True
    if shared:
        # several vehicles share a connector that can serve about one of them at full power: feasible by construction
        # (finish() serves them one after the other and places each departure after its own finishing step)
        tight, directed = False, False
        nveh = rng.choice([2, 2, 3])
    if tight:
        nveh = 1
    P = rng.choice([11, 22, 50])
    taper = rng.random() < 0.4
    vt = {"name": "vt", "capacity": rng.choice([30, 50, 76]), "mileage": 20,
          "charging_curve": [[0, P], [0.8, P], [1, P / 4]] if taper else [[0, P], [1, P]],
          "min_charging_power": 0 if rng.random() < 0.85 or strategy not in MINPOWER_STRATS else rng.choice([1, 2]), "v2g": False}
    cs_p = rng.choice([P, P, P / 2, 2 * P])
    fixed = (rng.random() < 0.5 or (directed and strategy != "peak_load_window")) and not shared
    fl_vals = [round(rng.uniform(0, 30), 2) for _ in range(n + 2)] if fixed else []
    if fixed and tight and not directed and rng.random() < 0.4:
        # a block of high building load in the middle (little head room there), low before and after
        a_ = rng.randrange(1, max(2, n // 2))
        b2_ = min(n, a_ + rng.randrange(2, max(3, n // 3)))
        hi_ = round(rng.uniform(12, 30), 2)
        fl_vals = [hi_ if a_ <= i < b2_ else 2.0 for i in range(n + 2)]
    elif fixed and (rng.random() < 0.4 or directed):
        k = rng.randrange(1, n)
        fl_vals = [5.0] * k + [round(rng.uniform(20, 40), 2)] * (n + 2 - k)       # load rising later
    gc_max = nveh * cs_p + (max(fl_vals) if fixed else 0) + rng.choice([1, 10, 100])
    if shared:
        gc_max = cs_p + rng.choice([1, 3])
    if tight and (rng.random() < 0.5 or (directed and fixed)):
        gc_max = (max(fl_vals) if fixed else 0) + rng.choice([2, 5, cs_p / 2])
    comp = {"vehicle_types": {"vt": vt}, "vehicles": {}, "charging_stations": {}, "batteries": {}, "photovoltaics": {},
            "grid_connectors": {"GC1": {"max_power": gc_max, "voltage_level": "MV", "grid_operator": "op",
                                        "cost": {"type": "fixed", "value": 0.3}}}}
    ev = {"grid_operator_signals": [], "fixed_load": {}, "local_generation": {}, "vehicle_events": []}
    if fixed:
        ev["fixed_load"]["building"] = {"start_time": iso(start), "step_duration_s": interval * 60, "grid_connector_id": "GC1",
                                        "values": fl_vals}
    # the signal: a boolean pattern over steps (True = encouraged)
    pat = [True] * n
    kind = rng.choice(["block", "block", "alternating", "late", "early", "none"]) if not directed else "late"
    if shared and rng.random() < 0.7:
        kind = "late"        # the encouraged part lies late: not all vehicles can wait for it
    if kind == "block":
        a = rng.randrange(0, n)
        b_ = min(n, a + rng.randrange(1, max(2, n // 2)))
        pat = [not (a <= i < b_) for i in range(n)]
    elif kind == "alternating":
        w = rng.choice([2, 4, 6])
        pat = [(i // w) % 2 == 0 for i in range(n)]
    elif kind == "late":
        a = rng.randrange(1, n) if not directed else rng.randrange(n // 2, n - 1)
        pat = [i >= a for i in range(n)]
    elif kind == "early":
        a = rng.randrange(1, n)
        pat = [i < a for i in range(n)]
    unaligned_sig = rng.random() < 0.15 and strategy == "balanced_market"
    extra = {}
    if strategy == "balanced_market":
        lo, hi = rng.choice([(0.1, 0.3), (0.05, 0.5), (0.2, 0.25)])
        levels = [lo if p else hi for p in pat]
        if rng.random() < 0.3:     # a third, most expensive level somewhere
            for i in range(n):
                if not pat[i] and rng.random() < 0.3:
                    levels[i] = hi * 2
        comp["grid_connectors"]["GC1"]["cost"] = {"type": "fixed", "value": levels[0]}
        last = levels[0]
        for i in range(1, n):
            if levels[i] != last:
                t = start + dt * i + (datetime.timedelta(minutes=-2) if unaligned_sig else datetime.timedelta(0))
                ev["grid_operator_signals"].append({"signal_time": iso(start), "start_time": iso(t), "grid_connector_id": "GC1",
                                                    "cost": {"type": "fixed", "value": levels[i]}})
                last = levels[i]
        extra["levels"] = levels
    elif strategy == "flex_window":
        last = None
        for i in range(n):
            if pat[i] != last:
                ev["grid_operator_signals"].append({"signal_time": iso(start), "start_time": iso(start + dt * i),
                                                    "grid_connector_id": "GC1", "window": pat[i]})
                last = pat[i]
        # signals that carry no window information (price only / limit only at the rating) must leave the windows alone
        for _ in range(rng.choice([0, 1, 2, 4])):
            i = rng.randrange(1, n)
            sig = {"signal_time": iso(start), "start_time": iso(start + dt * i), "grid_connector_id": "GC1"}
            if rng.random() < 0.5:
                sig["cost"] = {"type": "fixed", "value": rng.choice([0.2, 0.4])}
            else:
                sig["max_power"] = "RATING"
            ev["grid_operator_signals"].append(sig)
    elif strategy == "peak_load_window":
        # peak-load windows = discouraged periods, given as times of day (the horizon is < 24 h)
        wins = []
        i = 0
        while i < n:
            if not pat[i]:
                j = i
                while j < n and not pat[j]:
                    j += 1
                a, b_ = start + dt * i, start + dt * j
                wins.append([a.strftime("%H:%M"), b_.strftime("%H:%M")])
                i = j
            else:
                i += 1
        extra["time_windows"] = {"op": {"all": {"start": "2021-01-01", "end": "2021-12-31", "windows": {"MV": wins}}}}
    else:
        pat = [True] * n
    if tight and (rng.random() < 0.7 or directed) and strategy != "flex_window":
        # a reduced connector limit for part of the time
        a = rng.randrange(0, n)
        b_ = rng.randrange(a, n + 1)
        if directed:
            a, b_ = next((i for i in range(n) if pat[i]), 0), n
        low = round(min(gc_max, max(gc_max * rng.choice([0.1, 0.5, 0.8]), (max(fl_vals) if fixed else 0) + rng.choice([2, 4]))), 2)
        if directed:
            low = round(min(gc_max, max(1.0, gc_max * 0.1, (max(fl_vals) if fixed else 0) + 1)), 2)
        ev["grid_operator_signals"].append({"signal_time": iso(start), "start_time": iso(start + dt * a), "grid_connector_id": "GC1",
                                            "max_power": low})
        if b_ < n and rng.random() < 0.6:
            ev["grid_operator_signals"].append({"signal_time": iso(start), "start_time": iso(start + dt * b_), "grid_connector_id": "GC1",
                                                "max_power": gc_max})
    # vehicles: standing periods with a margin over the steps needed at full power
    suffix = rng.choice(["_deps", "_deps", "_opps"])
    for k in range(nveh):
        vid, cs = "v%d" % k, "cs%d%s" % (k, suffix)
        comp["charging_stations"][cs] = {"max_power": cs_p, "min_power": 0 if rng.random() < 0.85 or strategy not in MINPOWER_STRATS else rng.choice([0.5, 2]), "parent": "GC1"}
        soc0 = rng.choice([0.1, 0.2, 0.4, 0.6])
        desired = rng.choice([0.6, 0.8, 0.9, 1.0])
        if desired <= soc0:
            desired = min(1.0, soc0 + 0.3)
        arr_step = rng.choice([0, 0, rng.randrange(0, max(1, n // 3))]) if not shared else 0
        margin = rng.choice([1.0, 1.0, 1.3, 2.0, 3.0]) if not directed else rng.choice([1.3, 2.0])
        if shared:
            margin = rng.choice([1.5, 2.0, 3.0])      # the one-after-the-other witness is not the only feasible plan
        comp["vehicles"][vid] = {"vehicle_type": "vt", "soc": soc0, "desired_soc": desired, "_arr": arr_step, "_margin": margin, "_cs": cs}
    for sig in ev["grid_operator_signals"]:
        if sig.get("max_power") == "RATING":
            sig["max_power"] = comp["grid_connectors"]["GC1"]["max_power"]
    ev["grid_operator_signals"].sort(key=lambda e: e["start_time"])
    return {"js": {"scenario": {"start_time": iso(start), "interval": interval, "n_intervals": n + 2}, "components": comp, "events": ev},
            "pattern": pat, "strategy": strategy, "extra": extra, "signal_case": signal_case,
            "dep_offset": rng.choice([0, 0, 0, -3, 4]), "seed": rng.randrange(10**6),
            "enc_start": (next((i for i in range(n) if pat[i]), None) if directed else None), "enc_extra": rng.choice([1, 2, 4]),
            "shared": shared}


def limit_series(js, n, with_fixed=True):
    """connector limit per step (rating and max_power signals), minus the fixed load of that step"""
    gc = js["components"]["grid_connectors"]["GC1"]
    start = datetime.datetime.fromisoformat(js["scenario"]["start_time"])
    dt = datetime.timedelta(minutes=js["scenario"]["interval"])
    evs = sorted((datetime.datetime.fromisoformat(e["start_time"]), e["max_power"]) for e in js["events"]["grid_operator_signals"]
                 if "max_power" in e)
    fl = list(js["events"]["fixed_load"].values())
    out = []
    for i in range(n):
        t = start + dt * i
        cur = gc["max_power"]
        for st, mp in evs:
            if st <= t:
                cur = min(gc["max_power"], mp)
        f = sum(x["values"][i] if i < len(x["values"]) else x["values"][-1] for x in fl)
        out.append(cur - (f if with_fixed else 0))
    return out


def steps_needed(vt, cs, soc0, desired, interval, allowed, head=None):
    """number of allowed steps (list of bool from the arrival step) the vehicle alone needs at full station power;
    returns (index after the last needed step, reached soc) using the implementation's battery model"""
    from spice_ev.battery import Battery
    from spice_ev.loading_curve import LoadingCurve
    b = Battery(vt["capacity"], LoadingCurve(vt["charging_curve"]), soc0, vt.get("battery_efficiency", 0.95))
    dt = datetime.timedelta(minutes=interval)
    for i, ok in enumerate(allowed):
        if b.soc >= desired - 1e-9:
            return i, b.soc
        if ok:
            p = cs["max_power"] if head is None else min(cs["max_power"], head[i])
            if p > 0:
                b.load(dt, max_power=p, target_soc=desired)
    return (len(allowed) if b.soc >= desired - 1e-9 else None), b.soc


def finish(case, rng_seed=None):
    """place departures so that each standing period has the requested margin; returns the runnable scenario dict or None"""
    import random
    rng = random.Random(case["seed"])
    js = copy.deepcopy(case["js"])
    interval = js["scenario"]["interval"]
    dt = datetime.timedelta(minutes=interval)
    start = datetime.datetime.fromisoformat(js["scenario"]["start_time"])
    n = len(case["pattern"])
    comp = js["components"]
    used = [0.0] * (n + 2)          # shared cases: power already given to the vehicles served earlier
    for vid, v in comp["vehicles"].items():
        a, margin, csid = v.pop("_arr"), v.pop("_margin"), v.pop("_cs")
        if case.get("shared"):
            from spice_ev.battery import Battery
            from spice_ev.loading_curve import LoadingCurve
            vt_ = comp["vehicle_types"]["vt"]
            cs = comp["charging_stations"][csid]
            b = Battery(vt_["capacity"], LoadingCurve(vt_["charging_curve"]), v["soc"], vt_.get("battery_efficiency", 0.95))
            gmax = comp["grid_connectors"]["GC1"]["max_power"]
            fin = None
            for i in range(n):
                if b.soc >= v["desired_soc"] - 1e-9:
                    fin = i
                    break
                p_ = min(cs["max_power"], gmax - used[i])
                if p_ > 1e-9:
                    used[i] += b.load(dt, max_power=p_, target_soc=v["desired_soc"])["avg_power"]
            if fin is None:
                return None
            d = min(n, math.ceil(max(fin, 1) * max(margin, 1.0)))
            dep = start + dt * d
            v["connected_charging_station"] = csid
            v["estimated_time_of_departure"] = iso(dep)
            js["events"]["vehicle_events"].append({
                "signal_time": iso(dep), "start_time": iso(dep), "vehicle_id": vid, "event_type": "departure",
                "update": {"estimated_time_of_arrival": iso(dep + datetime.timedelta(hours=30))}})
            continue
        cs = comp["charging_stations"][csid]
        allowed = case["pattern"][a:] if case["signal_case"] else [True] * (n - a)
        head = limit_series(js, n + 2)[a:] if len(comp["vehicles"]) == 1 else None
        need, _ = steps_needed(comp["vehicle_types"]["vt"], cs, v["soc"], v["desired_soc"], interval, allowed, head)
        if need is None:
            return None
        need = max(need, 1)
        if case["signal_case"]:
            # at least 1.3x the needed encouraged steps inside the standing period
            want = math.ceil(sum(1 for x in allowed[:need] if x) * max(margin, 1.3) + 1e-9)
            d = need
            while d < len(allowed) and sum(1 for x in allowed[:d] if x) < want:
                d += 1
            if sum(1 for x in allowed[:d] if x) < want:
                return None
        else:
            d = min(len(allowed), math.ceil(need * margin))
            if case.get("enc_start") is not None:
                # directed: the standing period reaches into the late encouraged part
                d = min(len(allowed), max(d, case["enc_start"] - a + case["enc_extra"]))
        dep = start + dt * (a + d) + datetime.timedelta(minutes=case["dep_offset"] if case["dep_offset"] > -interval else 0)
        if case["dep_offset"] < 0 and d <= need and not case["signal_case"]:
            dep = start + dt * (a + d)                      # keep the needed time
        if a == 0:
            v["connected_charging_station"] = csid
            v["estimated_time_of_departure"] = iso(dep)
        else:
            v["soc"] = min(1.0, v["soc"] + 0.1)
            js["events"]["vehicle_events"].append({
                "signal_time": iso(start + dt * a), "start_time": iso(start + dt * a), "vehicle_id": vid, "event_type": "arrival",
                "update": {"connected_charging_station": csid, "estimated_time_of_departure": iso(dep),
                           "desired_soc": v["desired_soc"], "soc_delta": -0.1}})
            v["soc"] = round(v["soc"], 6)
        js["events"]["vehicle_events"].append({
            "signal_time": iso(dep), "start_time": iso(dep), "vehicle_id": vid, "event_type": "departure",
            "update": {"estimated_time_of_arrival": iso(dep + datetime.timedelta(hours=30))}})
    js["events"]["vehicle_events"].sort(key=lambda e: e["start_time"])
    return js


class Rec:
    """class-level recorder around Strategy.step (event application): arrivals and departures with SoC"""

    def __init__(self):
        self.periods = []          # dicts vid, arr_time, arr_soc, dep_time, dep_soc, desired

    def __enter__(self):
        from spice_ev import strategy
        self.cls = strategy.Strategy
        self.orig = self.cls.step
        rec = self
        open_ = {}

        def step(self_, event_list=[]):
            ws = self_.world_state
            pre = {vid: (v.connected_charging_station, v.battery.soc, v.desired_soc) for vid, v in ws.vehicles.items()}
            first = not getattr(self_, "_svc_seen", False)
            self_._svc_seen = True
            r = rec.orig(self_, event_list)
            for vid, v in ws.vehicles.items():
                was = pre[vid][0] is not None
                now = v.connected_charging_station is not None
                if now and (not was or (first and vid not in open_)):
                    open_[vid] = {"vid": vid, "arr_time": self_.current_time, "arr_soc": v.battery.soc, "cs": v.connected_charging_station}
                elif was and first and vid not in open_:
                    open_[vid] = {"vid": vid, "arr_time": self_.current_time, "arr_soc": pre[vid][1], "cs": pre[vid][0]}
                if was and not now and vid in open_:
                    p = open_.pop(vid)
                    p.update(dep_time=self_.current_time, dep_soc=pre[vid][1], desired=pre[vid][2])
                    rec.periods.append(p)
            return r
        self.cls.step = step
        return self

    def __exit__(self, *a):
        self.cls.step = self.orig


def run(js, strategy, extra, options=None):
    """returns dict(periods, power[cs][i], prices, windows, total, n, aborted, error)"""
    C.setup_repo_path()
    from spice_ev.scenario import Scenario
    tmp = tempfile.mkdtemp(prefix="svc_")
    try:
        opts = {"skip_flex_report": True}
        if strategy == "peak_load_window":
            p = os.path.join(tmp, "time_windows.json")
            json.dump(extra["time_windows"], open(p, "w"))
            opts["time_windows"] = p
        if strategy == "flex_window":
            opts["LOAD_STRAT"] = "balanced"
        opts.update(options or {})
        import signal

        class _Timeout(BaseException):
            pass

        def _on_alarm(signum, frame):
            raise _Timeout()
        old_alarm = signal.signal(signal.SIGVTALRM, _on_alarm)
        with Rec() as rec, warnings.catch_warnings(), contextlib.redirect_stdout(io.StringIO()):
            warnings.simplefilter("ignore")
            s = Scenario(copy.deepcopy(js), tmp)
            try:
                signal.setitimer(signal.ITIMER_VIRTUAL, TIME_LIMIT)   # CPU time, independent of machine load
                s.run(strategy, opts)
                err = None
            except _Timeout:
                err = "Timeout: the run did not finish within %d s (plain floats, at most ~100 steps)" % TIME_LIMIT
            except Exception as e:  # noqa
                err = repr(e)
            finally:
                signal.setitimer(signal.ITIMER_VIRTUAL, 0)
                signal.signal(signal.SIGVTALRM, old_alarm)
        if err:
            return {"error": err}
        n = s.step_i
        return {"periods": rec.periods, "charge": s.connChargeByTS["GC1"], "prices": s.prices["GC1"], "windows": s.gcWindowSchedule["GC1"],
                "total": s.totalLoad["GC1"], "n": n, "aborted": s.step_i != s.n_intervals, "error": None,
                "start": s.start_time, "interval": s.interval, "fixed": s.fixedLoads["GC1"]}
    finally:
        shutil.rmtree(tmp, ignore_errors=True)


def step_of(res, t):
    return int((t - res["start"]) / res["interval"])
