"""C05 — see props/C05.v; run-loop correspondence + predicates on recorded exact runs of all strategies."""
import kernel
import sim


def station_limits(rep, tier, sd):
    """station rating on the service / signal scenario family (look-ahead strategies, stations rated below and above the
    vehicle's power, tapering curves, tight connectors) and on individual-schedule scenarios: plain floats, every step"""
    import copy
    import random
    from collections import Counter
    import common as C
    import svc
    import c11
    rng = random.Random("c05/stations/%d" % sd)
    n = 8 if tier == "quick" else 80
    dist = Counter()
    for strategy in ("peak_load_window", "flex_window", "balanced_market", "balanced", "greedy"):
        for k_ in range(n * (3 if strategy == "peak_load_window" else 1)):
            case = svc.gen(rng, strategy)
            if strategy == "peak_load_window" and k_ % 2:
                # tapering curve at a station rated below the vehicle's power, peak windows inside the standing time
                comp = case["js"]["components"]
                vt = comp["vehicle_types"]["vt"]
                P = max(p for _, p in vt["charging_curve"])
                vt["charging_curve"] = [[0, P], [0.8, P], [1, P / 4]]
                for c_ in comp["charging_stations"].values():
                    c_["max_power"] = P / 2
            js = svc.finish(case)
            if js is None:
                continue
            res = svc.run(js, strategy, case["extra"])
            if res.get("error"):
                continue
            dist[strategy] += 1
            css = js["components"]["charging_stations"]
            for i, row in enumerate(res["charge"]):
                bad = [(k, p) for k, p in row.items() if abs(p) > css[k]["max_power"] + 1e-5]
                if bad:
                    rep.add_violation("C05/station-limit/%s/service" % strategy, "step %d: station %s carries %.5f kW, rating %s (%s, no local surplus)"
                                      % (i, bad[0][0], bad[0][1], css[bad[0][0]]["max_power"], strategy), {"unit": "stations", "case": case})
                    break
    C.setup_repo_path()
    from spice_ev.scenario import Scenario
    import contextlib
    import io
    import warnings
    for _ in range(3 * n):
        case = c11.gen_schedule_case(rng)
        js = case["js"]
        with warnings.catch_warnings(), contextlib.redirect_stdout(io.StringIO()):
            warnings.simplefilter("ignore")
            s = Scenario(copy.deepcopy(js))
            try:
                s.run("schedule", {"LOAD_STRAT": "individual", "skip_flex_report": True})
            except Exception:  # noqa
                continue
        dist["schedule-individual"] += 1
        css = js["components"]["charging_stations"]
        for i, row in enumerate(s.connChargeByTS["GC1"]):
            bad = [(k, p) for k, p in row.items() if abs(p) > css[k]["max_power"] + 1e-5]
            if bad:
                rep.add_violation("C05/station-limit/schedule/individual", "step %d: station %s carries %.5f kW, rating %s (schedule, individual)"
                                  % (i, bad[0][0], bad[0][1], css[bad[0][0]]["max_power"]), {"unit": "stations-schedule", "case": case})
                break
    rep.cov["evaluations"] += sum(dist.values())
    rep.notes["station_limit_runs"] = dict(dist)


def run(tier):
    # the vehicle-curve limit is enforced through LoadingCurve.clamped / power_from_soc: the curve unit (C03) is part of this check
    import c03
    return sim.sim_run("C05", tier, sim.check_c05, inject=False, extra_units=[kernel.UNIT, c03.UNIT], extra=station_limits)


def replay(payload):
    if payload["input"].get("unit", "").startswith("stations"):
        import common as C
        rep = C.Report("C05", "quick")
        station_limits(rep, "quick", C.seed())
        return 1 if rep.violations else 0
    if payload["input"].get("unit") == "curve":
        import c03
        return c03.replay(payload)
    if payload["input"].get("unit") == "kernel":
        out = kernel.UNIT.run_impl(payload["input"]["case"])
        v = kernel.UNIT.check_property(payload["input"]["case"], out)
        print("replay: %d violation(s) %s" % (len(v), v))
        return 1 if v else 0
    return sim.sim_replay(payload, sim.check_c05)
