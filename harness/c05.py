"""C05 — see props/C05.v; run-loop correspondence + predicates on recorded exact runs of all strategies."""
import kernel
import sim


def run(tier):
    return sim.sim_run("C05", tier, sim.check_c05, inject=False, extra_units=[kernel.UNIT])


def replay(payload):
    if payload["input"].get("unit") == "kernel":
        out = kernel.UNIT.run_impl(payload["input"]["case"])
        v = kernel.UNIT.check_property(payload["input"]["case"], out)
        print("replay: %d violation(s) %s" % (len(v), v))
        return 1 if v else 0
    return sim.sim_replay(payload, sim.check_c05)
