"""C18 — reports are faithful to the simulation."""
import copy
import datetime
import json
import os
import random
import shutil
import subprocess
import tempfile
from fractions import Fraction as F

import common as C
import corr
import scen
import sim
from ex import Ex, fr


class SplitUnit(corr.Unit):
    name = "split_feedin"
    header = ("From Coq Require Import ZArith QArith List Bool.\nFrom SV Require Import Num Report ReportRun.\nImport ListNotations.\nOpen Scope Q_scope.\n")
    casetype = "rcase3"
    failing = "failing"
    tagfn = "tag"
    runfn = "run_rcase3"
    trivial_tags = (None, 0)
    per_file = 500

    def generate(self, rng, n, biased=False):
        out = []
        for _ in range(n):
            sc = rng.choice([1, 10, 100, 0.001])
            g = F(rng.choice([0, 5, -5, 12.3456, 0.0005, 0.0015, rng.uniform(-2, 2) * sc, rng.randint(-50, 50)]))
            ge = -F(rng.choice([0, 3, 12.3456, abs(rng.uniform(0, 2)) * sc, rng.randint(0, 50)])) * rng.choice([1, 1, 1, -1])
            cs = -F(rng.choice([0, 2, 7.7775, abs(rng.uniform(0, 2)) * sc, rng.randint(0, 50)])) * rng.choice([1, 1, 1, -1])
            out.append({"g": g, "ge": ge, "cs": cs})
        return out

    def run_impl(self, case):
        from spice_ev import report
        return [fr(x) for x in report.split_feedin(Ex(case["g"]), Ex(case["ge"]), Ex(case["cs"]))]

    def emit(self, case, out):
        return "{| r3_in := (%s,%s,%s); r3_exp := %s |}" % (C.q(case["g"]), C.q(case["ge"]), C.q(case["cs"]), C.lst(C.q(x) for x in out))

    def check_property(self, case, out):
        g, ge, cs = case["g"], case["ge"], case["cs"]
        v = []
        if any(x < 0 for x in out):
            v.append(("C18/split-negative", "split_feedin(%s,%s,%s) = %s" % (g, ge, cs, out)))
        if ge <= 0 and cs <= 0 and abs(sum(out) - max(g, 0)) > F(15, 10000):
            v.append(("C18/split-sum", "split_feedin(%s,%s,%s) = %s does not sum to the feed-in" % (g, ge, cs, out)))
        if ge <= 0 and cs <= 0 and abs(out[0] - min(-ge, max(g, 0))) > F(5, 10000):
            v.append(("C18/split-priority", "split_feedin(%s,%s,%s) = %s: generation part" % (g, ge, cs, out)))
        return v


def r3(x):
    return float(F(round(F(x), 3)))


def check_reports(rec):
    """written CSV / JSON against the simulated quantities of the same run"""
    v = []
    if rec["raised"] or not rec.get("reports"):
        return v
    d = "%s %s features=%s aborted=%s" % (rec["strategy"], rec["options"], rec["features"], rec["aborted"])
    n = rec["step_i"]
    tables = rec["files"].get("tables", {})
    for gi, g in enumerate(rec["gc_ids"]):
        name = "t.csv" if len(rec["gc_ids"]) == 1 else None
        if name is None:
            cands = [x for x in tables if x.startswith("t_") and x[2:-4] == "".join(c for c in g if c not in '</|\\>:"?*')]
            name = cands[0] if cands else None
        if name not in tables:
            v.append(("C18/file-missing", "no timeseries file for %s: %s" % (g, d)))
            continue
        rows = tables[name]
        if len(rows) != n:
            v.append(("C18/row-count", "%s has %d rows, simulated %d steps: %s" % (name, len(rows), n, d)))
            continue
        cs_here = sorted(k for k, c in rec["steps"][0]["pre"]["cs"].items() if c["parent"] == g) if rec["steps"] else []
        for i, row in enumerate(rows):
            def col(k):
                return float(row[k]) if k in row and row[k] not in ("", "None") else None
            if int(row["timestep"]) != i:
                v.append(("C18/timestep", "row %d has timestep %s: %s" % (i, row["timestep"], d)))
            want = -r3(rec["totalLoad"][g][i])
            if abs(col("grid supply [kW]") - want) > 1e-9:
                v.append(("C18/grid-supply", "row %d grid supply %s != -round3(connector power) %s: %s" % (i, row["grid supply [kW]"], want, d)))
            cmds = {k: val for k, val in rec["commands"][i].items() if k in cs_here}
            if abs(col("sum CS power [kW]") - r3(sum(cmds.values(), F(0)))) > 1e-9:
                v.append(("C18/sum-cs", "row %d sum CS power %s != %s: %s" % (i, row["sum CS power [kW]"], r3(sum(cmds.values(), F(0))), d)))
            for k in cs_here:
                if abs(col(k + " [kW]") - r3(cmds.get(k, F(0)))) > 1e-9:
                    v.append(("C18/cs-column", "row %d station %s %s != %s: %s" % (i, k, row[k + " [kW]"], r3(cmds.get(k, F(0))), d)))
            loss = rec["steps"][i].get("loss")
            if loss is not None:
                if "local generation [kW]" in row:
                    gen = -sum((val for k, val in loss["gc"][g]["loads"].items() if k in rec["gen_keys"]), F(0))
                    if abs(col("local generation [kW]") - (-r3(gen))) > 1e-9:
                        v.append(("C18/generation", "row %d local generation %s != %s: %s" % (i, row["local generation [kW]"], -r3(gen), d)))
                if "battery power [kW]" in row:
                    bp = sum((val for k, val in loss["gc"][g]["loads"].items() if k in rec["bat_keys"]), F(0))
                    if abs(col("battery power [kW]") - r3(bp)) > 1e-9:
                        v.append(("C18/battery-power", "row %d battery power %s != %s: %s" % (i, row["battery power [kW]"], r3(bp), d)))
                    pre = rec["steps"][i]["pre"]
                    be = sum((pre["bat"][k]["soc"] * rec["bat"][k]["cap"] for k in rec["bat"] if rec["bat"][k]["parent"] == g), F(0))
                    if abs(col("bat. stored energy [kWh]") - r3(be)) > 1e-6 * max(1, abs(float(be))):
                        v.append(("C18/battery-energy", "row %d stored energy %s != %s: %s" % (i, row["bat. stored energy [kWh]"], r3(be), d)))
                occ = len([1 for vid in loss["veh"] if loss["veh"][vid]["cs"] in cs_here])
                if int(float(row["# occupied CS [-]"])) != occ:
                    v.append(("C18/occupied", "row %d occupied stations %s != %d: %s" % (i, row["# occupied CS [-]"], occ, d)))
            feed = [col(k) or 0.0 for k in ("generation feed-in [kW]", "V2G feed-in [kW]", "battery feed-in [kW]")]
            if min(feed) < 0:
                v.append(("C18/feedin-negative", "row %d feed-in parts %s: %s" % (i, feed, d)))
            if len(v) > 3:
                return v[:3]
    # aggregates of the results JSON = the same functions of the series
    jsons = rec["files"].get("jsons", {})
    for g in rec["gc_ids"]:
        cands = [x for x in jsons if x == "r.json" or x[2:-5] == "".join(c for c in g if c not in '</|\\>:"?*')]
        if not cands:
            continue
        jr = jsons[cands[0]]
        tl = [float(x) for x in rec["totalLoad"][g]]
        if n > 0:
            want = sum(tl) / n
            got = jr.get("avg drawn power", {}).get("value")
            if got is None or abs(got - want) > 1e-9 * max(1, abs(want)):
                v.append(("C18/aggregate-avg-power", "%s: avg drawn power %s != sum(connector power)/steps = %s: %s" % (g, got, want, d)))
            if any(tl):
                pk = jr.get("power peaks", {}).get("total")
                if pk is None or abs(pk - max(tl)) > 1e-9 * max(1, abs(max(tl))):
                    v.append(("C18/aggregate-peak", "%s: power peak %s != max(connector power) = %s: %s" % (g, pk, max(tl), d)))
            lg = jr.get("local energy generation", {}).get("value")
            wantg = float(sum(rec["localGen"][g], F(0)) / rec["ts_per_hour"])
            if lg is None or abs(lg - wantg) > 1e-9 * max(1, abs(wantg)):
                v.append(("C18/aggregate-generation", "%s: local energy generation %s != %s: %s" % (g, lg, wantg, d)))
            cyc = jr.get("all vehicle battery cycles", {}).get("value")
            vcap = float(sum((x["cap"] for x in rec["veh"].values()), F(0)))
            ven = float(sum((sum((max(x, F(0)) for x in c.values()), F(0)) for c in rec["commands"]), F(0)))
            if vcap > 0 and (cyc is None or abs(cyc - ven / vcap) > 1e-9 * max(1, abs(ven / vcap))):
                v.append(("C18/aggregate-cycles", "%s: vehicle battery cycles %s != %s: %s" % (g, cyc, ven / vcap, d)))
            # stationary battery cycles = charged energy / capacity of the batteries at this connector
            bats_here = [k for k in rec["bat"] if rec["bat"][k]["parent"] == g]
            if bats_here and all(rec["bat"][k]["cap"] < 2 ** 63 for k in bats_here):
                cap_ = float(sum((rec["bat"][k]["cap"] for k in bats_here), F(0)))
                en_ = 0.0
                for i in range(n):
                    loss = rec["steps"][i].get("loss")
                    if loss is None:
                        en_ = None
                        break
                    en_ += float(sum((max(val, F(0)) for k, val in loss["gc"][g]["loads"].items() if k in bats_here), F(0)) / rec["ts_per_hour"])
                got = jr.get("stationary battery cycles", {}).get("value")
                if en_ is not None and cap_ > 0 and (got is None or abs(got - en_ / cap_) > 1e-9 * max(1, en_ / cap_)):
                    v.append(("C18/aggregate-battery-cycles", "%s: stationary battery cycles %s != charged energy / capacity = %s: %s" % (g, got, en_ / cap_, d)))
    socs = tables.get("s.csv")
    if socs is not None and len(socs) != n:
        v.append(("C18/row-count", "SoC file has %d rows, simulated %d steps: %s" % (len(socs), n, d)))
    elif socs is not None:
        # SoC file: the column of a vehicle holds that vehicle's SoC at the start of every step in which it is connected
        for i, row in enumerate(socs):
            pre = rec["steps"][i].get("pre")
            if pre is None:
                continue
            for vid, x in pre["veh"].items():
                if x["cs"] is None or vid not in row or row[vid] in ("", "None"):
                    continue
                if abs(float(row[vid]) - float(x["soc"])) > 1e-9:
                    v.append(("C18/soc-column", "SoC file row %d column %s = %s, simulated SoC of that vehicle %s: %s" % (i, vid, row[vid], float(x["soc"]), d)))
                    return v[:3]
    return v[:3]


# ---- cost round trip: in-run (simulate.py) vs. from written files (calculate_costs.py), same options
def roundtrip_case(rng, tmp):
    strategy = rng.choice(["greedy", "balanced", "balanced_market", "balanced_market", "peak_shaving", "distributed"])
    feats = set(rng.sample(["fixed", "generation", "battery", "price", "v2g"], rng.randint(1, 4)))
    if rng.random() < 0.4 or (strategy == "balanced_market" and rng.random() < 0.7):
        feats = {"fixed", "battery", "price"} | ({"v2g"} if rng.random() < 0.5 else set())    # support power without generation
    js = scen.gen_scenario(rng, n_gc=1, n_veh=rng.randint(1, 3), steps=rng.choice([8, 12, 24]), interval=rng.choice([15, 60]), features=feats)
    for b in js["components"].get("batteries", {}).values():
        b["soc"] = 0.9
    if strategy == "balanced_market" and rng.random() < 0.6:
        # directed: a charged stationary battery supports a fixed load while the price is high (cheap later)
        gid = list(js["components"]["grid_connectors"])[0]
        start = datetime.datetime.fromisoformat(js["scenario"]["start_time"])
        n = js["scenario"]["n_intervals"]
        iv = js["scenario"]["interval"]
        js["components"]["batteries"] = {"BAT1": {"parent": gid, "capacity": 80, "charging_curve": [[0, 20], [1, 20]], "soc": 0.9}}
        js["events"]["fixed_load"] = {"building": {"start_time": scen.iso(start), "step_duration_s": iv * 60, "grid_connector_id": gid,
                                                   "values": [round(rng.uniform(8, 15), 2) for _ in range(n)]}}
        js["events"]["local_generation"] = {}
        js["components"]["photovoltaics"] = {}
        js["components"]["grid_connectors"][gid]["cost"] = {"type": "fixed", "value": 0.5}
        js["events"]["grid_operator_signals"] = [{"signal_time": scen.iso(start), "start_time": scen.iso(start + datetime.timedelta(minutes=iv * (n // 2))),
                                                  "grid_connector_id": gid, "cost": {"type": "fixed", "value": 0.05}}]
    js.pop("_features", None)
    return {"js": js, "strategy": strategy}


def cost_roundtrip(case):
    import sys
    import io
    import contextlib
    import warnings
    sys.path.insert(0, C.REPO)
    import simulate
    tmp = tempfile.mkdtemp(prefix="verif_c18_")
    try:
        inp = os.path.join(tmp, "scenario.json")
        json.dump(case["js"], open(inp, "w"))
        ps = os.path.join(C.REPO, "examples", "data", "price_sheet.json")
        rj, ts = os.path.join(tmp, "r.json"), os.path.join(tmp, "t.csv")
        args = {"input": inp, "strategy": case["strategy"], "cost_calc": True, "save_results": rj, "save_timeseries": ts,
                "cost_parameters_file": ps, "strategy_option": [["ALLOW_NEGATIVE_SOC", "1"], ["skip_flex_report", "1"]], "margin": 0.05}
        with warnings.catch_warnings(), contextlib.redirect_stdout(io.StringIO()):
            warnings.simplefilter("ignore")
            try:
                simulate.simulate(args)
            except AssertionError:
                # in-run costing asserts complete series: an aborted run has no in-run costs to compare
                return {"skip": "aborted run"}
            except Exception as e:  # noqa
                return {"err": "in-run: " + repr(e)[:200]}
        inrun = json.load(open(rj)).get("costs")
        if inrun is None:
            return {"err": "in-run: no costs section"}
        gc = list(case["js"]["components"]["grid_connectors"].values())[0]
        fee = "SLP" if case["strategy"] in ("greedy", "balanced", "distributed") else "RLM"
        pv = sum(p["nominal_power"] for p in case["js"]["components"].get("photovoltaics", {}).values())
        cmd = ["/venv/bin/python", os.path.join(C.REPO, "calculate_costs.py"), "--get-timeseries", ts, "--get-results", rj,
               "--cost-parameters-file", ps, "--voltage-level", gc["voltage_level"], "--fee-type", fee, "--pv-power", str(int(pv))]
        rc, out = C.sh(cmd, timeout=120, env=dict(os.environ, PYTHONPATH=C.REPO))
        if rc != 0:
            return {"err": "post-hoc: " + out[-300:]}
        post = json.load(open(rj)).get("costs")
        header = open(ts).readline().strip().split(",")
        nrows = len(open(ts).read().splitlines()) - 1
        return {"inrun": inrun, "post": post, "has_price_column": "price [ct/kWh]" in header, "rows": nrows}
    finally:
        shutil.rmtree(tmp, ignore_errors=True)


def flatten(d, prefix=""):
    out = {}
    for k, v in d.items():
        if isinstance(v, dict):
            out.update(flatten(v, prefix + k + "/"))
        elif isinstance(v, (int, float)):
            out[prefix + k] = v
    return out


class RoundtripUnit(corr.Unit):
    name = "cost_roundtrip"
    tagfn = None

    def generate(self, rng, n, biased=False):
        return [roundtrip_case(rng, None) for _ in range(n)]

    def run_impl(self, case):
        return cost_roundtrip(case)

    def emit(self, case, out):
        return ""

    def check_property(self, case, out):
        d = "%s scenario features %s" % (case["strategy"], sorted(case["js"]["events"].keys()))
        if "skip" in out:
            return []
        if "err" in out:
            return [("C18/cost-roundtrip-error", "%s: %s" % (out["err"], d))]
        a, b_ = flatten(out["inrun"]), flatten(out["post"])
        bad = [(k, a[k], b_.get(k)) for k in a if b_.get(k) is None or abs(a[k] - b_[k]) > 0.011 + 1e-6 * abs(a[k])]
        if bad:
            # signature of the catalogued finding: only the flexible-load commodity costs (zero from the file) and sums derived from them
            derived = ("costs for flexible load", "total costs", "total grid fee", "power procurement", "value added tax", "total (gross)")
            if (not out["has_price_column"] and case["strategy"] == "balanced_market"
                    and all(k.split("/")[-1] in derived and "capacity" not in k for k, _, _ in bad)):
                return [("C18/cost-roundtrip-no-price-column", "all prices are zero, the CSV has no price column: in-run uses the fixed commodity charge, "
                         "the file reader substitutes a price series of zeros: %s: %s" % (bad[:2], d))]
            return [("C18/cost-roundtrip", "costs from the written files differ from the in-run costs: %s: %s" % (bad[:4], d))]
        return []


SPLIT, RT = SplitUnit(), RoundtripUnit()
RULE = ("(a) random real triples for split_feedin incl. rounding boundaries; (b) recorded exact runs of the simulation pool with all report files "
        "written (completed and aborted runs, 1-2 connectors), every CSV cell of the main columns compared with the simulated quantities; "
        "(c) cost round trip on generated single-connector scenarios: simulate.py in-run costs vs calculate_costs.py on the written files")


def run(tier):
    def extra(rep, tier_, sd):
        recs = sim.pool(sd + 5, tier_, strategies=("greedy", "balanced", "distributed", "balanced_market", "peak_shaving"), inject=True,
                        n_fast=40 if tier_ == "quick" else 300, n_slow=3 if tier_ == "quick" else 20)
        nrep = 0
        for r in recs:
            if r.get("reports"):
                nrep += 1
                for cls, what in check_reports(r):
                    rep.add_violation(cls, what, {"unit": "reports", "case": sim.slim(r)})
        rep.notes["report_runs_checked"] = nrep
        rep.cov["evaluations"] += nrep
        corr.correspond(RT, 24 if tier_ == "quick" else 160, sd, rep, check_model=False, label="cost round trip (implementation only, sampled)")
    return corr.standard_run("C18", tier, [SPLIT], 1500, 20000, sim.SIM_TRUSTED, RULE, extra=extra)


def replay(payload):
    inp = payload["input"]
    if inp.get("unit") == "reports":
        case = inp["case"]
        rec = sim.run_record(case["js"], case["strategy"], case.get("options"), inject_at=case.get("inject_at"), reports=True)
        v = check_reports(rec)
    elif inp.get("unit") == "cost_roundtrip":
        v = RT.check_property(inp["case"], cost_roundtrip(inp["case"]))
    else:
        v = SPLIT.check_property(inp["case"], SPLIT.run_impl(inp["case"]))
    for cls, what in v:
        print("VIOLATION-REPLAY %s: %s" % (cls, what[:600]))
    print("replay: %d violation(s)" % len(v))
    return 1 if v else 0
