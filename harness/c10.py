"""C10 — greedy and balanced follow their documented rule: step-level model (theories/Strat.v) compared with every
recorded strategy step of exact greedy/balanced runs; independent rule-level predicates on the same steps."""
import datetime
import json
from fractions import Fraction as F

import c07
import common as C
import corr
import scen
import sim
from ex import fr

ERR = {"AssertionError": "(AssertFail 0)", "ZeroDivisionError": "ZeroDiv", "KeyError": "KeyErr", "TypeError": "TypeErr",
       "ValueError": "ValueErr", "OverflowError": "Overflow", "RuntimeError": "RuntimeErr", "IndexError": "IndexErr"}


def cost_c(c):
    if not c:
        return "CNone"
    if c["type"] == "fixed":
        return "(CFixed %s)" % C.q(fr(c["value"]))
    return "(CPoly %s)" % C.lst(C.q(fr(x)) for x in c["value"])


class StepUnit(corr.Unit):
    name = "stratstep"
    header = ("From Coq Require Import ZArith QArith List Bool String.\nFrom SV Require Import Num Curve Battery Kernel Strat StratRun.\n"
              "Import ListNotations.\nOpen Scope Q_scope.\nOpen Scope string_scope.\n"
              "Definition mkc (l:list (Q*Q)) : @curve Q := match @mk_curve Q QNum0 l with Ok c => c | Err _ => {| pts := l; maxp := 0 |} end.\n")
    casetype = "scase"
    failing = "failing"
    tagfn = "tag"
    both = "check_tag"
    runfn = "run_scase"
    trivial_tags = (None, 0)
    per_file = 25
    records = []
    max_steps_per_run = 4

    def generate(self, rng, n, biased=False):
        cases = []
        for r in self.records:
            if r["raised"] is not None or r["strategy"] not in ("greedy", "balanced"):
                continue
            idx = [i for i, st in enumerate(r["steps"]) if st.get("post") is not None and st["pre_error"] is None and "oracle" in st]
            rng.shuffle(idx)
            # prefer steps in which something happens
            idx.sort(key=lambda i: -len(r["steps"][i].get("calls", [])))
            for i in idx[:self.max_steps_per_run]:
                cases.append({"rec": r, "i": i})
        return cases

    def key(self, case):
        r = case["rec"]
        return "%s/%s/%d/%d" % (r["strategy"], json.dumps(r["options"], sort_keys=True, default=str), hash(json.dumps(r["js"], sort_keys=True, default=str)), case["i"])

    def run_impl(self, case):
        return None

    def emit(self, case, out):
        r, i = case["rec"], case["i"]
        st, S = r["steps"][i], r["static"]
        pre, post = st["pre"], st["post"]
        q = C.q
        pl = lambda ps: C.lst("(%s,%s)" % (q(a), q(b_)) for a, b_ in ps)  # noqa

        def bat(p, soc):
            return "{| cap := %s; lc := mkc %s; uc := mkc %s; soc := %s; eff := %s; eps := %s |}" % (
                q(p["cap"]), pl(p["lc"]), pl(p["uc"]), q(soc), q(p["eff"]), q(p["eps"]))
        gcs = C.lst('("%s", {| gc_cur := %s; gc_loads := %s; gc_cost := %s |})' % (
            k, q(g["cur_max"]), C.lst('("%s", %s)' % (n, q(v)) for n, v in g["loads"].items()), cost_c(g["cost"])) for k, g in pre["gc"].items())
        css = C.lst('("%s", {| cs_maxp := %s; cs_minp := %s; cs_cur := %s; cs_parent := "%s" |})' % (
            k, q(c["max"]), q(c["min"]), q(c["cur"]), c["parent"]) for k, c in pre["cs"].items())
        veh = C.lst('("%s", {| vh_cs := %s; vh_bat := %s; vh_desired := %s; vh_etd := %s; vh_minp := %s; vh_v2g := %s; vh_dlimit := %s |})' % (
            k, "None" if pre["veh"][k]["cs"] is None else '(Some "%s")' % pre["veh"][k]["cs"], bat(S["veh"][k], pre["veh"][k]["soc"]),
            q(pre["veh"][k]["desired"]), "None" if pre["veh"][k]["etd"] is None else "(Some (%d)%%Z)" % c07.us(pre["veh"][k]["etd"]),
            q(S["veh"][k]["minp"]), C.b(S["veh"][k]["v2g"]), q(S["veh"][k]["dlimit"])) for k in S["veh_order"])
        bats = C.lst('("%s", {| sb_bat := %s; sb_parent := "%s"; sb_minp := %s |})' % (
            k, bat(p, pre["bat"][k]["soc"]), p["parent"], q(p["minp"])) for k, p in S["bat"].items())
        world = "{| sw_gcs := %s; sw_css := %s; sw_veh := %s; sw_order := %s; sw_bats := %s |}" % (
            gcs, css, veh, C.lst('"%s"' % k for k in S["veh_sorted"]), bats)
        opts = "{| so_eps := %s; so_thresh := %s; so_tsph := %s; so_hours := %s; so_now := (%d)%%Z; so_interval := (%d)%%Z |}" % (
            q(S["eps"]), q(S["thresh"]), q(S["tsph"]), q(S["hours"]), c07.us(pre["time"]), S["interval_us"])
        tbl = C.lst("(%d%%nat,%s,%s)" % (k, q(a), q(b_)) for k, a, b_ in st["oracle"])
        if i in r["strat_errors"]:
            exp = "Err %s" % ERR.get(r["strat_errors"][i], "GenericErr")
        else:
            exp = "Ok {| sx_loads := %s; sx_vsoc := %s; sx_bsoc := %s; sx_cscur := %s; sx_cmds := %s |}" % (
                C.lst(C.lst('("%s", %s)' % (n, q(v)) for n, v in g["loads"].items()) for g in post["gc"].values()),
                C.lst(q(post["veh"][k]["soc"]) for k in S["veh_order"]), C.lst(q(post["bat"][k]["soc"]) for k in S["bat"]),
                C.lst(q(c["cur"]) for c in post["cs"].values()), C.lst('("%s", %s)' % (k, q(v)) for k, v in r["commands"][i].items()))
        return "{| sc_strat := %s; sc_opts := %s; sc_world := %s; sc_tbl := %s; sc_exp := %s |}" % (
            "SGreedy" if r["strategy"] == "greedy" else "SBalanced", opts, world, tbl, exp)

    # ---- the documented rule, stated independently on implementation behaviour (first-order consequences)
    pred_enabled = True

    def check_property(self, case, out):
        r, i = case["rec"], case["i"]
        st, S = r["steps"][i], r["static"]
        if i in r["strat_errors"] or not self.pred_enabled:
            return []
        pre, post = st["pre"], st["post"]
        eps = S["eps"]
        v = []
        d = "%s step %d %s features=%s" % (r["strategy"], i, r["options"], r["features"])
        cheap = {}
        for g, gs in pre["gc"].items():
            c = gs["cost"]
            if not c:
                return []
            price = fr(c["value"]) if c["type"] == "fixed" else sum((fr(x) for x in c["value"]), F(0))
            cheap[g] = price <= S["thresh"]
        for vid in S["veh_sorted"]:
            x = pre["veh"][vid]
            if x["cs"] is None:
                continue
            g = pre["cs"][x["cs"]]["parent"]
            s0, s1 = x["soc"], post["veh"][vid]["soc"]
            surplus = sum(pre["gc"][g]["loads"].values(), F(0)) < -eps
            # neither charges beyond the desired SoC unless there is local surplus or the price is at or below the threshold
            if not cheap[g] and not surplus and s1 > max(s0, x["desired"]) + 2 * F(1e-5) / S["veh"][vid]["cap"] + eps:
                past = r["strategy"] == "balanced" and x["etd"] is not None and x["etd"] <= pre["time"]
                v.append(("C10/charged-beyond-desired/balanced-past-departure" if past else "C10/charged-beyond-desired", "vehicle %s soc %s -> %s above desired %s without surplus or cheap price: %s" % (
                    vid, float(s0), float(s1), float(x["desired"]), d)))
        for bid, p in S["bat"].items():
            g = p["parent"]
            if g not in pre["gc"]:
                continue
            s0, s1 = pre["bat"][bid]["soc"], post["bat"][bid]["soc"]
            load_wo = sum((val for k, val in post["gc"][g]["loads"].items() if k != bid), F(0))
            # batteries charge only from surplus or cheap power and discharge only to reduce grid draw
            if s1 > s0 and not cheap[g] and load_wo >= 0:
                v.append(("C10/battery-charged-from-grid", "battery %s charged (soc %s -> %s) without surplus or cheap price: %s" % (bid, float(s0), float(s1), d)))
            if s1 < s0 and load_wo <= 0:
                v.append(("C10/battery-discharged-without-draw", "battery %s discharged (soc %s -> %s) although the connector draws nothing: %s" % (bid, float(s0), float(s1), d)))
        return v[:3]


UNIT = StepUnit()
RULE = ("every recorded strategy step (up to 4 per run, busiest first) of exact greedy/balanced runs of the simulation pool (random + directed "
        "scenarios: fixed load, generation surplus, price threshold, minimum powers, stationary batteries, V2G, limits) replayed through the "
        "step model with the step's exp/log oracle; non-trivial = distinct step with a non-zero command")


import contextlib


@contextlib.contextmanager
def prepared(tier, n_fast=None):
    """configure the per-step strategy correspondence unit (records from the exact-run pool); also used by ./check C09, whose
    theorems are about the same decision model"""
    sd = C.seed()
    UNIT.records = sim.pool(sd, tier, strategies=("greedy", "balanced"), n_slow=0, n_fast=n_fast)
    UNIT.max_steps_per_run = 3 if tier == "quick" else 12
    UNIT.pred_enabled = True
    old = C.Report.add_violation

    def add_violation(self, cls, what, inp):
        if isinstance(inp, dict) and isinstance(inp.get("case"), dict) and "rec" in inp["case"]:
            inp = {"unit": inp["unit"], "case": dict(sim.slim(inp["case"]["rec"]), step=inp["case"]["i"])}
        old(self, cls, what, inp)
    C.Report.add_violation = add_violation
    try:
        yield UNIT
    finally:
        C.Report.add_violation = old


def run(tier):
    # "the largest power the vehicle's curve permits" is decided inside Battery.load/unload: that unit is part of this check
    import c01
    with prepared(tier) as unit:
        return corr.standard_run("C10", tier, [unit, c01.UNIT], {unit.name: 0, "battery": 300}, {unit.name: 0, "battery": 3000},
                                 sim.SIM_TRUSTED + ["exp/log oracle per strategy step"], RULE, search_factor=1)


def replay(payload):
    if payload["input"].get("unit") in ("battery", "glue", "unlimited-float"):
        import c01
        return c01.replay(payload)
    case = payload["input"]["case"]
    rec = sim.run_record(case["js"], case["strategy"], case.get("options"), inject_at=case.get("inject_at"))
    v = UNIT.check_property({"rec": rec, "i": case["step"]}, None)
    for cls, what in v:
        print("VIOLATION-REPLAY %s: %s" % (cls, what[:600]))
    print("replay: %d violation(s)" % len(v))
    return 1 if v else 0
