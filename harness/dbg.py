"""debug helper: python harness/dbg.py <module> <replay.json>  — show model output vs implementation for the first broken case"""
import sys, os, json, importlib
sys.path.insert(0, os.path.dirname(os.path.abspath(__file__)))
import common as C
C.setup_repo_path()
mod = importlib.import_module(sys.argv[1])
unit = getattr(mod, sys.argv[3]) if len(sys.argv) > 3 else mod.UNIT
p = C.unjson(json.load(open(sys.argv[2])))
d = p["broken"][-1]["detail"] if "broken" in p else p["input"]
case = d["case"]
out = unit.run_impl(case)
print("CASE", case); print("IMPL", out)
txt = unit.header + "\nDefinition c : %s := %s.\n" % (unit.casetype, unit.emit(case, out))
txt += "Eval vm_compute in (%s).\n" % (unit.runfn + " c")
r = C.eval_case_files([("dbg", txt)])
print(r["dbg"][1] or r["dbg"][2])
