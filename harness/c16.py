"""C16 — determinism, isolation, time relabelling: theorems on the event model (props/C16.v) + history
tests on the implementation (implementation-vs-implementation, sampled)."""
import copy
import datetime
import io
import contextlib
import json
import os
import warnings

import c07
import common as C
import corr
import scen
import sim
from ex import fr


def plain_run(s_obj, strategy, options):
    with warnings.catch_warnings(), contextlib.redirect_stdout(io.StringIO()):
        warnings.simplefilter("ignore")
        s_obj.run(strategy, dict({"skip_flex_report": True}, **options))
    gcs = list(s_obj.components.grid_connectors)
    return {"step_i": s_obj.step_i, "total": {g: list(s_obj.totalLoad[g]) for g in gcs}, "socs": [list(x) for x in s_obj.socs],
            "cmds": [dict(r["commands"]) for r in s_obj.results], "bat": {k: list(v) for k, v in s_obj.batteryLevels.items()},
            "aborted": "(ABORTED)" in str(s_obj.strat.description)}


def norm_components(s_obj):
    def enc(o, depth=0):
        if isinstance(o, (int, float, str, bool)) or o is None:
            return o
        if isinstance(o, (datetime.datetime, datetime.date, datetime.timedelta)):
            return str(o)
        if isinstance(o, dict):
            return {str(k): enc(v, depth + 1) for k, v in o.items()}
        if isinstance(o, (list, tuple)):
            return [enc(v, depth + 1) for v in o]
        if hasattr(o, "__dict__") and depth < 8:
            return {k: enc(v, depth + 1) for k, v in vars(o).items() if k != "signal_time"}
        return repr(type(o))
    return json.dumps({"components": enc(s_obj.components), "events": enc(s_obj.events)}, sort_keys=True)


def shift_js(js, days):
    d = datetime.timedelta(days=days)
    js = copy.deepcopy(js)

    def sh(x):
        return scen.iso(datetime.datetime.fromisoformat(x) + d)

    def walk(o):
        if isinstance(o, dict):
            for k, v in o.items():
                if isinstance(v, str) and ("time" in k) and len(v) > 15 and v[4] == "-":
                    o[k] = sh(v)
                else:
                    walk(v)
        elif isinstance(o, list):
            for v in o:
                walk(v)
    walk(js)
    return js


def add_unrelated_gc(js, rng, first=False):
    js = copy.deepcopy(js)
    other = scen.gen_scenario(rng, n_gc=1, n_veh=2, steps=js["scenario"]["n_intervals"], interval=js["scenario"]["interval"])
    start0 = datetime.datetime.fromisoformat(js["scenario"]["start_time"])
    start1 = datetime.datetime.fromisoformat(other["scenario"]["start_time"])
    other = shift_js(other, 0)
    delta = start0 - start1

    def ren(k):
        return "X" + k
    def fixtimes(o):
        if isinstance(o, dict):
            for k, v in list(o.items()):
                if isinstance(v, str) and "time" in k and len(v) > 15 and v[4] == "-":
                    o[k] = scen.iso(datetime.datetime.fromisoformat(v) + delta)
                else:
                    fixtimes(v)
        elif isinstance(o, list):
            for v in o:
                fixtimes(v)
    fixtimes(other)
    comp, ev = other["components"], other["events"]
    gmap = {g: ren(g) for g in comp["grid_connectors"]}
    for g, v in comp["grid_connectors"].items():
        js["components"]["grid_connectors"][gmap[g]] = v
    cmap = {c: "X" + c for c in comp["charging_stations"]}
    for c, v in comp["charging_stations"].items():
        v["parent"] = gmap[v["parent"]]
        js["components"]["charging_stations"][cmap[c]] = v
    for t, v in comp["vehicle_types"].items():
        js["components"]["vehicle_types"]["X" + t] = dict(v, name="X" + t)
    for vid, v in comp["vehicles"].items():
        v["vehicle_type"] = "X" + v["vehicle_type"]
        if v.get("connected_charging_station"):
            v["connected_charging_station"] = cmap[v["connected_charging_station"]]
        js["components"]["vehicles"]["zz" + vid] = v          # sorted after the existing vehicles
    for b, v in comp.get("batteries", {}).items():
        v["parent"] = gmap[v["parent"]]
        js["components"]["batteries"]["X" + b] = v
    for k in ("fixed_load", "local_generation"):
        for n, v in ev.get(k, {}).items():
            v["grid_connector_id"] = gmap[v["grid_connector_id"]]
            js["events"].setdefault(k, {})["X" + n] = v
    for sg in ev.get("grid_operator_signals", []):
        sg["grid_connector_id"] = gmap[sg["grid_connector_id"]]
        js["events"]["grid_operator_signals"].append(sg)
    for ve in ev.get("vehicle_events", []):
        ve["vehicle_id"] = "zz" + ve["vehicle_id"]
        if ve["update"].get("connected_charging_station"):
            ve["update"]["connected_charging_station"] = cmap[ve["update"]["connected_charging_station"]]
        js["events"]["vehicle_events"].append(ve)
    # signals of the unrelated connector that start exactly when signals / series values of the existing connectors start,
    # listed before as well as after them (a look-ahead that stops at a foreign signal would miss its own events of that time)
    xg = list(gmap.values())[0]
    own = [sg for sg in js["events"]["grid_operator_signals"] if sg["grid_connector_id"] != xg]
    times = [sg["start_time"] for sg in own]
    start = datetime.datetime.fromisoformat(js["scenario"]["start_time"])
    iv = datetime.timedelta(minutes=js["scenario"]["interval"])
    times += [scen.iso(start + iv * k) for k in range(1, js["scenario"]["n_intervals"], 2)]
    mirrored = [{"signal_time": js["scenario"]["start_time"], "start_time": t, "grid_connector_id": xg,
                 "cost": {"type": "fixed", "value": rng.choice([0.1, 0.4])}} for t in times]
    half = len(mirrored) // 2
    js["events"]["grid_operator_signals"] = mirrored[:half] + js["events"]["grid_operator_signals"] + mirrored[half:]
    # a limit signal for the unrelated connector only, announced at the start and taking effect in the second half of the run: a
    # look-ahead that does not filter signals by connector plans the existing connector with it (round-4 seed C16-s10)
    nn = js["scenario"]["n_intervals"]
    js["events"]["grid_operator_signals"].append({"signal_time": js["scenario"]["start_time"], "start_time": scen.iso(start + iv * max(1, nn // 2)),
                                                  "grid_connector_id": xg, "max_power": rng.choice([3, 5])})
    if first:
        # the unrelated connector comes FIRST in every component dictionary and owns a charged stationary battery: per-connector
        # state that a strategy forgets to reset leaks from it into the existing connectors (round-3 seed C16-s7)
        comp0 = js["components"]
        if not any(b_["parent"] == xg for b_ in comp0["batteries"].values()):
            comp0["batteries"]["XBATX"] = {"parent": xg, "capacity": 100, "charging_curve": [[0, 30], [1, 30]], "soc": 0.9}
        for key in ("grid_connectors", "charging_stations", "batteries"):
            d_ = comp0[key]
            comp0[key] = dict([(k, v) for k, v in d_.items() if k.startswith("X")] + [(k, v) for k, v in d_.items() if not k.startswith("X")])
    return js


def near(a, b_):
    if a is None or b_ is None:
        return a is b_
    return abs(a - b_) <= 1e-9 * max(1.0, abs(a), abs(b_))


def same_run(a, b_, gcs=None, nveh=None, prefix=False):
    if not prefix and (a["step_i"] != b_["step_i"] or a["aborted"] != b_["aborted"]):
        return "step_i/aborted differ: %s/%s vs %s/%s" % (a["step_i"], a["aborted"], b_["step_i"], b_["aborted"])
    # prefix mode: the added part may abort the run earlier; compare the steps both runs report as valid
    n = min(a["step_i"] - (1 if a["aborted"] else 0), b_["step_i"] - (1 if b_["aborted"] else 0)) if prefix else a["step_i"]
    for g in (gcs or a["total"]):
        # prefix mode: the step at which the added part aborts the run is reported as well and must still agree at the existing connectors
        # (only when the strategy completed that step, i.e. commands were issued: a step that raised is reported with placeholder zeros)
        n2 = n
        if prefix and len(b_["cmds"]) > n and b_["cmds"][n] and len(a["cmds"]) > n and a["cmds"][n]:
            n2 = min(len(a["total"][g]), len(b_["total"][g]), n + 1)
        if (not prefix and len(a["total"][g]) != len(b_["total"][g])) or any(not near(x, y) for x, y in zip(a["total"][g][:n2], b_["total"][g][:n2])):
            return "connector power series of %s differ" % g
    for x, y in list(zip(a["socs"], b_["socs"]))[:n]:
        xs, ys = (x[:nveh], y[:nveh]) if nveh else (x, y)
        if len(xs) != len(ys) or any(not near(p, q) for p, q in zip(xs, ys)):
            return "vehicle SoC series differ"
    return None


_TW = {}


def tw_path():
    """time-window file for the peak_load_window histories (all year, all levels; written once per process)"""
    if "p" not in _TW:
        import atexit
        import shutil
        import tempfile
        d = tempfile.mkdtemp(prefix="verif_c16tw_")
        atexit.register(shutil.rmtree, d, True)
        p = os.path.join(d, "tw.json")
        json.dump({"default_grid_operator": {"all": {"start": "2023-01-01", "end": "2023-12-31", "windows": {
            lv: [["08:00", "11:00"], ["22:00", "01:00"]] for lv in ("HV", "MV", "LV")}}}}, open(p, "w"))
        _TW["p"] = p
    return _TW["p"]


class HistoryUnit(corr.Unit):
    name = "histories"
    tagfn = None

    def generate(self, rng_main, n, biased=False):
        import random
        out = []
        # (the directed cases and the option draws added later use a private stream, so the random histories stay what they were)
        rng = random.Random("c16-extra/%d" % C.seed())
        rngo = random.Random("c16-opts/%d" % C.seed())
        # directed: a connector whose limit binds (hungry vehicles), compared with the same scenario plus an unrelated connector that
        # comes first and owns a charged battery (even seed => first): state kept across connectors inside a step shows here
        for k in range(min(n, 4)):
            js = scen.gen_scenario(rng, n_gc=1, n_veh=3, features=set(), steps=6, interval=60)
            js.pop("_features", None)
            for g in js["components"]["grid_connectors"].values():
                g["max_power"] = rng.choice([8, 12])
            for v in js["components"]["vehicles"].values():
                v.update({"soc": 0.1, "desired_soc": 1.0})
            out.append({"js": js, "strategy": ["greedy", "balanced", "distributed", "greedy"][k], "options": {"ALLOW_NEGATIVE_SOC": True},
                        "weeks": 1, "other": "balanced", "seed": 2 * rng.randrange(10**5)})
        for k in range(min(n, 2)):
            # peak_load_window: vehicles that have to charge inside a window (short standing time), start shortly before the 08:00 window
            js = scen.gen_scenario(rng, n_gc=1, n_veh=2, features=set(), steps=8, interval=60)
            js.pop("_features", None)
            js["scenario"]["start_time"] = "2023-01-03T06:00:00" + scen.TZ
            js = shift_js(js, 0)
            st_ = datetime.datetime.fromisoformat(js["scenario"]["start_time"])
            for g in js["components"]["grid_connectors"].values():
                g["max_power"] = 30
            for i_, v in enumerate(js["components"]["vehicles"].values()):
                cs_ = [c for c in js["components"]["charging_stations"]][i_]
                v.update({"soc": 0.2, "desired_soc": 0.9, "connected_charging_station": cs_,
                          "estimated_time_of_departure": scen.iso(st_ + datetime.timedelta(hours=5 + i_))})
            js["events"]["vehicle_events"] = []
            out.append({"js": js, "strategy": "peak_load_window", "options": {"ALLOW_NEGATIVE_SOC": True, "time_windows": tw_path()},
                        "weeks": 1, "other": "greedy", "seed": 2 * rng.randrange(10**5) + k})
        rng = rng_main
        for _ in range(n):
            strategy = rng.choice(["greedy", "balanced", "distributed", "balanced_market", "peak_shaving", "peak_shaving"])
            slow = strategy in ("balanced_market", "peak_shaving")
            js = scen.gen_scenario(rng, n_gc=rng.choice([1, 2]) if not slow else 1, steps=rng.choice([6, 12, 24]) if not slow else 8,
                                   interval=None if not slow else 60)
            if rngo.random() < 0.15:
                # some histories under peak_load_window (scenario drawn from the private stream)
                strategy = "peak_load_window"
                js = scen.gen_scenario(rngo, n_gc=1, steps=8, interval=60)
            js.pop("_features", None)
            opts = {"ALLOW_NEGATIVE_SOC": True}
            if rng.random() < 0.3:
                opts["CONCURRENCY"] = 0.5
            if rngo.random() < 0.4:
                # reports are aggregated at the end of the run (they must leave the scenario alone as well; round-4 seed C16-s9)
                opts["testing"] = True
            if rngo.random() < 0.5:
                # the default: the end-of-run flexibility report is computed (it must not touch the scenario either; round-3 seed C16-s8)
                opts["skip_flex_report"] = False
            if strategy == "peak_load_window":
                opts["time_windows"] = tw_path()
            out.append({"js": js, "strategy": strategy, "options": opts, "weeks": rng.choice([1, 2, 5, 52]),
                        "other": rng.choice(["greedy", "balanced", "distributed"]), "seed": rng.randrange(10**6)})
        return out

    def run_impl(self, case):
        import random
        from spice_ev import scenario as sc
        res = {}
        try:
            s1 = sc.Scenario(copy.deepcopy(case["js"]), "")
            before = norm_components(s1)
            r1 = plain_run(s1, case["strategy"], case["options"])
            res["unchanged"] = before == norm_components(s1)

            def sigtimes(s_):
                return [str(e.signal_time) for e in list(s_.events.vehicle_events) + list(s_.events.grid_operator_signals)]
            sig1 = sigtimes(s1)
            r1b = plain_run(s1, case["strategy"], case["options"])            # same object again
            # strategy constructors may announce events earlier, but only idempotently: a second run must not move them again
            sig2 = sigtimes(s1)
            res["signal_times_drift"] = None if sig1 == sig2 else "signal times moved again on the second run: %s -> %s" % (
                [a for a, b_ in zip(sig1, sig2) if a != b_][:2], [b_ for a, b_ in zip(sig1, sig2) if a != b_][:2])
            s2 = sc.Scenario(copy.deepcopy(case["js"]), "")
            r2 = plain_run(s2, case["strategy"], case["options"])             # fresh load
            res["same_object"] = same_run(r1, r1b)
            res["fresh"] = same_run(r1, r2)
            plain_run(s1, case["other"], case["options"])                       # another strategy in between
            r1c = plain_run(s1, case["strategy"], case["options"])
            res["after_other_strategy"] = same_run(r1, r1c)
            s3 = sc.Scenario(shift_js(case["js"], 7 * case["weeks"]), "")
            res["shift"] = same_run(r1, plain_run(s3, case["strategy"], case["options"]))
            if case["strategy"] in ("greedy", "balanced", "distributed", "peak_shaving", "balanced_market", "peak_load_window"):
                js4 = add_unrelated_gc(case["js"], random.Random(case["seed"]), first=case["seed"] % 2 == 0)
                s4 = sc.Scenario(js4, "")
                r4 = plain_run(s4, case["strategy"], case["options"])
                res["unrelated"] = same_run(r1, r4, gcs=list(r1["total"]), nveh=len(case["js"]["components"]["vehicles"]), prefix=True)
        except Exception as e:  # noqa
            res["err"] = repr(e)[:300]
        return res

    def emit(self, case, out):
        return ""

    def check_property(self, case, out):
        d = "%s %s weeks=%s scenario=%s" % (case["strategy"], case["options"], case["weeks"], json.dumps(case["js"])[:600])
        v = []
        if "err" in out:
            return [("C16/error", "%s: %s" % (out["err"], d))]
        if out.get("unchanged") is False:
            v.append(("C16/scenario-mutated", "running the scenario changed its definition (components/events): %s" % d))
        for k, cls in (("same_object", "C16/rerun-same-object"), ("fresh", "C16/rerun-fresh"), ("after_other_strategy", "C16/state-leak-between-strategies"),
                       ("shift", "C16/week-shift"), ("unrelated", "C16/unrelated-connector"),
                       ("signal_times_drift", "C16/signal-times-drift")):
            if out.get(k):
                v.append((cls, "%s: %s" % (out[k], d)))
        return v[:3]


HIST = HistoryUnit()
RULE = ("(a) the Events correspondence unit (model under the shift theorems); (b) histories on one Scenario object: run, rerun, another strategy in "
        "between, rerun; fresh load; all timestamps shifted by k*7 days (k in 1,2,5,52); an unrelated connector with its own vehicles, loads "
        "and signals added (greedy/balanced/distributed); definition compared before/after (signal_time excluded: constructors move it earlier) — "
        "plain float runs, compared with relative tolerance 1e-9")


def run(tier):
    def extra(rep, tier_, sd):
        corr.correspond(HIST, 25 if tier_ == "quick" else 300, sd, rep, check_model=False, label="histories (implementation vs implementation, sampled)")
    return corr.standard_run("C16", tier, [c07.UNIT], 300, 3000, c07.TRUSTED, RULE, extra=extra)


def replay(payload):
    inp = payload["input"]
    if inp.get("unit") == "histories":
        v = HIST.check_property(inp["case"], HIST.run_impl(inp["case"]))
    else:
        return c07.replay(payload)
    for cls, what in v:
        print("VIOLATION-REPLAY %s: %s" % (cls, what[:600]))
    print("replay: %d violation(s)" % len(v))
    return 1 if v else 0
