#!/venv/bin/python
"""./check Cxx [--tier quick|thorough] [--replay file]"""
import argparse
import importlib
import json
import os
import sys

sys.path.insert(0, os.path.dirname(os.path.abspath(__file__)))
os.environ.setdefault("PYTHONHASHSEED", "0")
import common as C  # noqa: E402


def main():
    ap = argparse.ArgumentParser()
    ap.add_argument("pid")
    ap.add_argument("--tier", default=os.environ.get("VERIF_TIER", "quick"), choices=["quick", "thorough"])
    ap.add_argument("--replay")
    a = ap.parse_args()
    C.setup_repo_path()
    mod = importlib.import_module(a.pid.lower())
    if a.replay:
        payload = C.unjson(json.load(open(a.replay)))
        sys.exit(mod.replay(payload))
    sys.exit(mod.run(a.tier))


if __name__ == "__main__":
    main()
