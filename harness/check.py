#!/venv/bin/python
"""./check Cxx [--tier quick|thorough] [--replay file]"""
import argparse
import importlib
import json
import os
import sys

sys.path.insert(0, os.path.dirname(os.path.abspath(__file__)))
os.environ.setdefault("PYTHONHASHSEED", "0")
import common as C  # noqa: E402


def main():
    ap = argparse.ArgumentParser()
    ap.add_argument("pid")
    ap.add_argument("--tier", default=os.environ.get("VERIF_TIER", "quick"), choices=["quick", "thorough"])
    ap.add_argument("--replay")
    a = ap.parse_args()
    C.setup_repo_path()
    mod = importlib.import_module(a.pid.lower())
    if a.replay:
        payload = C.unjson(json.load(open(a.replay)))
        rc = mod.replay(payload)
        if isinstance(rc, (list, tuple)):
            for x in rc:
                print("VIOLATION-REPLAY", str(x)[:700])
            rc = 1 if rc else 0
        sys.exit(rc)
    try:
        rc = mod.run(a.tier)
    except Exception:  # noqa
        # the harness itself could not complete on this tree: the property is no longer shown to hold
        import traceback
        tb = traceback.format_exc()
        path = C.write_replay(a.pid, {"property": a.pid, "kind": "unproved", "broken": [{"name": "check harness raised", "detail": tb[-3000:]}],
                                      "note": "the correspondence harness could not process the implementation's behaviour"})
        print(tb[-1500:])
        print("VIOLATION property=%s replay=%s no-failing-input-found" % (a.pid, path))
        rc = 1
    sys.exit(rc)


if __name__ == "__main__":
    main()
