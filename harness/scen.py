"""Scenario generation, exact execution of /repo's simulator, per-step snapshots."""
import copy
import datetime
import io
import contextlib
import warnings
from fractions import Fraction as F

from ex import Ex, fr

TZ = "+02:00"
STRATS = ['greedy', 'balanced', 'balanced_market', 'distributed', 'peak_load_window', 'peak_shaving', 'flex_window', 'schedule']


def iso(dt):
    return dt.isoformat()


def gen_curve(rng, P):
    shape = rng.choice(["const", "const", "taper", "taper2"])
    if shape == "const":
        return [[0, P], [1, P]]
    if shape == "taper":
        return [[0, P], [0.8, P], [1, round(P * rng.choice([0.1, 0.5]), 3)]]
    return [[0, P], [0.5, P], [0.8, round(P / 2, 3)], [1, round(P / 10, 3)]]


def gen_scenario(rng, n_gc=None, n_veh=None, features=None, steps=None, interval=None):
    """random scenario dict (JSON-able) within the feature envelope of property C04"""
    feats = features if features is not None else {
        k for k in ("fixed", "generation", "battery", "v2g", "price", "limit", "unaligned", "minpower", "number_cs")
        if rng.random() < 0.45}
    if features is None and rng.random() < 0.2:
        feats |= set(rng.choice([("battery", "price", "limit"), ("generation", "v2g", "limit"), ("battery", "generation", "fixed"),
                                 ("price", "limit", "fixed"), ("battery", "v2g", "price"), ("generation", "price"), ("generation", "v2g", "price")]))
    interval = interval or rng.choice([15, 15, 30, 60, 10])
    steps = steps or rng.choice([4, 8, 12, 24, 48])
    start = datetime.datetime.fromisoformat("2023-01-0%dT%02d:00:00%s" % (rng.randint(2, 8), rng.choice([0, 6, 12, 22]), TZ))
    dt = datetime.timedelta(minutes=interval)
    n_gc = n_gc or rng.choice([1, 1, 2])
    n_veh = max(n_veh or rng.randint(1, 6), n_gc)
    comp = {"grid_connectors": {}, "charging_stations": {}, "vehicle_types": {}, "vehicles": {}, "batteries": {}, "photovoltaics": {}}
    ev = {"fixed_load": {}, "local_generation": {}, "grid_operator_signals": [], "vehicle_events": []}
    gtype = {}
    for g in range(n_gc):
        gid = "GC%d" % (g + 1)
        gtype[gid] = rng.choice(["deps", "opps"])
        gc = {"max_power": rng.choice([20, 50, 100, 630]), "cost": {"type": "fixed", "value": rng.choice([0.3, 0.1, 5])}}
        if rng.random() < 0.3:
            gc["cost"] = {"type": "polynomial", "value": [0, rng.choice([0.1, 0.3]), rng.choice([0, 0.01])]}
        if "number_cs" in feats and rng.random() < 0.5:
            gc["number_cs"] = rng.randint(1, 3)
        gc["voltage_level"] = rng.choice(["MV", "LV", "HV"])
        gc["grid_operator"] = "default_grid_operator"
        comp["grid_connectors"][gid] = gc
        if "fixed" in feats and rng.random() < 0.8:
            n = rng.choice([steps, steps // 2, steps * 2])
            sd = interval * 60 if "unaligned" not in feats else rng.choice([interval * 60, 600, 2700])
            ev["fixed_load"]["load%d" % (g + 1)] = {
                "start_time": iso(start + (datetime.timedelta(0) if "unaligned" not in feats else datetime.timedelta(minutes=rng.choice([0, -20, 7])))),
                "step_duration_s": sd, "grid_connector_id": gid,
                "values": [round(rng.uniform(0, gc["max_power"] * 0.6), 2) for _ in range(max(n, 1))]}
        if "generation" in feats and rng.random() < 0.8:
            n = rng.choice([steps, steps // 2 + 1])
            ev["local_generation"]["pv%d" % (g + 1)] = {
                "start_time": iso(start), "step_duration_s": interval * 60, "grid_connector_id": gid,
                "values": [round(max(0, rng.uniform(-5, gc["max_power"] * 0.7)), 2) for _ in range(n)]}
            comp["photovoltaics"]["pv%d" % (g + 1)] = {"parent": gid, "nominal_power": rng.choice([5, 30, 95])}
        if "battery" in feats and rng.random() < 0.8:
            P = rng.choice([10, 50])
            b = {"parent": gid, "charging_curve": gen_curve(rng, P), "capacity": rng.choice([50, 100, -1]),
                 "soc": rng.choice([0, 0.5, 1, 0.3]), "efficiency": rng.choice([0.95, 1, 0.9]),
                 "min_charging_power": rng.choice([0, 0, 1])}
            if b["capacity"] == -1:
                b["charging_curve"] = [[0, P], [1, P]]
            if rng.random() < 0.3:
                b["loss_rate"] = {rng.choice(["relative", "fixed_relative", "fixed_absolute"]): rng.choice([0.1, 1, 0.01])}
            comp["batteries"]["BAT%d" % (g + 1)] = b
        if "price" in feats and rng.random() < 0.5:
            # a cheap period early in the run (at or below the default PRICE_THRESHOLD 0)
            t = start + dt * rng.randint(0, 1)
            ev["grid_operator_signals"].append({"signal_time": iso(start), "start_time": iso(t), "grid_connector_id": gid,
                                                "cost": {"type": "fixed", "value": rng.choice([-0.1, 0])}})
        if "limit" in feats and rng.random() < 0.5:
            t = start + dt * rng.randint(0, 2)
            ev["grid_operator_signals"].append({"signal_time": iso(start), "start_time": iso(t), "grid_connector_id": gid,
                                                "max_power": gc["max_power"] * rng.choice([0.5, 0.25])})
        if "price" in feats:
            for _ in range(rng.randint(1, 3)):
                t = start + dt * rng.randint(0, steps) + (datetime.timedelta(minutes=rng.choice([0, 3])) if "unaligned" in feats else datetime.timedelta(0))
                ev["grid_operator_signals"].append({
                    "signal_time": iso(t - dt * rng.randint(0, 4)), "start_time": iso(t), "grid_connector_id": gid,
                    "cost": {"type": "fixed", "value": rng.choice([-0.1, 0, 0.05, 0.3, 1])}})
        if "limit" in feats:
            for _ in range(rng.randint(1, 2)):
                t = start + dt * rng.randint(0, steps)
                ev["grid_operator_signals"].append({
                    "signal_time": iso(t - dt * rng.randint(0, 2)), "start_time": iso(t), "grid_connector_id": gid,
                    "max_power": rng.choice([gc["max_power"] * 2, gc["max_power"] / 2, gc["max_power"] * 0.8])})
    ntypes = rng.choice([1, 2])
    for k in range(ntypes):
        P = rng.choice([11, 22, 50, 150])
        vt = {"name": "vt%d" % k, "capacity": rng.choice([30, 50, 76.5, 300]), "charging_curve": gen_curve(rng, P),
              "battery_efficiency": rng.choice([0.95, 1, 0.9])}
        if "minpower" in feats:
            vt["min_charging_power"] = rng.choice([0, 0.5, 2])
        if "v2g" in feats and rng.random() < 0.7:
            vt["v2g"] = True
            vt["v2g_power_factor"] = rng.choice([0.5, 1, 0.25])
            vt["discharge_limit"] = rng.choice([0.5, 0.2, 0.8])
        comp["vehicle_types"]["vt%d" % k] = vt
    gids = list(comp["grid_connectors"])
    for i in range(n_veh):
        vid = "v%02d" % i
        gid = gids[i] if i < len(gids) else rng.choice(gids)
        cs = "CS_" + vid + "_" + gtype[gid]
        comp["charging_stations"][cs] = {"max_power": rng.choice([3.7, 11, 22, 50, 150]), "parent": gid}
        if "minpower" in feats:
            comp["charging_stations"][cs]["min_power"] = rng.choice([0, 0.2, 2])
        vt = rng.choice(list(comp["vehicle_types"]))
        connected = rng.random() < 0.6
        soc = rng.choice([0.1, 0.3, 0.5, 0.8, 1, 0.95]) if connected else rng.choice([0.5, 0.8, 1, 0.65])
        v = {"vehicle_type": vt, "soc": soc, "desired_soc": rng.choice([0.8, 1, 0.5, 0.9])}
        t = 0
        if connected:
            v["connected_charging_station"] = cs
            dep = rng.randint(1, max(1, steps))
            v["estimated_time_of_departure"] = iso(start + dt * dep)
            t = dep
        comp["vehicles"][vid] = v
        # alternating departure / arrival events
        state = "connected" if connected else "away"
        off = datetime.timedelta(minutes=rng.choice([0, 5, -5, 2, 1])) if "unaligned" in feats else datetime.timedelta(0)
        while t <= steps + 2:
            if state == "connected":
                arr = t + rng.randint(1, 6)
                ev["vehicle_events"].append({
                    "signal_time": iso(start + dt * t + off), "start_time": iso(start + dt * t + off), "vehicle_id": vid,
                    "event_type": "departure", "update": {"estimated_time_of_arrival": iso(start + dt * arr + off)}})
                state = "away"
                t = arr
            else:
                dep = t + rng.randint(1, 10)
                ev["vehicle_events"].append({
                    "signal_time": iso(start + dt * t + off), "start_time": iso(start + dt * t + off), "vehicle_id": vid,
                    "event_type": "arrival", "update": {
                        "connected_charging_station": cs, "estimated_time_of_departure": iso(start + dt * dep + off),
                        "desired_soc": rng.choice([0.8, 1, 0.6]), "soc_delta": -rng.choice([0.05, 0.1, 0.02, 0.05, 0.1, 0.02, 0.6])}})
                state = "connected"
                t = dep
    rng.shuffle(ev["vehicle_events"]) if rng.random() < 0.3 else None
    if rng.random() < 0.4:
        # dictionary order of the vehicles differs from their sorted-id order
        items = list(comp["vehicles"].items())
        rng.shuffle(items)
        comp["vehicles"] = dict(items)
    return {"scenario": {"start_time": iso(start), "interval": interval, "n_intervals": steps},
            "components": comp, "events": ev, "_features": sorted(feats)}


# ------------------------------------------------------------------ exact execution
SKIP_ATTRS = {"step_duration_s"}


def exactify(obj, memo=None):
    """replace every float reachable from obj by the Ex number it denotes (in place)"""
    memo = memo if memo is not None else set()

    def conv(x):
        if isinstance(x, float):
            return Ex(x)
        if isinstance(x, tuple):
            return tuple(conv(y) for y in x)
        walk(x)
        return x

    def walk(o):
        if id(o) in memo or isinstance(o, (str, int, Ex, F, bool, type(None), datetime.datetime, datetime.timedelta,
                                            datetime.date, datetime.time)):
            return
        memo.add(id(o))
        if isinstance(o, dict):
            for k in list(o.keys()):
                if k not in SKIP_ATTRS:
                    o[k] = conv(o[k])
        elif isinstance(o, list):
            for i in range(len(o)):
                o[i] = conv(o[i])
        elif hasattr(o, "__dict__"):
            for k in list(vars(o).keys()):
                if k not in SKIP_ATTRS:
                    setattr(o, k, conv(getattr(o, k)))
    walk(obj)
    return obj


class Recorder:
    """class-level patches on Strategy to snapshot the world per step (no subclassing!)"""

    def __init__(self):
        self.steps = []
        self.strat = None

    def snap(self, strat):
        ws = strat.world_state
        return {
            "time": strat.current_time,
            "gc": {k: {"cur_max": fr(g.cur_max_power) if g.cur_max_power is not None else None, "max": fr(g.max_power),
                       "loads": {n: fr(v) for n, v in g.current_loads.items()},
                       "cost": copy.deepcopy(g.cost), "target": None if g.target is None else fr(g.target), "window": g.window,
                       "avg_fixed": fr(g.get_avg_fixed_load(strat.current_time, strat.interval))}
                   for k, g in ws.grid_connectors.items()},
            "cs": {k: {"cur": fr(c.current_power), "max": fr(c.max_power), "min": fr(c.min_power), "parent": c.parent}
                   for k, c in ws.charging_stations.items()},
            "veh": {k: {"soc": fr(v.battery.soc), "cs": v.connected_charging_station, "desired": fr(v.desired_soc),
                        "etd": v.estimated_time_of_departure} for k, v in ws.vehicles.items()},
            "bat": {k: {"soc": fr(b.soc)} for k, b in ws.batteries.items()},
        }

    def __enter__(self):
        from spice_ev import strategy
        self.S = strategy.Strategy
        self.o_step, self.o_loss, self.o_init = self.S.step, self.S.apply_battery_losses, self.S.__init__
        rec = self

        def init(s, components, start_time, **kw):
            rec.o_init(s, components, start_time, **kw)
            exactify(s.world_state)
            if rec.strat is None:
                rec.strat = s

        def step(s, event_list=[]):
            cur = {"pre_error": None}
            rec.steps.append(cur)
            try:
                rec.o_step(s, event_list)
            except Exception as e:  # noqa
                cur["pre_error"] = type(e).__name__
                cur["pre"] = rec.snap(s)
                raise
            cur["pre"] = rec.snap(s)
            import c01
            cur["oracle_start"] = len(c01.CALLS)

        def loss(s):
            cur = rec.steps[-1]
            import c01
            if "oracle_start" in cur:
                cur["oracle"] = list(c01.CALLS[cur["oracle_start"]:])
            cur["post"] = rec.snap(s)
            rec.o_loss(s)
            cur["loss"] = rec.snap(s)
        self.S.step, self.S.apply_battery_losses, self.S.__init__ = step, loss, init
        # count (dis)charge calls per real battery and step
        from spice_ev import battery
        self.B = battery.Battery
        self.o_load, self.o_unload = self.B.load, self.B.unload

        def real_ids():
            ws = rec.strat.world_state if rec.strat is not None else None
            if ws is None:
                return {}
            d = {id(v.battery): k for k, v in ws.vehicles.items()}
            d.update({id(b): k for k, b in ws.batteries.items()})
            return d

        def mk(orig, kind):
            def f(b, *a, **k):
                r = orig(b, *a, **k)
                if rec.steps and r["avg_power"] != 0:
                    name = real_ids().get(id(b))
                    if name is not None:
                        rec.steps[-1].setdefault("calls", []).append((kind, name, fr(r["avg_power"]), fr(b.soc)))
                return r
            return f
        self.B.load, self.B.unload = mk(self.o_load, "load"), mk(self.o_unload, "unload")
        return self

    def __exit__(self, *a):
        self.S.step, self.S.apply_battery_losses, self.S.__init__ = self.o_step, self.o_loss, self.o_init
        self.B.load, self.B.unload = self.o_load, self.o_unload


def run_exact(js, strategy_name, options=None, record=True, dir_path=""):
    """build a Scenario from js, make it exact, run it; returns (scenario, recorder, stdout)"""
    import c01
    c01.install()
    from spice_ev import scenario as sc
    js = copy.deepcopy(js)
    js.pop("_features", None)
    opts = {"skip_flex_report": True}
    opts.update(options or {})
    buf = io.StringIO()
    with warnings.catch_warnings():
        warnings.simplefilter("ignore")
        with contextlib.redirect_stdout(buf):
            s = sc.Scenario(js, dir_path)
            exactify(s.components)
            exactify(s.events)
            if record:
                with Recorder() as rec:
                    s.run(strategy_name, opts)
            else:
                rec = None
                s.run(strategy_name, opts)
    return s, rec, buf.getvalue()
