"""Exact number type used to execute unmodified spice_ev code on rationals.

Ex wraps fractions.Fraction. Mixing with int/bool/Fraction/float converts the other
operand exactly (a float denotes the rational it is). Comparisons are exact,
round() is exact round-half-even (as Python's round on Fraction)."""
from fractions import Fraction
import math


def _c(x):
    if isinstance(x, Ex):
        return x.v
    if isinstance(x, bool):
        return Fraction(int(x))
    if isinstance(x, (int, Fraction)):
        return Fraction(x)
    if isinstance(x, float):
        if x != x or x in (math.inf, -math.inf):
            raise ExactnessLost("non-finite float %r" % x)
        return Fraction(x)   # exact value of the double
    return NotImplemented


class ExactnessLost(Exception):
    pass


class Ex:
    __slots__ = ("v",)

    def __init__(self, v):
        if isinstance(v, Fraction):
            self.v = v
        else:
            c = _c(v)
            if c is NotImplemented:
                raise TypeError("Ex(%r)" % (v,))
            self.v = c

    def _b(op):
        def f(a, b):
            b = _c(b)
            if b is NotImplemented:
                return NotImplemented
            return Ex(op(a.v, b))

        def r(a, b):
            b = _c(b)
            if b is NotImplemented:
                return NotImplemented
            return Ex(op(b, a.v))
        return f, r
    __add__, __radd__ = _b(lambda a, b: a + b)
    __sub__, __rsub__ = _b(lambda a, b: a - b)
    __mul__, __rmul__ = _b(lambda a, b: a * b)
    __truediv__, __rtruediv__ = _b(lambda a, b: a / b)
    __floordiv__, __rfloordiv__ = _b(lambda a, b: Fraction(a // b))
    __mod__, __rmod__ = _b(lambda a, b: a % b)

    def __pow__(s, n):
        if isinstance(n, int):
            return Ex(s.v ** n)
        return NotImplemented

    def __neg__(s): return Ex(-s.v)
    def __pos__(s): return s
    def __abs__(s): return Ex(abs(s.v))
    def __float__(s): return float(s.v)
    def __bool__(s): return s.v != 0
    def __hash__(s): return hash(s.v)
    def __int__(s): return int(s.v)
    def __trunc__(s): return math.trunc(s.v)
    def __floor__(s): return math.floor(s.v)
    def __ceil__(s): return math.ceil(s.v)
    def __index__(s):
        if s.v.denominator != 1:
            raise TypeError("non-integral Ex used as index")
        return s.v.numerator

    def _cmp(op):
        def f(a, b):
            b = _c(b)
            if b is NotImplemented:
                return NotImplemented
            return op(a.v, b)
        return f
    __lt__ = _cmp(lambda a, b: a < b)
    __le__ = _cmp(lambda a, b: a <= b)
    __gt__ = _cmp(lambda a, b: a > b)
    __ge__ = _cmp(lambda a, b: a >= b)
    __eq__ = _cmp(lambda a, b: a == b)
    __ne__ = _cmp(lambda a, b: a != b)

    def __repr__(s): return "Ex(%s)" % s.v
    def __str__(s): return str(float(s.v))
    def __format__(s, spec): return format(float(s.v), spec)

    def __round__(s, n=None):
        if n is None:
            return round(s.v)
        return Ex(Fraction(round(s.v, n)))

    def __copy__(s): return s
    def __deepcopy__(s, memo): return s
    def __reduce__(s): return (Ex, (s.v,))


def fr(x):
    """exact Fraction of any supported number"""
    c = _c(x)
    if c is NotImplemented:
        raise TypeError("not a number: %r" % (x,))
    return c


def is_num(x):
    return isinstance(x, (Ex, int, float, Fraction)) and not isinstance(x, bool)
