"""C19 — scenario generators emit well-formed, reproducible, drivable scenarios.

Coq models (theories/Gen.v): the daily trip loop of generate_from_statistics (per vehicle, the random trips
being an input stream recorded from generate_trip) and the per-vehicle trip loop of generate_from_csv.
Theorems in GenProps.v; exact correspondence here; implementation-level predicates for all three generators
(the SimBEV generator has no Coq model)."""
import argparse
import contextlib
import copy
import csv
import datetime
import io
import json
import os
import shutil
import sys
import tempfile
import warnings

import common as C
import corr
from ex import Ex, fr

EPOCH = datetime.datetime(2000, 1, 1)


def QS(s):
    from fractions import Fraction
    return Fraction(s)


def minutes(iso):
    dt = datetime.datetime.fromisoformat(iso)
    dt = dt.replace(tzinfo=None)
    d = dt - EPOCH
    assert d.microseconds == 0
    return d.days * 86400 + d.seconds           # seconds, despite the name of the statistics unit's field


def defloat(x):
    if isinstance(x, Ex):
        return float(x.v)
    if isinstance(x, dict):
        return {k: defloat(v) for k, v in x.items()}
    if isinstance(x, (list, tuple)):
        return [defloat(v) for v in x]
    return x


def shipped_types():
    return json.load(open(os.path.join(C.REPO, "examples/data/vehicle_types.json")))


def base_args(tmp, mode, **kw):
    ns = argparse.Namespace(
        mode=mode, output=os.path.join(tmp, "scenario.json"), interval=15, min_soc=0.8, battery=[], gc_power=100,
        grid_operator=None, voltage_level="MV", pv_power=0, cs_power_min=None, days=7, seed=None,
        vehicle_types=None, include_fixed_load_csv=None, include_fixed_load_csv_option=[],
        include_local_generation_csv=None, include_local_generation_csv_option=[], include_price_csv=None,
        include_price_csv_option=[], verbose=0, input_file=None, export_vehicle_id_csv=None, simbev=None,
        region=None, ignore_simbev_soc=False, min_soc_threshold=0.05, vehicles=None,
        start_time="2023-01-01T01:00:00+02:00", holidays=[], buffer=0.1)
    for k, v in kw.items():
        setattr(ns, k, v)
    return ns


def quiet():
    st = contextlib.ExitStack()
    st.enter_context(warnings.catch_warnings())
    warnings.simplefilter("ignore")
    st.enter_context(contextlib.redirect_stdout(io.StringIO()))
    return st


def load_and_run(sc, need_nonneg, sliver=0.0):
    """the scenario loads; optionally greedy simulation without negative SoC. returns list of (cls, what).
    sliver: SoC that one step at the minimum charging power delivers; greedy does not charge a remaining demand
    smaller than that, so a trip that needs exactly the desired SoC ends that much below zero (separate class)"""
    from spice_ev.scenario import Scenario
    out = []
    js = json.loads(json.dumps(defloat(sc)))
    try:
        with quiet():
            s = Scenario(js)
    except Exception as e:
        return [("load", "generated scenario does not load: %r" % (e,))]
    if need_nonneg:
        try:
            with quiet():
                s.run("greedy", {"skip_flex_report": True, "ALLOW_NEGATIVE_SOC": True})
        except Exception as e:
            return [("negative-soc", "greedy run raised %r" % (e,))]
        if s.step_i != s.n_intervals:
            out.append(("negative-soc", "greedy run on the generated scenario aborted at step %d" % s.step_i))
        lo = min([v for row in s.socs for v in row if v is not None] + [0.0])
        if lo < -1e-9:
            # negative only at first arrivals: the vehicle started with the configured minimum SoC and had too little time
            # before its first trip (low --min-soc with a late --start-time)
            first_arr = {}
            for e in js["events"]["vehicle_events"]:
                if e["event_type"] == "arrival":
                    first_arr.setdefault(e["vehicle_id"], e["start_time"])
            trk = getattr(s, "negative_soc_tracker", {}) or {}
            only_first = bool(trk) and all(len(ts_) == 1 and vid in first_arr and
                                           abs((datetime.datetime.fromisoformat(ts_[0].replace(" ", "T")) -
                                                datetime.datetime.fromisoformat(first_arr[vid])).total_seconds()) <= s.interval.total_seconds()
                                           for vid, ts_ in trk.items())
            cls = ("negative-soc/min-power-sliver" if lo >= -sliver else
                   "negative-soc/initial-soc-before-first-trip" if only_first else "negative-soc")
            out.append((cls, "greedy run with ample connector power: lowest SoC %r (one step at minimum charging power = %.4f SoC)" % (lo, sliver)))
    return out


def per_vehicle(sc):
    pv = {v: [] for v in sc["components"]["vehicles"]}
    for e in sc["events"]["vehicle_events"]:
        pv.setdefault(e["vehicle_id"], []).append(e)
    return pv


def ev_tuple(e):
    u = e["update"]
    if e["event_type"] == "departure":
        eta = u.get("estimated_time_of_arrival")
        return ("dep", minutes(e["start_time"]), None if eta is None else minutes(eta))
    etd = u.get("estimated_time_of_departure")
    return ("arr", minutes(e["start_time"]), None if etd is None else minutes(etd), fr(u["desired_soc"]), fr(u["soc_delta"]))


def coq_ev(t):
    if t[0] == "dep":
        return "GDep %s %s" % (C.z(t[1]), C.z(t[2]))
    return "GArr %s %s %s %s" % (C.z(t[1]), C.zopt(t[2]), C.q(t[3]), C.q(t[4]))


# ---------------------------------------------------------------------------- statistics generator
class StatUnit(corr.Unit):
    name = "genstat"
    header = ("From Coq Require Import ZArith QArith List Bool.\nFrom SV Require Import Num Gen GenRun.\n"
              "Import ListNotations.\nOpen Scope Z_scope.\n")
    casetype = "scase"
    failing = "failing_s"
    tagfn = "tag_s"
    trivial_tags = (None, 0)
    per_file = 60

    def __init__(self):
        self.memo = {}

    def gen_args(self, rng, biased=False):
        types = shipped_types()
        perturbed = rng.random() < (0.6 if not biased else 0.8)
        names = ["golf", "sprinter"]
        if perturbed:
            types["van"] = copy.deepcopy(types["sprinter"])
            types["bus"] = copy.deepcopy(types["golf"])
            names += ["van", "bus"]
        chosen = rng.sample(names, rng.choice([1, 1, 2, 2, 3]) if perturbed else rng.choice([1, 2]))
        tp = {}
        for n_ in chosen:
            t = copy.deepcopy(types[n_])
            if perturbed:
                r = rng.random()
                if r < 0.35:
                    t["no_drive_days"] = sorted(rng.sample(range(7), rng.choice([0, 1, 2, 3, 4, 6])))
                elif r < 0.45:
                    t.pop("no_drive_days", None)
                r = rng.random()
                sv = t["statistical_values"]
                if r < 0.3:          # long trips: overlap with the next day's trip
                    sv["duration_in_hours"] = {"avg_driving": rng.choice([18, 24, 30]), "std_driving": rng.choice([4, 10]),
                                               "min_driving": rng.choice([0, 10]), "max_driving": rng.choice([30, 47])}
                elif r < 0.45:       # wide departure spread
                    sv["departure"] = {"avg_start": rng.choice(["00:10", "12:00", "23:30"]), "std_start_in_hours": rng.choice([3, 6]),
                                       "min_start": "00:00", "max_start": "23:59"}
                elif r < 0.55:       # zero-length trips possible
                    sv["duration_in_hours"] = {"avg_driving": 0.2, "std_driving": 0.5, "min_driving": 0, "max_driving": 2}
                    sv["distance_in_km"] = {"avg_distance": 1, "std_distance": 5, "min_distance": 0, "max_distance": 20}
            tp[n_] = t
        start = datetime.datetime(2023, rng.choice([1, 2, 6, 12]), rng.randint(1, 28), rng.choice([0, 1, 1, 6, 12, 23]),
                                  rng.choice([0, 0, 30]))
        a = {"seed": rng.choice([0, rng.randrange(10**6), rng.randrange(10**6)]), "days": rng.choice([1, 1, 2, 3, 5, 7, 7, 10, 14]),
             "interval": rng.choice([15, 15, 10, 60, 5]),
             "min_soc": rng.choice(["0.8", "0.8", "0.5", "0.2", "0", "1.0"]),
             "buffer": rng.choice(["0.1", "0.1", "0", "0.5"]),
             "start_time": start.isoformat() + "+02:00",
             "vehicles": [[str(rng.choice([1, 1, 2, 3])), n_] for n_ in chosen],
             "types": tp, "perturbed": perturbed,
             "holidays": [] if rng.random() < 0.7 else
             [(start + datetime.timedelta(days=rng.randrange(0, 16))).date().isoformat() for _ in range(rng.choice([1, 2, 4]))],
             "gc_power": 10000}
        return a

    def generate(self, rng, n, biased=False):
        cases = []
        while len(cases) < n:
            a = self.gen_args(rng, biased)
            nv = sum(int(c) for c, _ in a["vehicles"])
            for k in range(nv):
                cases.append({"args": a, "veh": k})
        return cases[:n]

    def scenario(self, a, exact=True, record=None):
        C.setup_repo_path()
        import generate as G
        from spice_ev.generate import generate_from_statistics as GS
        tmp = tempfile.mkdtemp(prefix="c19_")
        try:
            vt = os.path.join(tmp, "vehicle_types.json")
            json.dump(a["types"], open(vt, "w"))
            ns = base_args(tmp, "statistics", seed=a["seed"], days=a["days"], interval=a["interval"],
                           min_soc=float(a["min_soc"]), buffer=float(a["buffer"]), start_time=a["start_time"],
                           vehicles=copy.deepcopy(a["vehicles"]), vehicle_types=vt, holidays=list(a["holidays"]),
                           gc_power=a["gc_power"])
            orig = GS.generate_trip

            def wrapped(info):
                t, dur, dist = orig(info)
                f = sys._getframe(1)
                if record is not None:
                    record.append((f.f_locals["v_id"], f.f_locals["now"], t, dur, dist))
                return t, dur, (Ex(dist) if exact else dist)
            GS.generate_trip = wrapped
            try:
                with quiet():
                    G.update_namespace(ns)
                    if exact:
                        ns.min_soc = Ex(QS(a["min_soc"]))
                        ns.buffer = Ex(QS(a["buffer"]))
                    sc = GS.generate_from_statistics(ns)
            finally:
                GS.generate_trip = orig
            return sc
        finally:
            shutil.rmtree(tmp, ignore_errors=True)

    def run_all(self, a):
        key = json.dumps(a, sort_keys=True)
        if key in self.memo:
            return self.memo[key]
        rec = []
        try:
            sc = self.scenario(a, exact=True, record=rec)
            err = None
        except Exception as e:          # the generator itself failed
            sc, err = None, repr(e)
        res = {"sc": sc, "rec": rec, "err": err, "checked": False}
        self.memo = {key: res}          # keep only the latest scenario
        return res

    def run_impl(self, case):
        a = case["args"]
        r = self.run_all(a)
        if r["err"]:
            return {"err": r["err"]}
        sc = r["sc"]
        vids = list(sc["components"]["vehicles"])
        vid = vids[case["veh"]]
        start = datetime.datetime.fromisoformat(sc["scenario"]["start_time"])
        types = a["types"]
        vinfo = sc["components"]["vehicles"][vid]
        vt = types[vinfo["vehicle_type"]]
        trips = []
        for (v, now, t, dur, dist) in r["rec"]:
            if v != vid:
                continue
            day = (now - start).days
            dep = datetime.datetime.combine(now.date(), t)
            sd = Ex(dist) * (vt["mileage"] / 100) / vt["capacity"]
            trips.append((day, minutes(dep.isoformat()), int(dur.total_seconds()), sd.v))
        evs = [ev_tuple(e) for e in per_vehicle(sc)[vid]]
        etd = vinfo["estimated_time_of_departure"]
        ds = vinfo["desired_soc"]
        return {"vid": vid, "trips": trips, "etd": None if etd is None else minutes(etd),
                "dsoc": None if ds is None else fr(ds), "evs": evs, "first": case["veh"] == 0}

    def emit(self, case, out):
        a = case["args"]
        if "err" in out:
            # a generator failure has no model counterpart: an impossible expectation makes the case fail
            return ("{| sc_min := 0; sc_buf := 0; sc_days := 0; sc_trips := []; sc_etd := Some 0; sc_dsoc := None; sc_evs := [] |}")
        trips = C.lst(["{| s_day := %d; s_dep := %s; s_dur := %s; s_sd := %s |}" % (d, C.z(dep), C.z(du), C.q(sd))
                       for d, dep, du, sd in out["trips"]])
        return ("{| sc_min := %s; sc_buf := %s; sc_days := %d; sc_trips := %s; sc_etd := %s; sc_dsoc := %s; sc_evs := %s |}"
                % (C.q(QS(a["min_soc"])), C.q(QS(a["buffer"])), a["days"], trips, C.zopt(out["etd"]), C.qopt(out["dsoc"]),
                   C.lst([coq_ev(t) for t in out["evs"]])))

    def check_property(self, case, out):
        a = case["args"]
        if "err" in out:
            return [("C19/stat/crash", "generate_from_statistics raised %s" % out["err"])]
        v = []
        mn, buf = QS(a["min_soc"]), QS(a["buffer"])
        evs = out["evs"]
        # alternation departure / arrival, chronological
        for i, e in enumerate(evs):
            want = "dep" if i % 2 == 0 else "arr"
            if e[0] != want:
                v.append(("C19/stat/alternation", "%s: event %d is %s, expected %s" % (out["vid"], i, e[0], want)))
                break
            if i > 0 and e[1] < evs[i - 1][1]:
                v.append(("C19/stat/alternation", "%s: event %d at %d before its predecessor at %d" % (out["vid"], i, e[1], evs[i - 1][1])))
                break
        if not v:
            for i, e in enumerate(evs):
                nxt = evs[i + 1] if i + 1 < len(evs) else None
                if e[0] == "dep":
                    if nxt is None or e[2] != nxt[1]:
                        v.append(("C19/stat/announce", "%s: departure %d announces arrival %r, next arrival %r" % (out["vid"], i, e[2], nxt and nxt[1])))
                else:
                    if not (-1 <= e[4] <= 0) and self.delta_in_range(a, out):
                        v.append(("C19/stat/soc-delta-range", "%s: soc_delta %s outside [-1,0]" % (out["vid"], float(e[4]))))
                    if nxt is not None:
                        if e[2] != nxt[1]:
                            v.append(("C19/stat/announce", "%s: arrival %d announces departure %r, next departure at %r" % (out["vid"], i, e[2], nxt[1])))
                        need = -evs[i + 2][4] * (1 + buf) if i + 2 < len(evs) else None
                        if e[3] < mn or (need is not None and e[3] < need):
                            v.append(("C19/stat/desired-soc", "%s: arrival %d desired_soc %s, minimum %s, next consumption with buffer %s"
                                      % (out["vid"], i, float(e[3]), float(mn), None if need is None else float(need))))
                    else:
                        if e[2] is None or e[3] < mn or (e[2] is not None and e[2] <= e[1]):
                            v.append(("C19/stat/last-arrival-open",
                                      "%s: the last arrival (standing period open at the end of the scenario) has estimated_time_of_departure %r and "
                                      "desired_soc %s < min_soc %s: no later trip was generated within the two extra days"
                                      % (out["vid"], e[2], float(e[3]), float(mn))))
            if evs:
                if out["etd"] != evs[0][1]:
                    v.append(("C19/stat/announce", "%s: initial estimated_time_of_departure %r, first departure at %r" % (out["vid"], out["etd"], evs[0][1])))
                need = -evs[1][4] * (1 + buf)
                if out["dsoc"] is None or out["dsoc"] < mn or out["dsoc"] < need:
                    v.append(("C19/stat/desired-soc", "%s: initial desired_soc %r, minimum %s, first consumption with buffer %s"
                              % (out["vid"], out["dsoc"], float(mn), float(need))))
        # scenario-level checks once per scenario
        if out["first"]:
            r = self.run_all(a)
            sc2 = self.scenario(a, exact=True)
            if json.dumps(C.jsonable(sc2), sort_keys=True) != json.dumps(C.jsonable(r["sc"]), sort_keys=True):
                v.append(("C19/stat/repro", "same seed and inputs gave a different scenario"))
            scf = self.scenario(a, exact=False)
            sliver = max(max(t.get("min_charging_power", 0), 0.1) * max(p for _, p in t["charging_curve"]) * a["interval"] / 60 / t["capacity"]
                         for t in a["types"].values())
            for cls, what in load_and_run(scf, need_nonneg=not a["perturbed"], sliver=sliver):
                v.append(("C19/stat/" + cls, what))
        return v

    @staticmethod
    def delta_in_range(a, out):
        for t in a["types"].values():
            if t["statistical_values"]["distance_in_km"]["max_distance"] * t["mileage"] / 100 / t["capacity"] > 1:
                return False
        return True


# ---------------------------------------------------------------------------- trip-table generator
FMT = "%Y-%m-%d %H:%M:%S"


class CsvUnit(corr.Unit):
    name = "gencsv"
    header = StatUnit.header
    casetype = "ccase"
    failing = "failing_c"
    tagfn = "tag_c"
    trivial_tags = (None, 0)
    per_file = 80

    def __init__(self):
        self.memo = {}

    def gen_table(self, rng, biased=False):
        types = shipped_types()
        names = ["golf", "sprinter"]
        mode = rng.choice(["delta_soc", "delta_soc", "soc", "distance"])
        with_id = rng.random() < 0.7
        with_conn = rng.random() < 0.5
        wellformed = rng.random() < 0.85
        start = datetime.datetime(2023, rng.choice([1, 6]), rng.randint(1, 28), rng.choice([0, 5, 8]), 0, 0)
        rows = []
        nveh = rng.choice([1, 1, 2, 3, 4])
        for k in range(nveh):
            vt = rng.choice(names)
            t = start + datetime.timedelta(minutes=rng.choice([0, 0, 30, 95]))
            last_dep = None
            for j in range(rng.choice([1, 2, 3, 4, 6, 9])):
                dep = t + datetime.timedelta(minutes=rng.choice([0, 15, 60, 240, 600]), seconds=rng.choice([0, 0, 0, 30]))
                if wellformed and last_dep is not None and dep <= last_dep:
                    dep = last_dep + datetime.timedelta(minutes=1)      # one vehicle, one trip per departure time
                last_dep = dep
                arr = dep + datetime.timedelta(minutes=rng.choice([0, 20, 45, 120, 480]))
                if not wellformed and rng.random() < 0.3:
                    arr = dep - datetime.timedelta(minutes=rng.choice([10, 60]))
                    t = dep
                elif not wellformed and rng.random() < 0.2:
                    t = dep                      # next trip may depart before this arrival / at the same time
                else:
                    t = arr
                d = rng.choice([0.0, 0.05, 0.1, 0.2, 0.3, 0.45, 0.7, 0.9]) if wellformed or rng.random() < 0.7 else rng.choice([1.2, -0.1])
                row = {"departure_time": dep.strftime(FMT), "arrival_time": arr.strftime(FMT), "vehicle_type": vt}
                if mode == "delta_soc":
                    row["delta_soc"] = repr(d)
                elif mode == "soc":
                    row["soc"] = repr(round(1 - d, 3))
                else:
                    row["distance"] = repr(round(d * types[vt]["capacity"] / (types[vt]["mileage"] / 100), 2))
                if with_id:
                    row["vehicle_id"] = "%s_%d" % (vt, k)
                if with_conn:
                    row["connect_cs"] = str(rng.choice([1, 1, 0]))
                rows.append(row)
        order = rng.random()
        if order < 0.4:
            rng.shuffle(rows)
        elif order < 0.7:
            rows.sort(key=lambda r: r["departure_time"])
        return {"rows": rows, "min_soc": rng.choice(["0.8", "0.5", "0.2", "0", "0.3"]), "days": rng.choice([1, 2, 7]),
                "seed": rng.choice([0, rng.randrange(10**6), rng.randrange(10**6)]), "wellformed": wellformed, "interval": rng.choice([15, 10, 60]), "nveh": nveh,
                "with_id": with_id}

    def generate(self, rng, n, biased=False):
        cases = []
        while len(cases) < n:
            a = self.gen_table(rng, biased)
            for k in range(a["nveh"] if a["with_id"] else 1):
                cases.append({"args": a, "veh": k})
        return cases[:n]

    def scenario(self, a, exact=True):
        C.setup_repo_path()
        import generate as G
        from spice_ev.generate import generate_from_csv as GC
        tmp = tempfile.mkdtemp(prefix="c19_")
        try:
            f = os.path.join(tmp, "trips.csv")
            cols = list(a["rows"][0].keys())
            with open(f, "w", newline="") as fh:
                w = csv.DictWriter(fh, fieldnames=cols)
                # column names are documented as case-insensitive: the optional columns are written capitalised (round-4 seed C19-s10)
                fh.write(",".join(c.capitalize() if c in ("vehicle_id", "connect_cs") else c for c in cols) + "\r\n")
                w.writerows(a["rows"])
            ns = base_args(tmp, "csv", seed=a["seed"], days=a["days"], interval=a["interval"], min_soc=float(a["min_soc"]),
                           input_file=f, vehicle_types=os.path.join(C.REPO, "examples/data/vehicle_types.json"),
                           export_vehicle_id_csv="with_ids.csv", gc_power=10000)
            if exact:
                GC.float = lambda s: Ex(float(s))
            try:
                with quiet():
                    G.update_namespace(ns)
                    if exact:
                        ns.min_soc = Ex(QS(a["min_soc"]))
                    sc = GC.generate_from_csv(ns)
            finally:
                if exact:
                    del GC.float
            p = os.path.join(tmp, "with_ids.csv")
            rows = list(csv.DictReader(open(p))) if os.path.exists(p) else [dict(r) for r in a["rows"]]
            return sc, rows
        finally:
            shutil.rmtree(tmp, ignore_errors=True)

    def run_all(self, a):
        key = json.dumps(a, sort_keys=True)
        if key in self.memo:
            return self.memo[key]
        try:
            sc, rows = self.scenario(a)
            res = {"sc": sc, "rows": rows, "err": None}
        except Exception as e:
            res = {"sc": None, "rows": None, "err": repr(e)}
        self.memo = {key: res}
        return res

    def run_impl(self, case):
        a = case["args"]
        r = self.run_all(a)
        if r["err"]:
            return {"err": r["err"]}
        sc = r["sc"]
        types = shipped_types()
        vids = sorted(sc["components"]["vehicles"])
        vid = vids[case["veh"] % len(vids)]
        rows = []
        for row in r["rows"]:
            if row["vehicle_id"] != vid:
                continue
            if "delta_soc" in row:
                d = Ex(float(row["delta_soc"]))
            elif "soc" in row:
                d = 1 - Ex(float(row["soc"]))
            else:
                vt = types[row["vehicle_type"]]
                d = Ex(float(row["distance"])) * (vt["mileage"] / 100) / vt["capacity"]
            dep = datetime.datetime.strptime(row["departure_time"], FMT)
            arr = datetime.datetime.strptime(row["arrival_time"], FMT)
            rows.append((minutes(dep.isoformat()), minutes(arr.isoformat()), d.v, int(row.get("connect_cs", 1)) == 1))
        evs = [ev_tuple(e) for e in per_vehicle(sc)[vid]]
        stop = minutes(sc["scenario"]["stop_time"])
        return {"vid": vid, "rows": rows, "stop": stop, "init": fr(sc["components"]["vehicles"][vid]["soc"]), "evs": evs,
                "first": case["veh"] == 0}

    def emit(self, case, out):
        a = case["args"]
        if "err" in out:
            return "{| cc_min := 0; cc_stop := 0; cc_rows := []; cc_init := 1; cc_evs := [] |}"
        rows = C.lst(["{| c_dep := %s; c_arr := %s; c_delta := %s; c_conn := %s |}" % (C.z(d), C.z(ar), C.q(dl), C.b(cn))
                      for d, ar, dl, cn in out["rows"]])
        return ("{| cc_min := %s; cc_stop := %s; cc_rows := %s; cc_init := %s; cc_evs := %s |}"
                % (C.q(QS(a["min_soc"])), C.z(out["stop"]), rows, C.q(out["init"]), C.lst([coq_ev(t) for t in out["evs"]])))

    def check_property(self, case, out):
        a = case["args"]
        if "err" in out:
            if a["wellformed"]:
                return [("C19/csv/crash", "generate_from_csv raised %s" % out["err"])]
            return []
        v = []
        if not a["wellformed"]:
            return v
        mn = QS(a["min_soc"])
        evs = out["evs"]
        rows = sorted(out["rows"], key=lambda r: r[0])
        for i, e in enumerate(evs):
            want = "arr" if i % 2 == 0 else "dep"
            if e[0] != want:
                v.append(("C19/csv/alternation", "%s: event %d is %s, expected %s" % (out["vid"], i, e[0], want)))
                break
            if i > 0 and e[1] < evs[i - 1][1]:
                v.append(("C19/csv/alternation", "%s: event %d at %d before its predecessor at %d" % (out["vid"], i, e[1], evs[i - 1][1])))
                break
        if not v:
            for i, e in enumerate(evs):
                nxt = evs[i + 1] if i + 1 < len(evs) else None
                if e[0] == "dep":
                    if e[2] is None or e[2] < e[1] or (nxt is not None and e[2] > nxt[1]):
                        v.append(("C19/csv/announce", "%s: departure %d at %d announces arrival %r, next arrival %r" % (out["vid"], i, e[1], e[2], nxt and nxt[1])))
                else:
                    if not (-1 <= e[4] <= 0) and self.sum_ok(rows):
                        v.append(("C19/csv/soc-delta-range", "%s: soc_delta %s outside [-1,0]" % (out["vid"], float(e[4]))))
                    if e[2] is None or e[2] < e[1] or (nxt is not None and e[2] != nxt[1]):
                        v.append(("C19/csv/announce", "%s: arrival %d at %d announces departure %r, next departure %r" % (out["vid"], i, e[1], e[2], nxt and nxt[1])))
                    need = -evs[i + 2][4] if i + 2 < len(evs) else None
                    if e[3] < mn or (need is not None and e[3] < need):
                        v.append(("C19/csv/desired-soc", "%s: arrival %d desired_soc %s, minimum %s, consumption until the next connection %s"
                                  % (out["vid"], i, float(e[3]), float(mn), None if need is None else float(need))))
            if evs and out["init"] < -evs[0][4]:
                v.append(("C19/csv/desired-soc", "%s: initial soc %s below the consumption before the first connection %s"
                          % (out["vid"], float(out["init"]), float(-evs[0][4]))))
            # every connecting trip gives an arrival event
            nconn = sum(1 for r in rows if r[3])
            if sum(1 for e in evs if e[0] == "arr") != nconn:
                v.append(("C19/csv/alternation", "%s: %d connecting trips but %d arrival events" % (out["vid"], nconn, sum(1 for e in evs if e[0] == "arr"))))
        if out["first"]:
            r = self.run_all(a)
            sc2, _ = self.scenario(a)
            if json.dumps(C.jsonable(sc2), sort_keys=True) != json.dumps(C.jsonable(r["sc"]), sort_keys=True):
                v.append(("C19/csv/repro", "same seed and inputs gave a different scenario"))
            scf, _ = self.scenario(a, exact=False)
            for cls, what in load_and_run(scf, need_nonneg=False):
                v.append(("C19/csv/" + cls, what))
        return v

    @staticmethod
    def sum_ok(rows):
        s = 0
        for r in rows:
            s += r[2]
            if s > 1 or r[2] < 0:
                return False
            if r[3]:
                s = 0
        return True


UNITS = [StatUnit(), CsvUnit()]


def run(tier):
    return corr.standard_run(
        "C19", tier, UNITS + [__import__("c07").UNIT], {"genstat": 90, "gencsv": 90, "events": 200}, {"genstat": 1500, "gencsv": 1500, "events": 2000},
        trusted=["hand-written Coq models Gen.v of the trip loops of generate_from_statistics.py (per-vehicle projection; "
                 "random trips recorded from generate_trip as an input stream) and generate_from_csv.py",
                 "generate_from_simbev.py, the price-signal generation and the scenario/components glue are not modelled "
                 "(implementation-level predicates only)",
                 "module-level patch generate_from_csv.float -> exact numbers; generate_trip wrapped to record its results"],
        rule="exact equality of the per-vehicle event lists, initial SoC / desired SoC / announced departure between model and "
             "implementation; independent predicates: alternation, chronological order, announced times, soc_delta in [-1,0], "
             "desired SoC >= min_soc and >= next consumption (with buffer), same seed => identical scenario, the scenario loads, "
             "greedy run on shipped types without negative SoC", extra=lambda rep, tier, sd: simbev_extra(rep, tier, sd))


def replay(payload):
    case = payload["input"]["case"]
    if payload["input"].get("unit") in ("events", "weekly"):
        return __import__("c07").replay(payload)
    if payload["input"]["unit"] == "simbev":
        return check_simbev(C.unjson(case))[0]
    u = {u.name: u for u in UNITS}[payload["input"]["unit"]]
    case = C.unjson(case)
    out = u.run_impl(case)
    return u.check_property(case, out)


# ---------------------------------------------------------------------------- SimBEV generator (no Coq model)
SIMBEV_TYPES = {"bev_mini": (60.6, 0.1397, 11.0, 50), "bev_medium": (90, 0.1746, 22.0, 50), "phev_mini": (14.9, 0.1425, 3.7, 40)}   # fractional capacities occur


def gen_simbev(rng):
    """a synthetic SimBEV result directory description"""
    regions = ["region_1"] if rng.random() < 0.5 else ["region_1", "region_2"]
    files = []
    for reg in regions:
        for tname in rng.sample(sorted(SIMBEV_TYPES), rng.choice([1, 2, 3])):
            cap = SIMBEV_TYPES[tname][0]
            for k in range(rng.choice([1, 1, 2])):
                soc = rng.choice([0.5, 0.8, 0.95, 1.0])
                rows = []
                t = 0
                standing = True
                for _ in range(rng.choice([1, 3, 5, 8, 12])):
                    n = rng.choice([1, 2, 4, 30, 90])
                    if standing:
                        has_cs = rng.random() < 0.6
                        power = rng.choice([3.7, 11.0, 22.0, 50.0]) if has_cs else 0.0
                        soc_end = soc
                        if has_cs and rng.random() < 0.7:
                            # what the station can deliver within the standing time, at most to 100 %
                            soc_end = min(1.0, soc + rng.choice([0.05, 0.2, 0.5]), soc + 0.9 * power * n * 0.25 / cap)
                        rows.append({"event_start": t, "event_time": n, "location": rng.choice(["home", "work", "leisure"]),
                                     "soc_start": round(soc, 4), "soc_end": round(soc_end, 4),
                                     "energy": round((round(soc_end, 4) - round(soc, 4)) * cap, 4), "station_charging_capacity": power})
                        soc = round(soc_end, 4)
                    else:
                        use = min(soc - 0.02, rng.choice([0.01, 0.05, 0.15, 0.3]))
                        use = max(use, 0.0)
                        soc_end = round(soc - use, 4)
                        rows.append({"event_start": t, "event_time": n, "location": "driving", "soc_start": round(soc, 4),
                                     "soc_end": soc_end, "energy": -round((round(soc, 4) - soc_end) * cap, 4),
                                     "station_charging_capacity": 0.0})
                        soc = soc_end
                    t += n
                    standing = not standing
                files.append({"region": reg, "name": "%s_%05d_%dkWh" % (tname, k, cap), "rows": rows})
    return {"files": files, "regions": regions, "seed": rng.choice([0, 0, 1, 7, 123]),
            "ignore": rng.random() < 0.5, "use_region": rng.random() < 0.25, "min_soc": rng.choice([0.8, 0.5, 0.2]),
            "interval": 15}


def run_simbev(a):
    C.setup_repo_path()
    import generate as G
    from spice_ev.generate import generate_from_simbev as GSB
    tmp = tempfile.mkdtemp(prefix="c19_")
    try:
        sb = os.path.join(tmp, "simbev")
        counts = {}
        for f in a["files"]:
            os.makedirs(os.path.join(sb, f["region"]), exist_ok=True)
            tname = "_".join(f["name"].split("_")[:2])
            counts[tname] = counts.get(tname, 0) + 1
            with open(os.path.join(sb, f["region"], f["name"] + "_events.csv"), "w", newline="") as fh:
                cols = ["", "timestamp", "event_start", "event_time", "location", "use_case", "soc_start", "soc_end", "energy",
                        "station_charging_capacity", "average_charging_power"]
                w = csv.DictWriter(fh, fieldnames=cols)
                w.writeheader()
                for i, r in enumerate(f["rows"]):
                    w.writerow({"": i, "timestamp": "", "use_case": "", "average_charging_power": 0.0, **r})
        meta = {"config": {"basic": {"start_date": "2021-09-17", "stepsize": "15"}},
                "tech_data": {k: {"max_charging_capacity_slow": v[2], "max_charging_capacity_fast": v[3], "battery_capacity": v[0],
                                  "energy_consumption": v[1]} for k, v in SIMBEV_TYPES.items()},
                "car_sum": {k: counts.get(k, 0) for k in SIMBEV_TYPES}}
        json.dump(meta, open(os.path.join(sb, "metadata_simbev_run.json"), "w"))
        ns = base_args(tmp, "simbev", simbev=sb, seed=a["seed"], interval=a["interval"], min_soc=a["min_soc"],
                       ignore_simbev_soc=a["ignore"], region="region_1" if a["use_region"] else None, gc_power=10000)
        with quiet():
            G.update_namespace(ns)
            return GSB.generate_from_simbev(ns)
    finally:
        shutil.rmtree(tmp, ignore_errors=True)


def check_simbev(a):
    """implementation-level predicates; returns list of (cls, what)"""
    v = []
    try:
        sc = run_simbev(a)
    except AssertionError as e:
        return [], "rejected: %s" % (str(e)[:60],)       # the generator's own sanity assertions (input-driven)
    except Exception as e:
        return [("C19/simbev/crash", "generate_from_simbev raised %r" % (e,))], "crash"
    nfiles = len([f for f in a["files"] if not a["use_region"] or f["region"] == "region_1"])
    if len(sc["components"]["vehicles"]) != nfiles:
        v.append(("C19/simbev/vehicles", "%d event files but %d vehicles in the scenario" % (nfiles, len(sc["components"]["vehicles"]))))
    for vid, evs in per_vehicle(sc).items():
        tl = [ev_tuple(e) for e in evs]
        bad = False
        for i, e in enumerate(tl):
            want = "arr" if i % 2 == 0 else "dep"
            if e[0] != want:
                v.append(("C19/simbev/alternation", "%s: event %d is %s, expected %s" % (vid, i, e[0], want)))
                bad = True
                break
            if i > 0 and e[1] < tl[i - 1][1]:
                v.append(("C19/simbev/alternation", "%s: event %d at %d before its predecessor at %d" % (vid, i, e[1], tl[i - 1][1])))
                bad = True
                break
        if bad:
            continue
        for i, e in enumerate(tl):
            nxt = tl[i + 1] if i + 1 < len(tl) else None
            if e[0] == "arr":
                if nxt is None or e[2] != nxt[1]:
                    v.append(("C19/simbev/announce", "%s: arrival %d announces departure %r, next departure %r" % (vid, i, e[2], nxt and nxt[1])))
                if not (-1 - 1e-9 <= e[4] <= 1e-9):
                    v.append(("C19/simbev/soc-delta-range", "%s: soc_delta %s outside [-1,0]" % (vid, float(e[4]))))
            else:
                if (nxt is None) != (e[2] is None) or (nxt is not None and e[2] != nxt[1]):
                    v.append(("C19/simbev/announce", "%s: departure %d announces arrival %r, next arrival %r" % (vid, i, e[2], nxt and nxt[1])))
    sc2 = run_simbev(a)
    if json.dumps(sc2, sort_keys=True) != json.dumps(sc, sort_keys=True):
        v.append(("C19/simbev/repro", "same seed and inputs gave a different scenario"))
    for cls, what in load_and_run(sc, need_nonneg=False):
        v.append(("C19/simbev/" + cls, what))
    return v, "ok"


def simbev_extra(rep, tier, sd):
    import random
    from collections import Counter
    rng = random.Random("simbev/%d" % sd)
    n = 40 if tier == "quick" else 600
    dist = Counter()
    for i in range(n):
        a = gen_simbev(rng)
        viol, kind = check_simbev(a)
        dist[kind.split(":")[0]] += 1
        dist["ignore_soc" if a["ignore"] else "simbev_soc"] += 1
        dist["regions=%d" % len(a["regions"])] += 1
        for cls, what in viol:
            rep.add_violation(cls, what, {"unit": "simbev", "case": a})
    rep.cov["evaluations"] += n
    rep.notes["simbev"] = {"directories": n, "dist": dict(dist)}
