"""C13 — generated grid schedules respect flexibility, connector limits and signals."""
import argparse
import contextlib
import copy
import csv
import datetime
import io
import json
import os
import shutil
import tempfile
import warnings
from fractions import Fraction as F

import c07
import common as C
import corr
import scen

US = datetime.timedelta(microseconds=1)


# ---------------------------------------------------------------- reader unit (Coq model)
class ReaderUnit(corr.Unit):
    name = "schedcsv"
    header = ("From Coq Require Import ZArith QArith List Bool.\nFrom SV Require Import SchedCsv SchedCsvRun.\nImport ListNotations.\nOpen Scope Z_scope.\n")
    casetype = "scsv"
    failing = "failing"
    tagfn = "tag"
    runfn = "run_scsv"
    trivial_tags = (None, 0)
    per_file = 100

    def generate(self, rng, n, biased=False):
        out = []
        for _ in range(n):
            nveh = rng.choice([0, 0, 1, 2, 3])
            start = datetime.datetime(2023, 5, rng.randint(1, 27), rng.choice([0, 6, 11, 12, 18]), 0, tzinfo=datetime.timezone(datetime.timedelta(hours=2)))
            mins = rng.choice([15, 60, 30])
            rows = []
            tgt = 0.0
            win = rng.choice([0, 1])
            vs = [0.0] * nveh
            for i in range(rng.randint(1, 14)):
                if rng.random() < 0.5:
                    tgt = rng.choice([0, 5, 12.5, -3, tgt])
                if rng.random() < 0.2:
                    win = 1 - win
                vs = [v if rng.random() < 0.6 else rng.choice([0, 3.7, 11, 1.5]) for v in vs]
                rows.append([(start + datetime.timedelta(minutes=mins * i)).isoformat(), tgt, win] + list(vs))
            out.append({"start": start.isoformat(), "mins": mins, "nveh": nveh, "rows": rows, "obj_start": rng.choice([0, 0, -1, 30]),
                        "plain_time": rng.random() < 0.2})       # time column that is not ISO formatted: row i starts at start + i * step
        return out

    def run_impl(self, case):
        from spice_ev import events
        tmp = tempfile.mkdtemp(prefix="verif_c13_")
        try:
            names = ["v%d" % i for i in range(case["nveh"])]
            header = ["timestamp", "schedule [kW]", "charge", "a", "b", "c", "d"] + names
            with open(os.path.join(tmp, "s.csv"), "w") as f:
                f.write(", ".join(header) + "\n")
                for i_, r in enumerate(case["rows"]):
                    ts_ = ("step %d" % i_) if case.get("plain_time") else r[0]
                    f.write(", ".join(str(x) for x in [ts_, r[1], r[2], 0, 0, 0, 0] + r[3:]) + "\n")
            start = datetime.datetime.fromisoformat(case["start"]) + datetime.timedelta(days=case["obj_start"])
            obj = {"column": "schedule [kW]", "start_time": start.isoformat(), "step_duration_s": case["mins"] * 60, "csv_file": "s.csv",
                   "grid_connector_id": "GC1", "individual": case["nveh"] > 0}
            try:
                evs = events.get_schedule_from_csv(obj, __import__("pathlib").Path(tmp))
            except AssertionError:
                return {"err": True}
            out = []
            for e in evs:
                if isinstance(e, events.GridOperatorSignal):
                    out.append(("gc", c07.us(e.start_time), c07.us(e.signal_time), F(e.target), e.window))
                else:
                    out.append(("veh", c07.us(e.start_time), c07.us(e.signal_time), names.index(e.vehicle_id), F(e.update["schedule"])))
            return {"evs": out, "start0": c07.us(start)}
        finally:
            shutil.rmtree(tmp, ignore_errors=True)

    def emit(self, case, out):
        start = datetime.datetime.fromisoformat(case["start"]) + datetime.timedelta(days=case["obj_start"])
        rows = []
        for i_, r in enumerate(case["rows"]):
            st = datetime.datetime.fromisoformat(r[0])
            if case.get("plain_time"):
                st = start + datetime.timedelta(minutes=case["mins"] * i_)
            cand = (st - datetime.timedelta(days=2 if st.hour < 12 else 1)).replace(hour=9, minute=0, second=0)
            # the reader lists vehicles reversed: reversed(vehicle_names) with row[-1 - i]
            vs = list(reversed(r[3:]))
            rows.append("{| r_start := %d; r_sigcand := %d; r_target := %s; r_window := Some %s; r_veh := %s |}" % (
                c07.us(st), c07.us(cand), C.q(F(r[1])), C.b(str(r[2]).strip() == "1"), C.lst(C.q(F(v)) for v in vs)))
        if "err" in out:
            exp = "None"
        else:
            n = case["nveh"]
            evs = []
            for e in out["evs"]:
                if e[0] == "gc":
                    evs.append("SGc %d %d %s %s" % (e[1], e[2], C.q(e[3]), "None" if e[4] is None else "(Some %s)" % C.b(e[4])))
                else:
                    evs.append("SVeh %d %d %d%%nat %s" % (e[1], e[2], n - 1 - e[3], C.q(e[4])))
            exp = "(Some %s)" % C.lst(evs)
        return "{| sv_start0 := %d; sv_nveh := %d%%nat; sv_rows := %s; sv_exp := %s |}" % (c07.us(start), case["nveh"], C.lst(rows), exp)

    def check_property(self, case, out):
        if "err" in out:
            return []
        v = []
        rows = case["rows"]
        # independent statement: at each row time the target / vehicle schedules read back equal the row's values,
        # and no signal takes effect before it is sent
        for e in out["evs"]:
            if e[2] > e[1]:
                v.append(("C13/signal-after-start", "event %s is signalled after it starts: rows=%s" % (e, rows)))
        start_ = datetime.datetime.fromisoformat(case["start"]) + datetime.timedelta(days=case["obj_start"])
        for i_, r in enumerate(rows):
            st_ = start_ + datetime.timedelta(minutes=case["mins"] * i_) if case.get("plain_time") else datetime.datetime.fromisoformat(r[0])
            t = c07.us(st_)
            tg = None
            vs = [None] * case["nveh"]
            for e in out["evs"]:
                if e[1] <= t:
                    if e[0] == "gc":
                        tg = e[3]
                    else:
                        vs[e[3]] = e[4]
            if tg != F(r[1]):
                v.append(("C13/readback-target", "at %s the read-back target is %s, scheduled %s: rows=%s" % (r[0], tg, r[1], rows)))
            for i, x in enumerate(r[3:]):
                if vs[i] != F(x):
                    v.append(("C13/readback-vehicle", "at %s vehicle %d read-back schedule %s, scheduled %s: rows=%s" % (r[0], i, vs[i], x, rows)))
                    break
            if v:
                break
        return v[:3]


# ---------------------------------------------------------------- generator checks (implementation)
def gen_grid_case(rng):
    feats = set(k for k in ("fixed", "generation", "battery", "v2g", "minpower") if rng.random() < 0.45)
    js = scen.gen_scenario(rng, n_gc=1, n_veh=rng.randint(1, 4), features=feats, steps=rng.choice([8, 16, 24, 48]), interval=rng.choice([15, 60, 30]))
    js.pop("_features", None)
    n = js["scenario"]["n_intervals"]
    ln = rng.choice([n, n, n // 2, n * 2, n * 2, n + 3])
    sign = rng.choice([1, -1])
    grid = [[round(rng.uniform(-400, 600), 2), sign * round(max(0, rng.uniform(-50, 80)), 2)] for _ in range(ln)]
    js["scenario"]["core_standing_time"] = rng.choice([None, {"times": [{"start": [22, 0], "end": [5, 0]}], "no_drive_days": [6]},
                                                       {"times": [{"start": [10, 0], "end": [14, 0]}], "no_drive_days": []}])
    individual = rng.random() < 0.4
    if rng.random() < 0.3:
        # directed: mixed fleet in individual mode — slow vehicles at strong stations next to a fast vehicle, high demand
        individual = True
        comp = js["components"]
        base = copy.deepcopy(next(iter(comp["vehicle_types"].values())))
        slow, fast = rng.choice([3.7, 11]), rng.choice([50, 150])
        comp["vehicle_types"] = {"vt0": dict(base, name="vt0", charging_curve=[[0, slow], [1, slow]], capacity=rng.choice([50, 300])),
                                 "vt1": dict(base, name="vt1", charging_curve=[[0, fast], [1, fast]])}
        vids = list(comp["vehicles"])
        for k, vid in enumerate(vids):
            comp["vehicles"][vid]["vehicle_type"] = "vt1" if k == len(vids) - 1 or rng.random() < 0.3 else "vt0"
        for c_ in comp["charging_stations"].values():
            c_["max_power"] = rng.choice([150, 150, 22])
        for e in js["events"]["vehicle_events"]:
            if e["event_type"] == "arrival":
                e["update"]["soc_delta"] = -rng.choice([0.6, 0.3])
                e["update"]["desired_soc"] = 1
        comp["grid_connectors"][next(iter(comp["grid_connectors"]))]["max_power"] = 630
        grid = [[r_, sign * abs(rng.uniform(5, 80))] for r_, _ in grid]
    if not individual and rng.random() < 0.25:
        # directed: V2G fleet with staggered departures inside one standing period, demand on the grid afterwards (round-3 seed C13-s7)
        comp = js["components"]
        for vt in comp["vehicle_types"].values():
            vt.update({"v2g": True, "v2g_power_factor": rng.choice([0.5, 1]), "discharge_limit": 0.2})
        for v_ in comp["vehicles"].values():
            v_.update({"soc": 0.9, "desired_soc": 0.5})
        js["scenario"]["core_standing_time"] = None
        grid = [[abs(r_) + 50, 0] for r_, _ in grid]
        sign = 1
    blanks = []
    if rng.random() < 0.25:
        # cells that are empty / not a number: the reader falls back to the previous value of the SAME column (0 in the first row)
        blanks = [(rng.randrange(len(grid)), rng.choice([0, 1])) for _ in range(rng.choice([1, 2, 3]))]
    return {"js": js, "grid": grid, "individual": individual, "with_ts": rng.random() < 0.6, "offset": rng.choice([0, 2, 2, 3, -2]),
            "blanks": blanks}


def run_generate(case):
    from spice_ev.generate import generate_schedule as gs
    from spice_ev import scenario as sc, events, strategy
    tmp = tempfile.mkdtemp(prefix="verif_c13g_")
    try:
        sp = os.path.join(tmp, "scenario.json")
        json.dump(case["js"], open(sp, "w"))
        gp = os.path.join(tmp, "grid.csv")
        start = datetime.datetime.fromisoformat(case["js"]["scenario"]["start_time"]).replace(tzinfo=None)
        iv = datetime.timedelta(minutes=case["js"]["scenario"]["interval"])
        with open(gp, "w") as f:
            f.write(("timestamp," if case["with_ts"] else "") + "residual load,curtailment\n")
            bl = set(tuple(b) for b in case.get("blanks", []))
            for i, (r, c) in enumerate(case["grid"]):
                ts = (start + (i - case["offset"]) * iv).strftime("%Y-%m-%d %H:%M") + "," if case["with_ts"] else ""
                f.write("%s%s,%s\n" % (ts, "" if (i, 0) in bl else r, "n/a" if (i, 1) in bl else c))
        out_csv = os.path.join(tmp, "schedule.csv")
        args = argparse.Namespace(scenario=sp, input=gp, output=out_csv, individual=case["individual"], core_standing_time=None, visual=False, config=None)
        res = {}
        with warnings.catch_warnings(), contextlib.redirect_stdout(io.StringIO()):
            warnings.simplefilter("ignore")
            try:
                gs.generate_schedule(args)
            except AssertionError as e:
                return {"err": "AssertionError " + str(e)[:150]}
            except Exception as e:  # noqa
                return {"err": repr(e)[:200]}
            rows = list(csv.reader(open(out_csv)))
            res["header"] = [h.strip() for h in rows[0]]
            res["rows"] = [[c.strip() for c in r] for r in rows[1:]]
            # flexibility band recomputed by the implementation (collective mode)
            js2 = json.load(open(sp))
            if not case["individual"]:
                s0 = sc.Scenario(copy.deepcopy(case["js"]), tmp)
                flex = gs.generate_flex_band(s0, list(s0.components.grid_connectors)[0], core_standing_time=js2["scenario"].get("core_standing_time"))
                res["flex"] = {"min": list(flex["min"]), "max": list(flex["max"])}
            # read back through a Scenario
            s1 = sc.Scenario(js2, tmp)
            strat = strategy.Strategy(s1.components, s1.start_time, interval=s1.interval, events=s1.events, ALLOW_NEGATIVE_SOC=True)
            steps = s1.events.get_event_steps(s1.start_time, s1.n_intervals, s1.interval)
            gid = list(s1.components.grid_connectors)[0]
            back = []
            outer = []
            bad_signal = [(type(e).__name__, str(e.signal_time), str(e.start_time)) for e in s1.events.grid_operator_signals if e.signal_time > e.start_time]
            for i in range(s1.n_intervals):
                try:
                    strat.step(steps[i])
                except Exception:  # noqa
                    pass
                back.append((strat.world_state.grid_connectors[gid].target, {k: getattr(v, "schedule", None) for k, v in strat.world_state.vehicles.items()}))
                # independent outer bound of the fleet's flexibility at this step: base load, plugged-in vehicles, batteries
                ws = strat.world_state
                conn = []
                for vid_, v_ in ws.vehicles.items():
                    cs_ = ws.charging_stations.get(v_.connected_charging_station) if v_.connected_charging_station else None
                    if cs_ is not None and cs_.parent == gid:
                        conn.append((min(v_.battery.loading_curve.max_power, cs_.max_power),
                                     v_.battery.unloading_curve.max_power * v_.vehicle_type.v2g_power_factor if v_.vehicle_type.v2g else 0))
                bats_ = [b for b in ws.batteries.values() if b.parent == gid]
                outer.append((ws.grid_connectors[gid].get_current_load(), sum(c[0] for c in conn), sum(c[1] for c in conn),
                              sum(b.loading_curve.max_power for b in bats_), sum(b.unloading_curve.max_power for b in bats_)))
            res["back"] = back
            res["outer"] = outer
            res["bad_signal"] = bad_signal
            res["rating"] = case["js"]["components"]["grid_connectors"][gid]["max_power"]
        return res
    finally:
        shutil.rmtree(tmp, ignore_errors=True)


def effective_grid(case):
    """the grid series as documented for cells that are not numbers: previous value of the same column, 0 in the first row"""
    bl = set(tuple(b) for b in case.get("blanks", []))
    out = []
    for i, (r, c) in enumerate(case["grid"]):
        r_ = (out[-1][0] if i else 0) if (i, 0) in bl else r
        c_ = (abs(out[-1][1]) if i else 0) if (i, 1) in bl else c
        out.append((r_, c_))
    return out


class GenUnit(corr.Unit):
    name = "gen_schedule"
    tagfn = None

    def generate(self, rng, n, biased=False):
        return [gen_grid_case(rng) for _ in range(n)]

    def run_impl(self, case):
        return run_generate(case)

    def emit(self, case, out):
        return ""

    def check_property(self, case, out):
        if "err" in out:
            return []            # infeasible / unsupported inputs are rejected by the generator's own asserts
        v = []
        d = "individual=%s with_ts=%s offset=%s n=%d scenario=%s" % (case["individual"], case["with_ts"], case["offset"], len(out["rows"]), json.dumps(case["js"])[:400])
        h = out["header"]
        ci = {k: h.index(k) for k in ("schedule [kW]", "charge", "residual load new [kW]", "curtailment new [kW]")}
        for t, r in enumerate(out["rows"]):
            sv = float(r[ci["schedule [kW]"]])
            if abs(sv) > out["rating"] + 1e-3:
                cls = "C13/outside-rating/individual-battery" if case["individual"] and case["js"]["components"].get("batteries") else "C13/outside-rating"
                v.append((cls, "row %d schedule %s outside the connector rating %s: %s" % (t, sv, out["rating"], d)))
            if "flex" in out and not (out["flex"]["min"][t] - 2e-3 <= sv <= out["flex"]["max"][t] + 2e-3):
                v.append(("C13/outside-flex", "row %d schedule %s outside the flexibility band [%s, %s]: %s" % (t, sv, out["flex"]["min"][t], out["flex"]["max"][t], d)))
            if "flex" in out and t < len(out.get("outer", [])):
                # collective mode: the schedule cannot ask for more than the vehicles plugged in AT THIS STEP (stepping a plain
                # Strategy through the scenario's events) plus the batteries can take or give on top of the base load
                base_, vch, vdis, bch, bdis = out["outer"][t]
                lo_ = min(base_ - vdis - bdis, out["rating"]) - 5e-3
                hi_ = max(max(base_, 0) + vch + bch, -out["rating"]) + 5e-3
                if not (lo_ <= sv <= hi_):
                    v.append(("C13/outside-fleet-capability", "row %d schedule %s kW, but base load %s kW with plugged-in vehicles (charge %s / "
                              "V2G %s kW) and batteries (charge %s / discharge %s kW) only allows [%s, %s]: %s"
                              % (t, sv, base_, vch, vdis, bch, bdis, lo_, hi_, d)))
            cur, res_ = float(r[ci["curtailment new [kW]"]]), float(r[ci["residual load new [kW]"]])
            if abs(cur) >= 1e-3 or cur == 0:
                if abs(res_) >= 1e-3 or res_ == 0:
                    want = 1 if (cur > 1e-5 or res_ < -1e-5) else 0
                    if int(r[ci["charge"]]) != want:
                        v.append(("C13/charge-flag", "row %d charge flag %s but curtailment %s / residual load %s remain: %s" % (t, r[ci["charge"]], cur, res_, d)))
            # the "old" columns are the given grid situation aligned with the scenario: a series that starts k steps before the
            # scenario (timestamps given, 0 < k < length) is used from index k, every other series from its first value; steps
            # beyond the series are zero
            k_ = case["offset"] if (case["with_ts"] and 0 < case["offset"] < len(case["grid"])) else 0
            eff = effective_grid(case)
            exp_r, exp_c = (eff[t + k_] if t + k_ < len(eff) else (0, 0))
            ro_, co_ = float(r[h.index("residual load old [kW]")]), float(r[h.index("curtailment old [kW]")])
            if abs(ro_ - exp_r) > 2e-3 or abs(abs(co_) - abs(exp_c)) > 2e-3:
                v.append(("C13/grid-alignment", "row %d: residual/curtailment taken from the grid file are %s/%s, the series gives %s/%s at that time: %s"
                          % (t, ro_, co_, exp_r, exp_c, d)))
            # what remains = what was there + what the schedule draws: (residual - curtailment) moves by exactly the schedule
            ro, co = float(r[h.index("residual load old [kW]")]), float(r[h.index("curtailment old [kW]")])
            if abs((res_ - cur) - (ro - co) - sv) > 5e-3:
                v.append(("C13/grid-balance", "row %d: residual-curtailment moved from %s to %s but the schedule is %s: %s" % (t, ro - co, res_ - cur, sv, d)))
            if case["individual"]:
                comp = case["js"]["components"]
                for k in comp["vehicles"]:
                    if k in h:
                        vt = comp["vehicle_types"][comp["vehicles"][k]["vehicle_type"]]
                        stations = {comp["vehicles"][k].get("connected_charging_station")} | {
                            e["update"].get("connected_charging_station") for e in case["js"]["events"]["vehicle_events"] if e["vehicle_id"] == k}
                        cmax = max([comp["charging_stations"][c_]["max_power"] for c_ in stations if c_ in comp["charging_stations"]] + [0])
                        bound = min(cmax, max(p_ for _, p_ in vt["charging_curve"]))
                        val = float(r[h.index(k)])
                        if val > bound + 2e-3 or (val < -2e-3 and not vt.get("v2g")):
                            v.append(("C13/vehicle-outside-band", "row %d vehicle %s scheduled %s kW, station/vehicle maximum %s: %s" % (t, k, val, bound, d)))
            if t < len(out["back"]):
                tgt, vs = out["back"][t]
                if tgt is None or abs(tgt - sv) > 1e-9:
                    v.append(("C13/readback-target", "step %d: target read back %s, written %s: %s" % (t, tgt, sv, d)))
                if case["individual"]:
                    for k in sorted(vs):
                        if k in h:
                            want = float(r[h.index(k)])
                            got = vs[k] if vs[k] is not None else 0.0
                            if abs(got - want) > 1e-9:
                                v.append(("C13/readback-vehicle", "step %d vehicle %s: schedule read back %s, written %s: %s" % (t, k, vs[k], want, d)))
                                break
            if len(v) >= 3:
                break
        if out["bad_signal"]:
            v.append(("C13/signal-after-start", "signals sent after they start: %s: %s" % (out["bad_signal"][:2], d)))
        return v[:3]


READER, GEN = ReaderUnit(), GenUnit()
RULE = ("(a) random schedule CSVs (1-14 rows, 0-3 vehicle columns, repeated and changing targets/window flags/vehicle schedules, file start before/"
        "after the object's start) read by get_schedule_from_csv vs the model; (b) generate_schedule end to end on generated one-connector "
        "scenarios (vehicles with/without V2G, batteries, fixed load, generation) and grid series of either sign convention, shorter/longer "
        "than the scenario, with/without timestamps, collective and individual mode, several core standing times: rating, flexibility band "
        "(recomputed by the implementation), charge flag, read back through a Scenario")


def run(tier):
    def extra(rep, tier_, sd):
        corr.correspond(GEN, 40 if tier_ == "quick" else 400, sd, rep, check_model=False, label="generate_schedule end to end (implementation, sampled)")
    # generate_schedule reads fixed load / generation through EnergyValuesList.get_events and the event machinery: that unit too
    import c07
    return corr.standard_run("C13", tier, [READER, c07.UNIT], {"schedcsv": 400, "events": 200}, {"schedcsv": 5000, "events": 2000}, ["Python datetime/csv as glue: row times and the '9am the day(s) before' rule are computed by the harness"], RULE, extra=extra)


def replay(payload):
    inp = payload["input"]
    if inp.get("unit") in ("events", "weekly"):
        import c07
        return c07.replay(payload)
    unit = GEN if inp.get("unit") == "gen_schedule" else READER
    v = unit.check_property(inp["case"], unit.run_impl(inp["case"]))
    for cls, what in v:
        print("VIOLATION-REPLAY %s: %s" % (cls, what[:700]))
    print("replay: %d violation(s)" % len(v))
    return 1 if v else 0
