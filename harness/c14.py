"""C14 — distributed delegates per station type and honours the station count.
Exact runs: distributed vs. balanced (depot connectors) / greedy (opportunity connectors) on the connector's own sub-scenario,
both on exact rationals, compared for equality per step; number_cs invariant per step.  Sampled (implementation vs implementation);
the delegated sub-strategies themselves are modelled and tied under C10."""
import copy
import json
from fractions import Fraction as F

import common as C
import corr
import scen
import sim
from ex import fr


def sub_scenario(js, gid):
    """the scenario restricted to connector gid and everything attached to it"""
    js = copy.deepcopy(js)
    comp, ev = js["components"], js["events"]
    comp["grid_connectors"] = {gid: comp["grid_connectors"][gid]}
    comp["charging_stations"] = {k: v for k, v in comp["charging_stations"].items() if v["parent"] == gid}
    css = set(comp["charging_stations"])
    keep = set()
    for vid, v in comp["vehicles"].items():
        evs = [e for e in ev.get("vehicle_events", []) if e["vehicle_id"] == vid]
        stations = {v.get("connected_charging_station")} | {e["update"].get("connected_charging_station") for e in evs}
        stations.discard(None)
        if stations and stations <= css:
            keep.add(vid)
    comp["vehicles"] = {k: v for k, v in comp["vehicles"].items() if k in keep}
    comp["batteries"] = {k: v for k, v in comp.get("batteries", {}).items() if v["parent"] == gid}
    comp["photovoltaics"] = {k: v for k, v in comp.get("photovoltaics", {}).items() if v["parent"] == gid}
    for k in ("fixed_load", "local_generation"):
        ev[k] = {n: v for n, v in ev.get(k, {}).items() if v["grid_connector_id"] == gid}
    ev["grid_operator_signals"] = [s for s in ev.get("grid_operator_signals", []) if s["grid_connector_id"] == gid]
    ev["vehicle_events"] = [e for e in ev.get("vehicle_events", []) if e["vehicle_id"] in keep]
    return js


import random as _random
RNGX = _random.Random("c14-extra")      # private stream for later additions (number_cs = 0)


class DistUnit(corr.Unit):
    name = "distributed"
    tagfn = None

    def directed(self, rng):
        """limited charging points, vehicles announced to arrive within the next minutes, an unrelated second connector"""
        import datetime
        start = datetime.datetime.fromisoformat("2023-01-0%dT08:00:00+02:00" % rng.randint(2, 8))
        iv = rng.choice([15, 15, 10])
        n = rng.choice([8, 12])
        comp = {"grid_connectors": {"GC1": {"max_power": rng.choice([50, 100]), "cost": {"type": "fixed", "value": 0.3}, "number_cs": rng.choice([1, 1, 2]),
                                            "voltage_level": "MV", "grid_operator": "default_grid_operator"},
                                    "GC2": {"max_power": 100, "cost": {"type": "fixed", "value": 0.3}, "voltage_level": "MV", "grid_operator": "default_grid_operator"}},
                "charging_stations": {}, "vehicle_types": {"vt": {"name": "vt", "capacity": rng.choice([50, 200]), "charging_curve": [[0, 50], [1, 50]]}},
                "vehicles": {}, "batteries": {}, "photovoltaics": {}}
        evs = []
        kk = rng.randint(0, 2)
        names = ["bus%d" % i for i in range(rng.choice([2, 3]))]
        rng.shuffle(names)
        names.insert(rng.choice([len(names), len(names), 0]), "zdepot")      # usually the last vehicle of the scenario
        for vid in names:
            depot = vid == "zdepot"
            cs = "CS_%s_%s" % (vid, "deps" if depot else "opps")
            comp["charging_stations"][cs] = {"max_power": 50, "parent": "GC2" if depot else "GC1"}
            soc = rng.choice([0.2, 0.4, 0.6, 0.9]) if not depot else rng.choice([0.02, 0.98])
            if depot:
                comp["vehicles"][vid] = {"vehicle_type": "vt", "soc": soc, "desired_soc": 1, "connected_charging_station": cs,
                                         "estimated_time_of_departure": scen.iso(start + datetime.timedelta(minutes=iv * n))}
            else:
                comp["vehicles"][vid] = {"vehicle_type": "vt", "soc": soc, "desired_soc": 1}
                # one bus arrives on a step boundary, the others 1-3 minutes later (announced within the look-ahead)
                k = kk if rng.random() < 0.8 else rng.randint(0, 2)
                first = not any(e["vehicle_id"].startswith("bus") for e in evs)
                arr = start + datetime.timedelta(minutes=iv * k + (0 if first else rng.choice([1, 2, 2, 3])))
                evs.append({"signal_time": scen.iso(arr - datetime.timedelta(hours=2)), "start_time": scen.iso(arr), "vehicle_id": vid, "event_type": "arrival",
                            "update": {"connected_charging_station": cs, "estimated_time_of_departure": scen.iso(arr + datetime.timedelta(minutes=iv * rng.randint(2, 5))),
                                       "desired_soc": 1, "soc_delta": -rng.choice([0.05, 0.1, 0.0])}})
        js = {"scenario": {"start_time": scen.iso(start), "interval": iv, "n_intervals": n}, "components": comp,
              "events": {"fixed_load": {}, "local_generation": {}, "grid_operator_signals": [], "vehicle_events": evs}}
        return {"js": js, "options": {}}

    def generate(self, rng, n, biased=False):
        out = [self.directed(rng) for _ in range(max(3, n // 3))]
        for _ in range(n):
            feats = set(k for k in ("fixed", "price", "unaligned", "minpower", "number_cs", "limit") if rng.random() < 0.4)
            js = scen.gen_scenario(rng, n_gc=rng.choice([1, 2, 3]), n_veh=rng.randint(1, 6), features=feats, steps=rng.choice([6, 12, 24]))
            opts = dict(rng.choice([{}, {"ALLOW_NEGATIVE_SOC": True}, {"CONCURRENCY": 0.5}]))
            if rng.random() < 0.35:
                # options for one kind of sub-strategy only: they must reach exactly that kind
                which = rng.choice(["strategy_options_opps", "strategy_options_deps"])
                opts[which] = rng.choice([{"PRICE_THRESHOLD": 10}, {"PRICE_THRESHOLD": -1}, {"PRICE_THRESHOLD": 0.3}])
            out.append({"js": js, "options": opts})
        # boundary: a connector that offers no charging point at all (number_cs = 0); drawn from the private stream so that the cases
        # above stay what they were (round-3 seed C14-s8)
        for _ in range(2):
            c0 = self.directed(RNGX)
            c0["js"]["components"]["grid_connectors"]["GC1"]["number_cs"] = 0
            out.append(c0)
        return out

    def run_impl(self, case):
        js = case["js"]
        full = sim.run_record(js, "distributed", case["options"])
        if full["raised"]:
            return {"raised": full["raised"], "phase": full["phase"]}
        res = {"full": full, "subs": {}}
        for gid in js["components"]["grid_connectors"]:
            css = [k for k, c in js["components"]["charging_stations"].items() if c["parent"] == gid]
            if not css:
                continue
            typ = css[0].split("_")[-1]
            sub = sub_scenario(js, gid)
            strat = "balanced" if typ == "deps" else "greedy"
            plain = {k: v for k, v in case["options"].items() if not k.startswith("strategy_options_")}
            plain.update(case["options"].get("strategy_options_" + typ, {}))          # what this kind of sub-strategy is meant to get
            res["subs"][gid] = {"type": typ, "run": sim.run_record(sub, strat, plain), "alone": sim.run_record(sub, "distributed", case["options"])}
        return res

    def emit(self, case, out):
        return ""

    def check_property(self, case, out):
        if "raised" in out:
            return []
        v = []
        js, full = case["js"], out["full"]
        d = "%s gcs=%s scenario=%s" % (case["options"], {g: gc.get("number_cs") for g, gc in js["components"]["grid_connectors"].items()}, json.dumps(js, default=str)[:500])
        # number_cs: at most that many vehicles charged simultaneously
        for i, st in enumerate(full["steps"]):
            post = st.get("post")
            if post is None:
                continue
            for g, gc in js["components"]["grid_connectors"].items():
                if gc.get("number_cs") is None:
                    continue
                active = [k for k, c in post["cs"].items() if c["parent"] == g and post["gc"][g]["loads"].get(k, F(0)) != 0]
                if len(active) > gc["number_cs"]:
                    v.append(("C14/number-cs", "step %d: %d stations carry power at %s, number_cs=%d: %s" % (i, len(active), g, gc["number_cs"], d)))
        for g, sub in out["subs"].items():
            limited = js["components"]["grid_connectors"][g].get("number_cs") is not None
            for label, other in (("delegation", sub["run"]), ("independence", sub["alone"])):
                if other["raised"] or (limited and label == "delegation"):
                    continue
                n = min(full["step_i"] - (1 if full["aborted"] else 0), other["step_i"] - (1 if other["aborted"] else 0))
                for i in range(n):
                    a = {k: val for k, val in full["commands"][i].items() if k in other["cs_keys"]}
                    b_ = other["commands"][i]
                    if {k: x for k, x in a.items() if x != 0} != {k: x for k, x in b_.items() if x != 0}:
                        v.append(("C14/" + label, "step %d at %s (%s): distributed commands %s, %s alone %s: %s" % (
                            i, g, sub["type"], {k: float(x) for k, x in a.items()}, other["strategy"], {k: float(x) for k, x in b_.items()}, d)))
                        break
                    sa = {k: x["soc"] for k, x in full["steps"][i]["post"]["veh"].items() if k in other["veh"]}
                    sb = {k: x["soc"] for k, x in other["steps"][i]["post"]["veh"].items()}
                    if sa != sb:
                        v.append(("C14/" + label, "step %d at %s (%s): vehicle SoCs differ between distributed and %s alone: %s" % (i, g, sub["type"], other["strategy"], d)))
                        break
        return v[:3]


UNIT = DistUnit()
RULE = ("random scenarios with 1-3 connectors of either type (deps/opps), 1-6 vehicles, with/without number_cs, fixed load, price, limits, "
        "minimum powers, unaligned events; no generation, V2G or stationary batteries (the property's scope); every connector without "
        "number_cs compared step by step (exact rationals) with balanced/greedy on its own sub-scenario and with distributed on the "
        "sub-scenario alone; number_cs invariant on every step")


def run(tier):
    def extra(rep, tier_, sd):
        corr.correspond(UNIT, 40 if tier_ == "quick" else 400, sd, rep, check_model=False, label="distributed vs delegated strategy (exact, implementation vs implementation)")
    import c10
    c10.UNIT.records = sim.pool(C.seed(), tier, strategies=("greedy", "balanced"), n_slow=0, n_fast=40 if tier == "quick" else 300)
    c10.UNIT.max_steps_per_run = 2 if tier == "quick" else 8
    c10.UNIT.pred_enabled = False          # the C10 rule predicates are evaluated by ./check C10
    old = C.Report.add_violation

    def add_violation(self, cls, what, inp):
        if isinstance(inp, dict) and isinstance(inp.get("case"), dict) and "rec" in inp["case"]:
            inp = {"unit": inp["unit"], "case": dict(sim.slim(inp["case"]["rec"]), step=inp["case"]["i"])}
        old(self, cls, what, inp)
    C.Report.add_violation = add_violation
    try:
        return corr.standard_run("C14", tier, [c10.UNIT], 0, 0, sim.SIM_TRUSTED, RULE, extra=extra, search_factor=1)
    finally:
        C.Report.add_violation = old


def replay(payload):
    inp = payload["input"]
    if inp.get("unit") == "distributed":
        v = UNIT.check_property(inp["case"], UNIT.run_impl(inp["case"]))
        for cls, what in v:
            print("VIOLATION-REPLAY %s: %s" % (cls, what[:600]))
        print("replay: %d violation(s)" % len(v))
        return 1 if v else 0
    import c10
    return c10.replay(payload)
