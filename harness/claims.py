# executed by mkmanifest.py
claim("C03",
      "Theorems (R instance) that lookup is the linear interpolation of the neighbouring points and that clamped(limit, pre, "
      "post) equals post*min(pre*curve(s), limit) at every SoC in [0,1] for every well-formed curve, with max_power the maximum "
      "over points and the default discharge curve = factor*charging curve; plus an exhaustive grid sweep lifted by "
      "forallb_forall. The model is checked against /repo by exact correspondence on random and malformed curves.",
      TB + AX_R, "Coq proof over hand model + exact differential correspondence", "5.3")
