# executed by mkmanifest.py
claim("C03",
      "Theorems (R instance) that lookup is the linear interpolation of the neighbouring points and that clamped(limit, pre, "
      "post) equals post*min(pre*curve(s), limit) at every SoC in [0,1] for every well-formed curve, with max_power the maximum "
      "over points and the default discharge curve = factor*charging curve; plus an exhaustive grid sweep lifted by "
      "forallb_forall. The model is checked against /repo by exact correspondence on random and malformed curves.",
      TB + AX_R, "Coq proof over hand model + exact differential correspondence", "5.3")
claim("C20",
      "Axiom-free theorems over the model of assign_vehicle_id for ALL trip tables and standing times: trips of one vehicle are "
      "separated by more than the minimum standing time (no overlap), a vehicle serves only its own type, a new vehicle is "
      "created only when every vehicle of that type is still busy, one id per trip; first-match selection in idle order. "
      "The upstream revision is refuted by two vm_compute witnesses (D3a, D3b; both repaired by fix: commits). Model tied to "
      "/repo by exact correspondence on random trip tables.",
      "Trusted: Coq kernel + VM; correspondence harness; datetime parsing and timedelta(hours=float) rounding are glue (standing "
      "times enter the model as integer microseconds computed by the harness's own formula). No axioms. Partial: that the idle "
      "list is ordered by availability time (the 'idle longest' reading of FIFO) is checked on every generated table by the "
      "Python predicate, not proved.",
      "Coq proof (invariant by induction over trips) + exact differential correspondence", "5.20")
