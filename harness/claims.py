# executed by mkmanifest.py
claim("C03",
      "Theorems (R instance) that lookup is the linear interpolation of the neighbouring points and that clamped(limit, pre, "
      "post) equals post*min(pre*curve(s), limit) at every SoC in [0,1] for every well-formed curve, with max_power the maximum "
      "over points and the default discharge curve = factor*charging curve; plus an exhaustive grid sweep lifted by "
      "forallb_forall. The model is checked against /repo by exact correspondence on random and malformed curves.",
      TB + AX_R, "Coq proof over hand model + exact differential correspondence", "5.3")
claim("C20",
      "Axiom-free theorems over the model of assign_vehicle_id for ALL trip tables and standing times: trips of one vehicle are "
      "separated by more than the minimum standing time (no overlap), a vehicle serves only its own type, a new vehicle is "
      "created only when every vehicle of that type is still busy, one id per trip; first-match selection in idle order. "
      "The upstream revision is refuted by two vm_compute witnesses (D3a, D3b; both repaired by fix: commits). Model tied to "
      "/repo by exact correspondence on random trip tables.",
      "Trusted: Coq kernel + VM; correspondence harness; datetime parsing and timedelta(hours=float) rounding are glue (standing "
      "times enter the model as integer microseconds computed by the harness's own formula). No axioms. The idle list is proved to be ordered by availability time (C20_idle_list_fifo, "
      "for trips arriving no earlier than they depart and non-negative standing times), so first-match = idle longest.",
      "Coq proof (invariant by induction over trips) + exact differential correspondence", "5.20")
claim("C15",
      "Axiom-free iff-theorems for ALL timestamps, season lists, levels and window layouts: membership in a peak-load window "
      "(first listed season containing the date, start <= t < end, wrapping), core standing time (no-drive weekday, holiday, "
      "windows), and the per-step series (= predicate at each step time, ceil((stop-start)/interval) entries, loop terminates). "
      "The 'before the end' reading of the core window is refuted at t = end of a non-wrapping window (known finding, pinned "
      "by a test) and proved everywhere else. Model tied to /repo by exact correspondence incl. every minute of boundary days.",
      "Trusted: Coq kernel + VM; harness; Python datetime as calendar glue (ordinal, weekday, ISO parsing). No axioms.",
      "Coq proof over integer model + exact differential correspondence (exhaustive minutes on sampled layouts)", "5.15")
claim("C01",
      "Theorems on the R instance of the Battery model, for all curves/capacities/efficiencies/durations/argument "
      "combinations: charging never lowers the SoC nor takes it above 1, discharging never raises it, a negative SoC is left "
      "alone, reported delta = actual change, average power >= 0, avg*T*eff = stored energy within the code's own clipping "
      "tolerance capacity*EPS (exact below 100 %; exact when discharging), get_available_power is pure. PARTIAL: 'stops at the "
      "target', 'power below limit/curve' and 'never raises / terminates' are not theorems at loop level (section-level "
      "ingredients are in C02); they are evaluated by an independent Python predicate on every generated call sequence. "
      "Model tied to /repo by exact correspondence with a validated exp/log oracle table.",
      TB + AX_R + ", Classical_Prop.classic. exp/log: the Q model replays the implementation's recorded math.exp/math.log "
      "answers (a miss is an error); theorems are about the true exp/ln.",
      "Coq proof (loop invariants on R) + exact differential correspondence with exp/log oracle", "5.1")
claim("C02",
      "Section-level theorems (Coquelicot): the closed forms used by _adjust_soc are the solution of dSoC/dt = P(SoC)/c on a "
      "linear section (derivative + initial value), the time-to-breakpoint is exact, steps compose (semigroup), the state stays "
      "between current SoC and breakpoint, section average power lies between the end-point powers; a target-power request "
      "that reaches its target below 100 % delivers exactly that power (load level). PARTIAL: multi-section composition vs. the "
      "global ODE flow, split-vs-single call, monotonicity across sections and the 'unrestricted' clause are only sampled "
      "(implementation-only relational cases, exact numbers, tolerance 4*EPS).",
      TB + AX_R + ", Classical_Prop.classic (Coquelicot).",
      "Coq/Coquelicot proof of section-level ODE facts + exact correspondence + sampled relational cases", "5.2")
SIMNOTE = (" Run-loop model tied to Scenario.run by exact correspondence on recorded runs of all eight strategies; the strategy-"
           "dependent clauses are evaluated by Python predicates on every step of those runs (sampled, labelled so in the evidence).")
claim("C04",
      "Theorems for ANY strategy (abstract in the run-loop model): a step outside +-(limit+EPS) at a connector or station is "
      "never reported as valid; the run stops at the first invalid step and is flagged aborted; current limit <= rating and "
      "= min(rating, signalled limit). PARTIAL: 'no strategy breaks the limit when fixed load and generation respect it' is "
      "sampled on recorded exact runs (known findings: forecast-based planners)." + SIMNOTE,
      TB + AX_R + ", Classical_Prop.classic.", "Coq proof of the run-loop monitor + exact correspondence + sampled predicates", "5.4")
claim("C05",
      "Theorems about util.clamp_power on R (non-negative, within station headroom and offered power, respects minimum "
      "powers, monotone) and the station-limit clause of the run-loop monitor. PARTIAL: station/vehicle-curve/V2G clauses per "
      "strategy are sampled on recorded exact runs (known finding: two (dis)charge calls per step exceed the vehicle curve)." + SIMNOTE,
      TB + AX_R + ", Classical_Prop.classic.", "Coq proof of kernel lemmas + exact correspondence + sampled predicates", "5.5")
claim("C06",
      "Theorems: reported connector power = max(-rating, sum of all component powers) (= the plain sum when >= -rating); "
      "self-discharge formula, only lowers the SoC, never below zero; per call energy balance from C01. PARTIAL: per-step "
      "vehicle/battery energy bookkeeping of each strategy is sampled on recorded exact runs (known finding: charge and "
      "discharge of one vehicle within a step)." + SIMNOTE,
      TB + AX_R + ", Classical_Prop.classic.", "Coq proof (run-loop sum, losses) + exact correspondence + sampled predicates", "5.6")
claim("C17",
      "Theorems on the run-loop model for any strategy and number type (axiom-free): reported steps <= configured; no error => "
      "exactly the configured number; an error or failed check is latched: stop at the first such step, flagged aborted, that "
      "step is the last row; equal row shapes. PARTIAL: bounded time of strategy loops and report generation are runtime facts, "
      "exercised by fault injection on recorded runs." + SIMNOTE,
      "Trusted: Coq kernel + VM; harness recorder and fault injection (class-level patch of the concrete strategy's step). No axioms.",
      "Coq proof of the run-loop model + exact correspondence + fault injection", "5.17")
claim("C07",
      "Theorems over the Events model, for all event lists, orders, intervals and horizons: the delivery step is the ceiling of "
      "(signal - t0)/interval (never before signalled; before-start events go to step 0); only events signalled at/after the end "
      "are ignored; a pre-step advances the clock by one interval and applies exactly the queued events that have started, in "
      "stable chronological order, keeping the rest queued and sorted (hence: effect at the first step at/after start, once, none "
      "lost); series give factor*value at start+i*step and zero after the last value; no event lifts a connector's limit above its "
      "rating. Model tied to /repo by exact correspondence on random event histories, which also checks the implementation "
      "against an independent declarative reference (last-writer semantics of loads, limit, cost, target, window).",
      "Trusted: Coq kernel + VM; harness (direct construction of Components/Events/Strategy, datetime -> microseconds). Scheduling "
      "theorems are axiom-free; value theorems use the Reals axioms. The CSV readers (price list, schedule) are covered under C13.",
      "Coq proof over integer-time event model + exact differential correspondence + independent reference", "5.7")
claim("C08",
      "Theorems (R instance) for every vehicle event and world state: an arrival lowers the SoC by exactly the trip consumption "
      "once, connects the vehicle with the announced departure time and desired SoC and clears the consumption; negative SoC: "
      "time recorded, RuntimeError unless allowed, reset to zero only if requested; a departure disconnects, clears the "
      "estimate, changes the SoC only by the documented past-event rule and increments the two counters exactly under their "
      "conditions; unknown vehicles are skipped; other events never touch a vehicle. Strategy-side half of 'disconnected SoC "
      "constant' is sampled under C06. Same correspondence and reference as C07.",
      TB + AX_R + ".", "Coq proof over event model + exact differential correspondence + independent reference", "5.8")
claim("C12",
      "Model of calculate_costs (all seven schemes) tied to /repo by exact correspondence of the returned dictionary and the "
      "written 'costs' section (2-decimal half-even rounding reproduced); theorems: see props/C12.v. Relational clauses (repeat, "
      "halving, energy-proportional terms, composition, tariff class) are also evaluated on the implementation for every "
      "generated case, away from bracket boundaries where one ulp of the float-computed year fraction decides.",
      TB + AX_R + ".", "Coq proof over hand model of the tariff arithmetic + exact differential correspondence", "5.12")
claim("C10",
      "Theorems (R instance) on the model of the per-vehicle decision of greedy and balanced, for all states: nothing is charged "
      "at normal price once the desired SoC is reached; otherwise exactly one battery request whose target power is "
      "clamp_power(min(power needed, remaining connector power [+ supporting battery power])) for greedy and "
      "clamp_power(min(power needed / ceil(time to departure / interval), remaining connector power)) for balanced — non-negative, "
      "within the station's remaining rating, never above the need or the even share, never above the available power; cheap price: "
      "clamp_power(remaining connector power). The Coq model of the full strategy step (incl. surplus distribution and stationary "
      "batteries) agrees EXACTLY (commands, SoCs, load dictionaries, station powers) with every sampled recorded step of exact "
      "greedy/balanced runs. PARTIAL: no refinement theorem for the whole step; the rule's consequences for surplus/battery handling "
      "are evaluated independently on the recorded steps. Known finding: balanced past the announced departure charges greedily.",
      TB + AX_R + ".",
      "Coq proof over hand model of the decision + exact differential correspondence per step + independent rule predicates", "5.10")
claim("C18",
      "Theorem: split_feedin yields non-negative parts in the order generation > V2G > battery summing to the total feed-in; "
      "model tied by exact correspondence incl. 3-decimal rounding. PARTIAL: row construction and aggregates are checked cell by "
      "cell on the CSV/JSON files of recorded exact runs (completed and aborted, 1-2 connectors), and the cost round trip by "
      "running simulate.py's in-run costing and calculate_costs.py on the written files with the same options (found and fixed: "
      "price column name mismatch).",
      TB + AX_R + ".", "Coq proof of split_feedin + exact correspondence + file-level comparison and cost round trip", "5.18")
claim("C16",
      "Theorems (any number type, axiom-free): shifting every timestamp of the event model by the same amount commutes with "
      "event delivery and with the pre-step of every timestep, leaving loads, limits, prices, SoCs and counters untouched. "
      "PARTIAL: determinism on one Scenario object, isolation from an unrelated connector, non-mutation of the definition and "
      "week-shift invariance of whole runs are implementation-vs-implementation history tests (aliasing cannot be exhibited by "
      "a functional model); labelled sampled.",
      "Trusted: Coq kernel + VM; harness. No axioms. History tests run /repo in plain floats and compare with relative tolerance 1e-9; "
      "event signal_time is excluded from the definition comparison (strategy constructors move it earlier, idempotently).",
      "Coq proof of shift invariance on the event model + exact correspondence + sampled history tests", "5.16")
claim("C14",
      "Exact comparison (implementation vs implementation, both executed on exact rationals): at every connector without "
      "number_cs the distributed run equals, step by step, the balanced (depot) resp. greedy (opportunity) run on the "
      "connector's own sub-scenario and the distributed run on that sub-scenario alone; on every step at most number_cs "
      "stations carry power. The delegated strategies are the Strat model tied by exact per-step correspondence (C10). "
      "The distributed strategy's own code is not modelled: sampled, not proved.",
      "Trusted: harness (sub-scenario construction, exact execution). One auxiliary lemma about the model's dictionaries is proved; "
      "no theorem about Distributed.step itself.",
      "exact differential comparison distributed vs delegated strategies + step-model correspondence", "5.14",
      category="translation_validation")
claim("C13",
      "Axiom-free theorems on the model of get_schedule_from_csv (repaired): no generated signal takes effect before it is "
      "sent; reading back the change-point-compressed events yields exactly the scheduled target at every row time; the "
      "upstream reader is refuted for per-vehicle schedules (D4, fixed). Model tied by exact correspondence on random CSVs. "
      "PARTIAL: generate_schedule itself (flex band, bisection) is not modelled: rating, flexibility band (recomputed by the "
      "implementation), charge flag (D2 found and fixed) and the end-to-end read back through a Scenario are checked on generated "
      "scenarios and grid series.",
      "Trusted: Coq kernel + VM; harness incl. the calendar rule for signal times ('9am one/two days before') computed by the harness; "
      "Python csv/datetime as glue. No axioms.",
      "Coq proof over the schedule reader model + exact correspondence + end-to-end generator checks", "5.13")
claim("C19",
      "Theorems (R instance) on the models of the two trip loops, for ALL trip streams (hence every seed, duration, start time, "
      "no-drive-day set, fleet) resp. all departure-ordered trip tables: events of a vehicle alternate in chronological order, "
      "every departure announces exactly the following arrival, every arrival followed by a trip announces exactly that trip's "
      "departure and its desired SoC is >= the minimum and covers the consumption until the next connection (times 1+buffer for "
      "the statistics generator); initial announcement consistent; characterisation of the arrival that keeps the placeholder "
      "(known finding). Models tied to /repo by exact correspondence per vehicle (random trips recorded from generate_trip). "
      "PARTIAL: SimBEV generator, seed reproducibility, loading and the greedy run without negative SoC are checked on generated "
      "parameter sets / trip tables / synthetic SimBEV directories only (sampled); found and fixed: KeyError for a vehicle without trips.",
      TB + AX_R + ", Classical_Prop.classic. Trusted additionally: projection of the shared event list on one vehicle, module-level "
      "patch of float() in generate_from_csv and the generate_trip recorder.",
      "Coq proof (invariant over the trip loop) + exact differential correspondence + sampled generator predicates", "5.19")
claim("C09",
      "Theorems: the remaining-step count -(dt // -interval) is the ceiling (no step lost, none invented, positive iff the "
      "departure lies ahead); greedy's request aims exactly at the desired SoC and every limited request below it; balanced's k equal "
      "steps deliver the need; and the induction lifting a per-step 'reach the target or charge at full power' dichotomy to the "
      "departure guarantee min(desired - tol, n full-power steps). PARTIAL / sampled: the look-ahead strategies are not modelled, and "
      "the per-step dichotomy is not proved for the battery model; the guarantee itself is evaluated on generated feasible one-connector "
      "scenarios for all six strategies against an independent feasibility oracle. Known findings: minimum-power sliver, "
      "constant-power planning on tapering curves.",
      "Trusted: Coq kernel; the harness's scenario generator, recorder around Strategy.step and feasibility oracle (vehicle alone at "
      "full station power using the implementation's Battery); float execution with the property's 1e-4 tolerance. " + AX_R,
      "Coq proofs of the planning arithmetic and the guarantee induction + sampled end-to-end service predicate", "5.9",
      category="exploration")
claim("C11",
      "Theorem (on the clamp_power model): the individual-schedule command min(clamp_power(schedule + additional), head room) is never "
      "below min(clamp_power(schedule), head room) for any additional power >= 0, and never above the head room. PARTIAL / sampled: "
      "peak_load_window, flex_window and balanced_market are not modelled; 'no charging in discouraged periods when the encouraged "
      "ones offer >= 1.3x the needed time, desired SoC still reached', 'balanced_market never pays more than greedy for equal energy' "
      "and the schedule clause at the level of station powers are evaluated on generated scenarios over window/price alignments, "
      "aligned/unaligned price events, schedule-change events, tight connectors.",
      "Trusted: Coq kernel; harness scenario generator, recorder around Strategy.step, battery oracle (implementation's Battery); float "
      "execution, energy tolerance 1e-4*capacity, SoC tolerance 1e-4. " + AX_R,
      "Coq proof of the schedule command bound + sampled end-to-end signal predicates", "5.11",
      category="exploration")
