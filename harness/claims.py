# executed by mkmanifest.py
claim("C03",
      "Theorems (R instance) that lookup is the linear interpolation of the neighbouring points and that clamped(limit, pre, "
      "post) equals post*min(pre*curve(s), limit) at every SoC in [0,1] for every well-formed curve, with max_power the maximum "
      "over points and the default discharge curve = factor*charging curve; plus an exhaustive grid sweep lifted by "
      "forallb_forall. The model is checked against /repo by exact correspondence on random and malformed curves.",
      TB + AX_R, "Coq proof over hand model + exact differential correspondence", "5.3")
claim("C20",
      "Axiom-free theorems over the model of assign_vehicle_id for ALL trip tables and standing times: trips of one vehicle are "
      "separated by more than the minimum standing time (no overlap), a vehicle serves only its own type, a new vehicle is "
      "created only when every vehicle of that type is still busy, one id per trip; first-match selection in idle order. "
      "The upstream revision is refuted by two vm_compute witnesses (D3a, D3b; both repaired by fix: commits). Model tied to "
      "/repo by exact correspondence on random trip tables.",
      "Trusted: Coq kernel + VM; correspondence harness; datetime parsing and timedelta(hours=float) rounding are glue (standing "
      "times enter the model as integer microseconds computed by the harness's own formula). No axioms. Partial: that the idle "
      "list is ordered by availability time (the 'idle longest' reading of FIFO) is checked on every generated table by the "
      "Python predicate, not proved.",
      "Coq proof (invariant by induction over trips) + exact differential correspondence", "5.20")
claim("C15",
      "Axiom-free iff-theorems for ALL timestamps, season lists, levels and window layouts: membership in a peak-load window "
      "(first listed season containing the date, start <= t < end, wrapping), core standing time (no-drive weekday, holiday, "
      "windows), and the per-step series (= predicate at each step time, ceil((stop-start)/interval) entries, loop terminates). "
      "The 'before the end' reading of the core window is refuted at t = end of a non-wrapping window (known finding, pinned "
      "by a test) and proved everywhere else. Model tied to /repo by exact correspondence incl. every minute of boundary days.",
      "Trusted: Coq kernel + VM; harness; Python datetime as calendar glue (ordinal, weekday, ISO parsing). No axioms.",
      "Coq proof over integer model + exact differential correspondence (exhaustive minutes on sampled layouts)", "5.15")
