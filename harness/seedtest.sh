#!/bin/sh
# usage: seedtest.sh <PID> <dir with patch.diff demo.py notes.txt> <seed-id>
# applies the patch to /repo, runs the quick check, reverts; files the seed under /verif/seeded/<seed-id>
PID=$1; DIR=$2; SID=$3
cd /repo || exit 2
git diff --quiet || { echo "repo dirty"; exit 2; }
git apply "$DIR/patch.diff" || { echo "patch does not apply"; exit 2; }
trap 'git -C /repo checkout -- .' EXIT INT TERM
( cd /verif && ./check $PID --tier quick > /tmp/seedtest_$SID.log 2>&1 ); RC=$?
git -C /repo checkout -- .
grep -E "VIOLATION|PASS|FAIL|KNOWN" /tmp/seedtest_$SID.log | cut -c1-400 | head -8
mkdir -p /verif/seeded/$SID
cp "$DIR/patch.diff" "$DIR/demo.py" /verif/seeded/$SID/ 2>/dev/null
cp "$DIR/notes.txt" /verif/seeded/$SID/notes.txt 2>/dev/null
echo "check exit=$RC"
exit 0
