"""C03 — curve lookup and clamping are exact piecewise-linear operations."""
import builtins
from fractions import Fraction as F

import common as C
import corr
from ex import Ex, fr


def _components():
    """spice_ev.components with float() shadowed so that Ex values survive the
    conversion list of VehicleType (harness-level patch, no source change)"""
    from spice_ev import components
    components.float = lambda x: x if isinstance(x, Ex) else builtins.float(x)
    return components


POWERS = [F(37, 10), F(11), F(22), F(50), F(150), F(1, 2)]
SCALES = [F(1), F(1), F(1, 2), F(2), F(0.95), 1 / F(0.95), F(3, 4), F(1, 4), F(5, 4)]


def gen_points(rng, biased=False):
    k = rng.choice([1, 1, 2, 2, 3, 4, 5])          # number of sections
    den = rng.choice([4, 20, 20, 100])
    xs = sorted(rng.sample(range(1, den), min(k - 1, den - 1))) if k > 1 else []
    xs = [F(0)] + [F(x, den) for x in xs] + [F(1)]
    if rng.random() < 0.15:
        xs = [F(0)] + sorted(F(rng.random()) for _ in range(k - 1)) + [F(1)]
    shape = rng.choice(['const', 'taper', 'rise', 'zeroend', 'rand', 'zerostart', 'rand', 'hump'])
    P = rng.choice(POWERS)
    n = len(xs)
    if shape == 'const':
        ys = [P] * n
    elif shape == 'taper':
        ys = [P] * (n - 1) + [P * rng.choice([F(1, 10), F(1, 2), F(1, 50)])]
    elif shape == 'rise':
        ys = [P * rng.choice([F(1, 5), F(1, 2)])] + [P] * (n - 1)
    elif shape == 'zeroend':
        ys = [P] * (n - 1) + [F(0)]
    elif shape == 'zerostart':
        ys = [F(0)] + [P] * (n - 1)
    elif shape == 'hump':
        ys = [P * F(min(i, n - 1 - i) + 1, n) for i in range(n)]
    else:
        ys = [rng.choice([F(0), P / 4, P / 2, P, P * F(rng.randint(0, 40), 40)]) for _ in xs]
    pts = [[x, y] for x, y in zip(xs, ys)]
    rng.shuffle(pts)
    return pts


def malformed(rng, pts):
    m = rng.choice(['no0', 'no1', 'dup', 'single', 'empty', 'dup0'])
    pts = [list(p) for p in pts]
    if m == 'no0':
        pts = [p for p in pts if p[0] != 0] or [[F(1, 2), F(3)]]
    elif m == 'no1':
        pts = [p for p in pts if p[0] != 1] or [[F(1, 2), F(3)]]
    elif m == 'dup':
        p = rng.choice(pts)
        pts.insert(rng.randrange(len(pts) + 1), [p[0], p[1] / 2])
    elif m == 'dup0':
        pts.insert(rng.randrange(len(pts) + 1), [F(0), F(7)])
    elif m == 'single':
        pts = [pts[0]]
    else:
        pts = []
    return pts


def probes(rng, pts, extra=()):
    xs = sorted(set(p[0] for p in pts))
    ss = set(xs)
    for a, b_ in zip(xs, xs[1:]):
        ss.add((a + b_) / 2)
        ss.add(a + (b_ - a) * F(rng.randint(1, 99), 100))
    ss.update(extra)
    ss.add(F(rng.random()))
    ss = [s for s in ss if 0 <= s <= 1]
    rng.shuffle(ss)
    return ss[:rng.choice([3, 5, 8, 14])]


class CurveUnit(corr.Unit):
    name = "curve"
    header = ("From Coq Require Import ZArith QArith List Bool.\nFrom SV Require Import Num Curve CurveRun.\n"
              "Import ListNotations.\nOpen Scope Q_scope.\n")
    casetype = "ccase"
    failing = "failing"
    tagfn = "tag"
    runfn = "run_ccase"
    trivial_tags = (None, 0)
    per_file = 200

    def generate(self, rng, n, biased=False):
        cases = []
        for _ in range(n):
            pts = gen_points(rng, biased)
            if rng.random() < (0.08 if not biased else 0.02):
                pts = malformed(rng, pts)
            ys = [p[1] for p in pts] or [F(1)]
            ops = []
            for _ in range(rng.randint(1, 4)):
                kind = rng.choice(['lookup', 'clamp', 'clamp', 'clamp', 'secb', 'v2g'])
                if kind == 'lookup':
                    s = rng.choice(probes(rng, pts) + [F(-1, 5), F(6, 5), F(1), F(0)])
                    ops.append({"op": "lookup", "s": s})
                elif kind == 'secb':
                    s = rng.choice(probes(rng, pts) + [F(-1, 5), F(6, 5), F(1), F(0)])
                    ops.append({"op": "secb", "s": s})
                elif kind == 'clamp':
                    pre = rng.choice(SCALES)
                    post = rng.choice(SCALES)
                    lim = rng.choice([F(0), max(ys) * 2, rng.choice(ys), rng.choice(ys) * pre,
                                      (min(ys) + max(ys)) / 2 * pre, max(ys) * pre * F(rng.randint(1, 39), 40),
                                      F(rng.randint(0, 200), 4)])
                    ops.append({"op": "clamp", "lim": lim, "pre": pre, "post": post, "ss": probes(rng, pts)})
                else:
                    fac = rng.choice([F(1, 2), F(1, 2), F(1), F(1, 4), F(0.95), F(3, 2), F(2)])
                    ops.append({"op": "v2g", "factor": fac, "ss": probes(rng, pts)})
            cases.append({"pts": pts, "ops": ops})
        return cases

    # ---- implementation
    def _curve_out(self, c, ss):
        vals = []
        for s in ss:
            vals.append(self._val(lambda: c.power_from_soc(Ex(s))))
        return {"pts": [[fr(a), fr(b_)] for a, b_ in c.points], "maxp": fr(c.max_power), "vals": vals}

    @staticmethod
    def _val(f):
        try:
            v = f()
            return {"err": "(AssertFail 9)"} if v is None else {"ok": fr(v)}
        except Exception as e:  # noqa
            return {"err": C.err(e)}

    def run_impl(self, case):
        from spice_ev.loading_curve import LoadingCurve
        out = []
        try:
            c = LoadingCurve([tuple(Ex(v) for v in p) for p in case["pts"]])
        except Exception as e:  # noqa
            return [{"curve_err": C.err(e)}]
        out.append(self._curve_out(c, []))
        for o in case["ops"]:
            if o["op"] == "lookup":
                out.append(self._val(lambda: c.power_from_soc(Ex(o["s"]))))
            elif o["op"] == "secb":
                try:
                    i1, i2 = c.get_section_boundary(Ex(o["s"]))
                    out.append({"sec": [i1, i2]})
                except Exception as e:  # noqa
                    out.append({"sec_err": C.err(e)})
            elif o["op"] == "clamp":
                try:
                    c2 = c.clamped(Ex(o["lim"]), pre_scale=Ex(o["pre"]), post_scale=Ex(o["post"]))
                    out.append(self._curve_out(c2, o["ss"]))
                except Exception as e:  # noqa
                    out.append({"curve_err": C.err(e)})
            else:
                comp = _components()
                try:
                    vt = comp.VehicleType({"name": "t", "capacity": Ex(50), "v2g": True,
                                           "charging_curve": [tuple(Ex(v) for v in p) for p in case["pts"]],
                                           "v2g_power_factor": Ex(o["factor"])})
                    out.append(self._curve_out(vt.discharge_curve, o["ss"]))
                except Exception as e:  # noqa
                    out.append({"curve_err": C.err(e)})
        return out

    # ---- Coq
    def emit(self, case, out):
        ops = []
        for o in case["ops"]:
            if o["op"] == "lookup":
                ops.append("OLookup %s" % C.q(o["s"]))
            elif o["op"] == "secb":
                ops.append("OSecb %s" % C.q(o["s"]))
            elif o["op"] == "clamp":
                ops.append("OClamp %s %s %s %s" % (C.q(o["lim"]), C.q(o["pre"]), C.q(o["post"]),
                                                    C.lst(C.q(s) for s in o["ss"])))
            else:
                ops.append("OV2G %s %s" % (C.q(o["factor"]), C.lst(C.q(s) for s in o["ss"])))
        exp = []
        for r in out:
            if "curve_err" in r:
                exp.append("RCurve (Err %s)" % r["curve_err"])
            elif "pts" in r:
                exp.append("RCurve (Ok (%s, %s, %s))" % (
                    C.lst("(%s,%s)" % (C.q(a), C.q(b_)) for a, b_ in r["pts"]), C.q(r["maxp"]),
                    C.lst(self._rq(v) for v in r["vals"])))
            elif "sec" in r:
                exp.append("RSec (Ok (%d%%nat,%d%%nat))" % tuple(r["sec"]))
            elif "sec_err" in r:
                exp.append("RSec (Err %s)" % r["sec_err"])
            else:
                exp.append("RVal (%s)" % self._rq(r))
        return "{| cc_pts := %s; cc_ops := %s; cc_exp := %s |}" % (
            C.lst("(%s,%s)" % (C.q(a), C.q(b_)) for a, b_ in case["pts"]), C.lst(ops), C.lst(exp))

    @staticmethod
    def _rq(v):
        return "Ok %s" % C.q(v["ok"]) if "ok" in v else "Err %s" % v["err"]

    # ---- the property, stated independently of the model, on implementation behaviour
    def check_property(self, case, out):
        pts = sorted(([fr(a), fr(b_)] for a, b_ in case["pts"]), key=lambda p: p[0])
        xs = [p[0] for p in pts]
        wf = (len(pts) >= 2 and xs[0] == 0 and xs[-1] == 1 and all(a < b_ for a, b_ in zip(xs, xs[1:]))
              and all(p[1] >= 0 for p in pts))
        if not wf:
            return []
        v = []

        def spec(s):
            for (a, pa), (b_, pb) in zip(pts, pts[1:]):
                if a <= s <= b_:
                    return pa + (pb - pa) * (s - a) / (b_ - a)
            return None
        if "curve_err" in out[0]:
            return [("C03/constructor-rejects-valid", "LoadingCurve rejects a well-formed curve: %s" % out[0])]
        if out[0]["maxp"] != max(p[1] for p in pts):
            v.append(("C03/max_power", "max_power %s != max over points" % out[0]["maxp"]))
        for o, r in zip(case["ops"], out[1:]):
            if o["op"] == "lookup" and 0 <= o["s"] <= 1:
                if r.get("ok") != spec(o["s"]):
                    v.append(("C03/lookup", "power_from_soc(%s) = %s, interpolation gives %s" % (o["s"], r, spec(o["s"]))))
            if o["op"] in ("clamp", "v2g"):
                if o["op"] == "clamp":
                    lim, pre, post = o["lim"], o["pre"], o["post"]
                    if not (lim >= 0 and pre > 0 and post > 0):
                        continue
                    cls = "C03/clamped-pointwise"
                else:
                    lim, pre, post = max(p[1] for p in pts), o["factor"], F(1)
                    if not (0 < pre <= 1):
                        continue
                    cls = "C03/default-discharge"
                if "curve_err" in r:
                    v.append((cls, "clamped raised %s on a well-formed curve" % r["curve_err"]))
                    continue

                def want(s):
                    return post * min(pre * spec(s), lim)
                rp = r["pts"]
                rx = [p[0] for p in rp]
                if not (rx[0] == 0 and rx[-1] == 1 and all(a <= b_ for a, b_ in zip(rx, rx[1:]))):
                    v.append((cls, "clamped curve is not ordered on [0,1]: %s" % rp))
                    continue
                for s, val in zip(o["ss"], r["vals"]):
                    if val.get("ok") != want(s):
                        v.append((cls, "clamped(lim=%s,pre=%s,post=%s)(%s) = %s, expected post*min(pre*curve(s),lim) = %s; curve %s"
                                  % (lim, pre, post, s, val, want(s), pts)))
                        break
                # the result is piecewise linear between its own points: check them and the section midpoints
                for (a, pa), (b_, pb) in zip(rp, rp[1:]):
                    if pa != want(a) and not any(x == a and y == want(a) for x, y in rp):
                        v.append((cls, "clamped point (%s,%s) off the spec value %s; curve %s lim=%s pre=%s post=%s"
                                  % (a, pa, want(a), pts, lim, pre, post)))
                        break
                    if a < b_ and (pa + pb) / 2 != want((a + b_) / 2):
                        v.append((cls, "clamped section [%s,%s] is not the spec at its midpoint; curve %s lim=%s pre=%s post=%s"
                                  % (a, b_, pts, lim, pre, post)))
                        break
                if r["maxp"] != max(p[1] for p in rp):
                    v.append(("C03/max_power", "max_power of clamped curve %s != max over its points" % r["maxp"]))
        return v


UNIT = CurveUnit()
TRUSTED = ["harness shadows builtins.float inside spice_ev.components so VehicleType keeps exact numbers"]
RULE = ("random curves: 1-5 sections on rational grids (and random doubles), 8 shapes incl. zero end points, shuffled input, "
        "8% malformed (missing 0/1, duplicates, single, empty); 1-4 operations each (lookup / clamped with limit, pre, post / "
        "section boundary / VehicleType default discharge curve), probes at breakpoints, midpoints, random SoCs; "
        "non-trivial = distinct case whose model tag != None; tag 1 = clamping inserted crossing points, 2 = an error path")


def run(tier):
    def extra(rep, tier_, sd):
        # the derived discharge curve of a vehicle type and the curve a component's battery is built with (components.py)
        import c01
        c01.components_glue(rep, tier_, sd)
    # the battery unit exercises the clamping to a curve's own maximum through Battery.load/unload (round-3 seed C03-s6)
    import c01
    return corr.standard_run("C03", tier, [UNIT, c01.UNIT], {"curve": 600, "battery": 250}, {"curve": 6000, "battery": 2500}, TRUSTED, RULE, extra=extra)


def replay(payload):
    inp = payload["input"]
    if inp.get("unit") in ("glue", "battery"):
        import c01
        return c01.replay(payload)
    case = inp["case"]
    out = UNIT.run_impl(case)
    v = UNIT.check_property(case, out)
    for cls, what in v:
        print("VIOLATION-REPLAY %s: %s" % (cls, what))
    print("replay: %d violation(s)" % len(v))
    return 1 if v else 0
