"""Pool of exact simulation runs (all strategies) with per-step snapshots, the RunLoop
correspondence unit, and the implementation-level predicates of C04/C05/C06/C17."""
import datetime
import json
import os
import random
import shutil
import tempfile
from fractions import Fraction as F

import common as C
import corr
import scen
from ex import fr

EPS = F(1e-5)


# ------------------------------------------------------------------ running
class StepHook:
    """class-level patch of the concrete strategy's step(): records raises, injects faults"""

    def __init__(self, rec, inject_at=None):
        self.rec, self.inject_at = rec, inject_at
        self.errors = {}

    def install(self, cls):
        self.cls, self.orig = cls, cls.step
        hook = self

        def step(s, *a, **k):
            if s is not hook.rec.strat:
                return hook.orig(s, *a, **k)
            i = len(hook.rec.steps) - 1
            if hook.inject_at is not None and i == hook.inject_at:
                hook.errors[i] = "Injected"
                raise RuntimeError("injected fault")
            try:
                return hook.orig(s, *a, **k)
            except Exception as e:  # noqa
                hook.errors[i] = type(e).__name__
                raise
        cls.step = step

    def remove(self):
        self.cls.step = self.orig


class Timeout(BaseException):
    pass


def _json_default(self, o):
    from ex import Ex
    if isinstance(o, Ex):
        return float(o)
    raise TypeError("not JSON serializable: %r" % (o,))


def run_record(js, strategy, options=None, inject_at=None, tmpdir=None, reports=False, time_limit=60):
    """one exact run -> record dict (everything as Fractions / plain data).
    reports: also write results JSON / timeseries CSV / SoC CSV (report generation is part of the run)."""
    import contextlib
    import io
    import warnings
    import c01
    c01.install()
    from spice_ev import scenario as sc, strategy as st
    import copy
    js2 = copy.deepcopy(js)
    feats = js2.pop("_features", [])
    opts = {"skip_flex_report": True}
    opts.update(options or {})
    rdir = None
    if reports:
        rdir = tempfile.mkdtemp(prefix="verif_rep_")
        opts.update({"testing": True, "save_results": os.path.join(rdir, "r.json"), "save_timeseries": os.path.join(rdir, "t.csv"),
                     "save_soc": os.path.join(rdir, "s.csv")})
    json.JSONEncoder.default = _json_default
    buf = io.StringIO()
    raised = None
    import signal

    def on_alarm(*a):
        raise Timeout()
    old_alarm = signal.signal(signal.SIGVTALRM, on_alarm)
    with warnings.catch_warnings():
        warnings.simplefilter("ignore")
        with contextlib.redirect_stdout(buf):
            s = sc.Scenario(js2, tmpdir or "")
            scen.exactify(s.components)
            scen.exactify(s.events)
            cls = st.class_from_str(strategy)
            with scen.Recorder() as rec:
                hook = StepHook(rec, inject_at)
                hook.install(cls)
                try:
                    signal.setitimer(signal.ITIMER_VIRTUAL, time_limit)   # CPU time of this process: independent of machine load
                    s.run(strategy, opts)
                except Timeout:
                    raised = "Timeout(%ds)" % time_limit
                except Exception as e:  # noqa
                    raised = repr(e)[:300]
                finally:
                    signal.setitimer(signal.ITIMER_VIRTUAL, 0)
                    signal.signal(signal.SIGVTALRM, old_alarm)
                    hook.remove()
    if raised is not None and raised.startswith("Timeout"):
        # exact rationals can make a look-ahead strategy arbitrarily slow (digit growth): only a run that also
        # exceeds the limit in plain float arithmetic (no recorder, no exact numbers) counts as not terminating
        old_alarm = signal.signal(signal.SIGVTALRM, on_alarm)
        try:
            with warnings.catch_warnings():
                warnings.simplefilter("ignore")
                with contextlib.redirect_stdout(io.StringIO()):
                    s2 = sc.Scenario(copy.deepcopy(js2), tmpdir or "")
                    signal.setitimer(signal.ITIMER_VIRTUAL, 60)
                    s2.run(strategy, dict(opts))
            raised = "ExactTooSlow"
        except Timeout:
            raised = "Timeout(%ds exact, 60s float)" % time_limit
        except Exception:  # noqa
            raised = "ExactTooSlow"
        finally:
            signal.setitimer(signal.ITIMER_VIRTUAL, 0)
            signal.signal(signal.SIGVTALRM, old_alarm)
    files = {}
    if rdir:
        names = sorted(os.listdir(rdir))
        files["json"] = len([x for x in names if x.startswith("r") and x.endswith(".json")])
        files["csv"] = [len(open(os.path.join(rdir, x)).read().splitlines()) for x in names if x.startswith("t") and x.endswith(".csv")]
        if "s.csv" in names:
            files["s.csv"] = len(open(os.path.join(rdir, "s.csv")).read().splitlines())
        import csv as _csv
        files["tables"] = {x: list(_csv.DictReader(open(os.path.join(rdir, x)))) for x in names if x.endswith(".csv")}
        files["jsons"] = {x: json.load(open(os.path.join(rdir, x))) for x in names if x.endswith(".json")}
        shutil.rmtree(rdir, ignore_errors=True)
    r = {"strategy": strategy, "options": {k: v for k, v in (options or {}).items()}, "features": feats, "js": js,
         "raised": raised, "phase": "run" if (rec.steps or js["scenario"].get("n_intervals") == 0) else "init", "reports": reports, "files": files, "inject_at": inject_at, "n_intervals": s.n_intervals, "steps": rec.steps,
         "strat_errors": hook.errors, "stdout_tail": buf.getvalue()[-400:]}
    if raised is None:
        gcs = list(s.components.grid_connectors.keys())
        r.update({
            "step_i": s.step_i, "aborted": "(ABORTED)" in str(s.strat.description), "gc_ids": gcs,
            "totalLoad": {g: [fr(x) for x in s.totalLoad[g]] for g in gcs},
            "localGen": {g: [fr(x) for x in s.localGenerationPower[g]] for g in gcs},
            "len": {"socs": len(s.socs), "results": len(s.results), "connected": len(s.connected), "disconnect": len(s.disconnect),
                    "prices": [len(s.prices[g]) for g in gcs], "totalLoad": [len(s.totalLoad[g]) for g in gcs],
                    "fixedLoads": [len(s.fixedLoads[g]) for g in gcs], "connChargeByTS": [len(s.connChargeByTS[g]) for g in gcs],
                    "gcPowerSchedule": [len(s.gcPowerSchedule[g]) for g in gcs], "localGen": [len(s.localGenerationPower[g]) for g in gcs],
                    "batteryLevels": [len(v) for v in s.batteryLevels.values()]},
            "gen_keys": list(s.events.local_generation_lists.keys()),
            "cs_keys": list(s.components.charging_stations.keys()),
            "bat_keys": list(s.components.batteries.keys()),
            "commands": [dict((k, fr(v)) for k, v in res["commands"].items()) for res in s.results],
            "ts_per_hour": fr(s.strat.ts_per_hour), "eps": fr(s.strat.EPS),
            "veh": {k: {"cap": fr(v.battery.capacity), "eff": fr(v.battery.efficiency), "v2g": bool(v.vehicle_type.v2g),
                        "lc": [[fr(a), fr(b_)] for a, b_ in v.battery.loading_curve.points],
                        "uc": [[fr(a), fr(b_)] for a, b_ in v.battery.unloading_curve.points]}
                    for k, v in s.strat.world_state.vehicles.items()},
            "bat": {k: {"cap": fr(v.capacity), "eff": fr(v.efficiency), "parent": v.parent, "loss": dict(v.loss_rate or {})}
                    for k, v in s.strat.world_state.batteries.items()},
            "cs_max0": {k: fr(v.max_power) for k, v in s.components.charging_stations.items()},
            "static": static_info(s),
        })
    return r


def static_info(s):
    """time-invariant parameters of the strategy's world (for the step-level model)"""
    ws = s.strat.world_state

    def batp(b):
        return {"cap": fr(b.capacity), "eff": fr(b.efficiency), "eps": fr(b.EPS),
                "lc": [[fr(a), fr(b_)] for a, b_ in b.loading_curve.points], "uc": [[fr(a), fr(b_)] for a, b_ in b.unloading_curve.points]}
    return {
        "veh": {k: dict(batp(v.battery), minp=fr(v.vehicle_type.min_charging_power), v2g=bool(v.vehicle_type.v2g),
                        dlimit=fr(v.vehicle_type.discharge_limit)) for k, v in ws.vehicles.items()},
        "bat": {k: dict(batp(b), parent=b.parent, minp=fr(b.min_charging_power)) for k, b in ws.batteries.items()},
        "veh_order": list(ws.vehicles.keys()), "veh_sorted": sorted(ws.vehicles),
        "eps": fr(s.strat.EPS), "thresh": fr(s.strat.PRICE_THRESHOLD), "tsph": fr(s.strat.ts_per_hour),
        "hours": fr(s.strat.interval.total_seconds() / 3600), "interval_us": s.strat.interval // datetime.timedelta(microseconds=1),
    }


SLOW = ("balanced_market", "peak_shaving", "flex_window", "peak_load_window", "schedule")


def tw_file(tmpdir, rng, start):
    """time-window file for peak_load_window covering the scenario date"""
    a = rng.choice([6, 8, 17])
    p = os.path.join(tmpdir, "tw.json")
    json.dump({"default_grid_operator": {"all": {"start": "%d-01-01" % start.year, "end": "%d-12-31" % start.year, "windows": {
        lv: [["%02d:00" % a, "%02d:00" % (a + rng.choice([2, 4]))], ["22:00", "01:00"]] for lv in ("HV", "MV", "LV")}}}}, open(p, "w"))
    return p


def ensure_battery(js):
    """gen_scenario adds the requested stationary battery only with probability 0.8: the families built around one make sure"""
    if not js["components"]["batteries"]:
        gid = list(js["components"]["grid_connectors"])[0]
        js["components"]["batteries"]["BAT1"] = {"parent": gid, "capacity": 50, "charging_curve": [[0, 10], [1, 10]], "soc": 0.5, "efficiency": 0.95}


def directed(rng):
    """hand-designed families around feature interplay that random sampling rarely reaches; yields (js, strategy, options)"""
    out = []
    # D1: cheap price + local surplus + stations rated below the vehicle power (greedy / balanced / distributed)
    for _ in range(3):
        js = scen.gen_scenario(rng, n_gc=1, n_veh=rng.randint(1, 3), features={"generation", "price"}, steps=rng.choice([6, 10]), interval=rng.choice([15, 60]))
        gid = list(js["components"]["grid_connectors"])[0]
        for cs in js["components"]["charging_stations"].values():
            cs["max_power"] = rng.choice([3.7, 11])
        for vt in js["components"]["vehicle_types"].values():
            vt["charging_curve"] = [[0, 22], [1, 22]]
        for v in js["components"]["vehicles"].values():
            v["soc"] = rng.choice([0.2, 0.5])
        for sig in js["events"]["grid_operator_signals"]:
            if "cost" in sig:
                sig["cost"] = {"type": "fixed", "value": rng.choice([0, -0.1, 0.05])}
        js["components"]["grid_connectors"][gid]["cost"] = {"type": "fixed", "value": 0}
        for g in js["events"]["local_generation"].values():
            g["values"] = [rng.choice([40, 60, 25]) for _ in g["values"]]
        for st in ("greedy", "balanced", "distributed"):
            out.append((js, st, {"PRICE_THRESHOLD": rng.choice([0, 0.1])}))
    # D2: V2G vehicle at a station rated below its discharge power, price high now and cheap later (look-ahead strategies, greedy)
    for _ in range(2):
        js = scen.gen_scenario(rng, n_gc=1, n_veh=2, features={"v2g", "price", "fixed"}, steps=10, interval=60)
        gid = list(js["components"]["grid_connectors"])[0]
        start = datetime.datetime.fromisoformat(js["scenario"]["start_time"])
        for vt in js["components"]["vehicle_types"].values():
            vt.update({"v2g": True, "v2g_power_factor": 1, "discharge_limit": 0.2, "charging_curve": [[0, 22], [1, 22]]})
        for cs in js["components"]["charging_stations"].values():
            cs["max_power"] = 11
        for v in js["components"]["vehicles"].values():
            v.update({"soc": 0.9, "desired_soc": 0.5})
        js["events"]["grid_operator_signals"] = [
            {"signal_time": scen.iso(start), "start_time": scen.iso(start + datetime.timedelta(hours=k)), "grid_connector_id": gid,
             "cost": {"type": "fixed", "value": c}} for k, c in ((0, 0.5), (3, 0.05), (6, 0.4))]
        for st in ("balanced_market", "greedy", "balanced", "peak_shaving"):
            out.append((js, st, {"ALLOW_NEGATIVE_SOC": True}))
    # D4: stationary battery with a minimum charging power and a local surplus below it (price above the threshold)
    for _ in range(2):
        js = scen.gen_scenario(rng, n_gc=1, n_veh=1, features={"battery", "generation"}, steps=6, interval=60)
        ensure_battery(js)
        for b in js["components"]["batteries"].values():
            b.update({"min_charging_power": rng.choice([5, 3]), "soc": 0.3, "capacity": 50})
        for v in js["components"]["vehicles"].values():
            v.update({"soc": 1.0, "desired_soc": 0.5})
        for g in js["events"]["local_generation"].values():
            g["values"] = [rng.choice([2, 1, 2.5, 0]) for _ in g["values"]]
        for st in ("greedy", "balanced"):
            out.append((js, st, {}))
    # D3: stationary battery + cheap price + limit below the rating from the start
    for _ in range(2):
        js = scen.gen_scenario(rng, n_gc=1, n_veh=2, features={"battery", "price", "limit", "fixed"}, steps=8, interval=60)
        ensure_battery(js)
        gid = list(js["components"]["grid_connectors"])[0]
        start = datetime.datetime.fromisoformat(js["scenario"]["start_time"])
        for b in js["components"]["batteries"].values():
            b["soc"] = 0.1
        js["components"]["grid_connectors"][gid]["cost"] = {"type": "fixed", "value": -0.1}
        js["events"]["grid_operator_signals"].append({"signal_time": scen.iso(start), "start_time": scen.iso(start + datetime.timedelta(hours=2)),
                                                      "grid_connector_id": gid, "max_power": js["components"]["grid_connectors"][gid]["max_power"] / 2})
        for st in ("greedy", "balanced", "distributed", "balanced_market", "peak_shaving"):
            out.append((js, st, {}))
    # D8: several vehicles (curve below the station rating) compete for a tight connector that a stationary battery supports
    for _ in range(2):
        js = scen.gen_scenario(rng, n_gc=1, n_veh=3, features={"battery", "fixed"}, steps=6, interval=rng.choice([15, 60]))
        gid = list(js["components"]["grid_connectors"])[0]
        start = datetime.datetime.fromisoformat(js["scenario"]["start_time"])
        js["components"]["grid_connectors"][gid].update({"max_power": 20, "cost": {"type": "fixed", "value": 0.3}})
        js["components"]["batteries"] = {"BAT1": {"parent": gid, "capacity": 100, "charging_curve": [[0, 30], [1, 30]], "soc": 0.8}}
        for vt in js["components"]["vehicle_types"].values():
            vt["charging_curve"] = [[0, 11], [1, 11]]
            vt.pop("v2g", None)
        for cs in js["components"]["charging_stations"].values():
            cs["max_power"] = 50
            cs.pop("min_power", None)
        for k, (vid, v) in enumerate(js["components"]["vehicles"].items()):
            csid = [c for c in js["components"]["charging_stations"] if vid in c][0]
            v.update({"soc": 0.2, "desired_soc": 0.9, "connected_charging_station": csid,
                      "estimated_time_of_departure": scen.iso(start + datetime.timedelta(hours=30))})
        js["events"]["vehicle_events"] = []
        js["events"]["grid_operator_signals"] = []
        for f in js["events"]["fixed_load"].values():
            f["values"] = [rng.choice([8, 12, 15]) for _ in f["values"]]
        for st in ("greedy", "balanced"):
            out.append((js, st, {}))
    # D5: schedule strategy, stationary battery, fixed load, scheduled target above a limit lowered by the operator; vehicles full
    for _ in range(2):
        js = scen.gen_scenario(rng, n_gc=1, n_veh=1, features={"battery", "fixed"}, steps=8, interval=60)
        ensure_battery(js)
        gid = list(js["components"]["grid_connectors"])[0]
        start = datetime.datetime.fromisoformat(js["scenario"]["start_time"])
        rating = js["components"]["grid_connectors"][gid]["max_power"]
        for b in js["components"]["batteries"].values():
            b.update({"soc": 0.2, "capacity": 500, "charging_curve": [[0, rating], [1, rating]]})
        for v in js["components"]["vehicles"].values():
            v.update({"soc": 1.0, "desired_soc": 0.5})
        for e in js["events"]["vehicle_events"]:
            if e["event_type"] == "arrival":
                e["update"].update({"soc_delta": 0, "desired_soc": 0.5})
        for f in js["events"]["fixed_load"].values():
            f["values"] = [round(rating * rng.choice([0.1, 0.2, 0.3]), 2) for _ in f["values"]]
        js["events"]["grid_operator_signals"] = [
            {"signal_time": scen.iso(start), "start_time": scen.iso(start), "grid_connector_id": gid, "target": round(rating * 0.8, 2), "window": True},
            {"signal_time": scen.iso(start), "start_time": scen.iso(start + datetime.timedelta(hours=rng.choice([2, 3]))), "grid_connector_id": gid,
             "max_power": round(rating * 0.5, 2)}]
        js["scenario"]["core_standing_time"] = {"times": [{"start": [22, 0], "end": [5, 0]}], "no_drive_days": [6]}
        # (individual mode needs per-vehicle schedules, which this family does not carry: it would stop at step 0; one draw is kept
        # so that the scenarios generated after this family stay the same)
        rng.choice(["collective", "individual"])
        out.append((js, "schedule", {"LOAD_STRAT": "collective", "ALLOW_NEGATIVE_SOC": True}))
    rngd = random.Random("directed-9-12")     # private stream: families added later must not shift the scenarios drawn after them
    # D9: overdue vehicles - still plugged in at/after their estimated time of departure (the real departure comes later or
    # never), several of them behind one tight connector, stations rated below the vehicle curve (round-3 seeds C04-s7, C05-s8)
    for k9 in range(3):
        n9 = rngd.choice([6, 8])
        iv = rngd.choice([15, 60])
        start = datetime.datetime.fromisoformat("2023-01-02T08:00:00" + scen.TZ)
        lim = rngd.choice([10, 16])
        fixed = rngd.choice([0, 2, 3])
        nv = rngd.choice([2, 3])
        js = {"scenario": {"start_time": scen.iso(start), "interval": iv, "n_intervals": n9},
              "components": {
                  "vehicle_types": {"car": {"name": "car", "capacity": rngd.choice([40, 60]), "charging_curve": [[0, 22], [1, 22]],
                                            "min_charging_power": 0, "battery_efficiency": 0.95}},
                  "vehicles": {}, "charging_stations": {},
                  "grid_connectors": {"GC1": {"max_power": lim, "cost": {"type": "fixed", "value": 0.3}}},
                  "batteries": {}, "photovoltaics": {}},
              "events": {"fixed_load": {}, "local_generation": {}, "grid_operator_signals": [], "vehicle_events": []}}
        if fixed:
            js["events"]["fixed_load"]["building"] = {"start_time": scen.iso(start), "step_duration_s": iv * 60, "grid_connector_id": "GC1",
                                                      "values": [fixed] * n9}
        for i in range(nv):
            # estimated departure before the start (k9 = 0), or during the run while the real departure event comes later / never
            etd = start + datetime.timedelta(minutes=iv * (rngd.choice([-4, -2]) if k9 == 0 else rngd.choice([1, 2])))
            js["components"]["vehicles"]["car_%d" % i] = {"vehicle_type": "car", "connected_charging_station": "CS_%d" % i,
                                                          "estimated_time_of_departure": scen.iso(etd), "desired_soc": 1.0,
                                                          "soc": rngd.choice([0.1, 0.2])}
            js["components"]["charging_stations"]["CS_%d" % i] = {"max_power": 11, "min_power": 0, "parent": "GC1"}
        if k9 == 2:
            js["events"]["vehicle_events"].append({"signal_time": scen.iso(start), "start_time": scen.iso(start + datetime.timedelta(minutes=iv * (n9 - 1))),
                                                   "vehicle_id": "car_0", "event_type": "departure",
                                                   "update": {"estimated_time_of_arrival": scen.iso(start + datetime.timedelta(days=2))}})
        for st in ("greedy", "balanced", "distributed", "peak_shaving", "balanced_market"):
            o = {}
            if st in ("greedy", "balanced", "distributed") and k9 == 1:
                o["CONCURRENCY"] = 0.5
            if st == "peak_shaving" and k9 == 1:
                o["perfect_foresight"] = False
            out.append((js, st, o))
    # D10: look-ahead planning with several vehicles behind one connector whose limit binds; the first-planned vehicle is nearly
    # full on a tapering curve, the others want more than the head room (round-3 seed C04-s8); half the cases with a limit signal
    for k10 in range(2):
        n10 = rngd.choice([6, 8])
        start = datetime.datetime.fromisoformat("2023-01-02T08:00:00" + scen.TZ)
        rating = 20
        js = {"scenario": {"start_time": scen.iso(start), "interval": 60, "n_intervals": n10},
              "components": {
                  "vehicle_types": {"car": {"name": "car", "capacity": 40, "charging_curve": [[0, 11], [0.8, 11], [1, rngd.choice([1, 2])]],
                                            "min_charging_power": 0, "battery_efficiency": 0.95}},
                  "vehicles": {}, "charging_stations": {},
                  "grid_connectors": {"GC1": {"max_power": rating if k10 == 0 else 10, "cost": {"type": "fixed", "value": 0.3}}},
                  "batteries": {}, "photovoltaics": {}},
              "events": {"fixed_load": {}, "local_generation": {}, "vehicle_events": [],
                         "grid_operator_signals": [{"signal_time": scen.iso(start), "start_time": scen.iso(start), "grid_connector_id": "GC1",
                                                    "max_power": 10}] if k10 == 0 else []}}
        for i, s0 in enumerate([rngd.choice([0.9, 0.93, 0.95]), 0.2, 0.3][:rngd.choice([2, 3])]):
            js["components"]["vehicles"]["car_%d" % i] = {"vehicle_type": "car", "connected_charging_station": "CS_%d" % i,
                                                          "estimated_time_of_departure": scen.iso(start + datetime.timedelta(hours=n10 - 1 - i)),
                                                          "desired_soc": 1.0, "soc": s0}
            js["components"]["charging_stations"]["CS_%d" % i] = {"max_power": 11, "min_power": 0, "parent": "GC1"}
        for st in ("balanced_market", "peak_shaving", "balanced", "greedy"):
            out.append((js, st, {}))
    # D11: flex_window / schedule with a V2G vehicle and no local surplus (round-3 seed C06-s7: look-ahead must not touch the real battery)
    for k11 in range(2):
        js = scen.gen_scenario(rngd, n_gc=1, n_veh=2, features={"v2g", "fixed"}, steps=8, interval=60)
        gid = list(js["components"]["grid_connectors"])[0]
        start = datetime.datetime.fromisoformat(js["scenario"]["start_time"])
        for vt in js["components"]["vehicle_types"].values():
            vt.update({"v2g": True, "v2g_power_factor": rngd.choice([0.5, 1]), "discharge_limit": 0.3})
        for v in js["components"]["vehicles"].values():
            v.update({"soc": rngd.choice([0.7, 0.8]), "desired_soc": 0.9})
        js["events"]["grid_operator_signals"] = [
            {"signal_time": scen.iso(start), "start_time": scen.iso(start + datetime.timedelta(hours=k)), "grid_connector_id": gid,
             "window": bool((k // 2) % 2)} for k in range(0, 8, 2)]
        js["scenario"]["core_standing_time"] = {"times": [{"start": [22, 0], "end": [5, 0]}], "no_drive_days": [6]}
        for ls in ("balanced", "greedy"):
            out.append((js, "flex_window", {"LOAD_STRAT": ls, "ALLOW_NEGATIVE_SOC": True}))
    # D12: distributed, stationary battery (efficiency != 0.95, minimum charging power) at an opportunity-station connector, steps
    # without a vehicle there and an arrival within the charging horizon (round-3 seed C02-s8: the battery is charged through a
    # virtual vehicle built from its data)
    for k12 in range(2):
        start = datetime.datetime.fromisoformat("2023-01-02T08:00:00" + scen.TZ)
        n12, iv = 8, rngd.choice([15, 30])
        js = {"scenario": {"start_time": scen.iso(start), "interval": iv, "n_intervals": n12},
              "components": {
                  "vehicle_types": {"bus": {"name": "bus", "capacity": 200, "charging_curve": [[0, 150], [0.8, 150], [1, 15]], "battery_efficiency": 0.9}},
                  "vehicles": {"bus_0": {"vehicle_type": "bus", "soc": 0.9, "desired_soc": 1.0}},
                  "grid_connectors": {"GC1": {"max_power": rngd.choice([100, 200]), "cost": {"type": "fixed", "value": 0.3}}},
                  "charging_stations": {"CS_bus_0_opps": {"max_power": 150, "min_power": 0, "parent": "GC1"}},
                  "batteries": {"BAT1": {"parent": "GC1", "capacity": rngd.choice([100, 150]), "charging_curve": [[0, 60], [1, 60]], "soc": 0.2,
                                         "efficiency": rngd.choice([0.8, 0.7]), "min_charging_power": rngd.choice([0, 5])}},
                  "photovoltaics": {}},
              "events": {"fixed_load": {}, "local_generation": {}, "grid_operator_signals": [],
                         "vehicle_events": [{"signal_time": scen.iso(start), "start_time": scen.iso(start + datetime.timedelta(minutes=iv * 4)),
                                             "vehicle_id": "bus_0", "event_type": "arrival",
                                             "update": {"connected_charging_station": "CS_bus_0_opps", "soc_delta": -0.5, "desired_soc": 1.0,
                                                        "estimated_time_of_departure": scen.iso(start + datetime.timedelta(minutes=iv * 6))}},
                                            {"signal_time": scen.iso(start), "start_time": scen.iso(start + datetime.timedelta(minutes=iv * 6)),
                                             "vehicle_id": "bus_0", "event_type": "departure",
                                             "update": {"estimated_time_of_arrival": scen.iso(start + datetime.timedelta(days=1))}}]}}
        out.append((js, "distributed", {}))
    # D14: flex_window greedy / needy with a fixed-load series that is NOT on the step grid (the weekly-average forecast differs from
    # the load actually present), demand high enough that head room binds (round-4 seed C04-s10: the allocation paths that use the
    # actual load must keep using it)
    rng14 = random.Random("d14")       # private stream: the scenarios drawn after the directed families stay what they were
    for k14 in range(2):
        start = datetime.datetime.fromisoformat("2023-01-02T00:00:00" + scen.TZ)
        n14 = 8
        lim = rng14.choice([10, 12])
        vals = [rng14.choice([8, 6]), 0, 0, rng14.choice([0, 5]), 0, 0, 0, 0]
        js = {"scenario": {"start_time": scen.iso(start), "interval": 15, "n_intervals": n14},
              "components": {
                  "vehicle_types": {"car": {"name": "car", "capacity": 100, "charging_curve": [[0, 22], [1, 22]]}},
                  "vehicles": {"v%d" % i: {"vehicle_type": "car", "soc": 0.5, "desired_soc": 0.6, "connected_charging_station": "CS%d" % i,
                                           "estimated_time_of_departure": scen.iso(start + datetime.timedelta(hours=2))} for i in range(k14 + 1)},
                  "grid_connectors": {"GC1": {"max_power": lim, "cost": {"type": "fixed", "value": 0.3}}},
                  "charging_stations": {"CS%d" % i: {"max_power": 22, "parent": "GC1"} for i in range(k14 + 1)},
                  "batteries": {}, "photovoltaics": {}},
              "events": {"fixed_load": {"building": {"start_time": scen.iso(start + datetime.timedelta(minutes=5)), "step_duration_s": 900,
                                                     "grid_connector_id": "GC1", "values": vals}},
                         "local_generation": {},
                         "grid_operator_signals": [{"signal_time": scen.iso(start), "start_time": scen.iso(start), "grid_connector_id": "GC1", "window": True}],
                         "vehicle_events": []}}
        for ls in ("greedy", "needy"):
            out.append((js, "flex_window", {"LOAD_STRAT": ls}))
    return out


def pool(seed, tier, strategies=None, n_fast=None, n_slow=None, inject=False, feature_sets=None):
    """list of run records.  quick: ~45 fast scenarios x 3 fast strategies + ~8 small scenarios x slow strategies"""
    rng = random.Random("pool/%d" % seed)
    n_fast = n_fast if n_fast is not None else (140 if tier == "quick" else 420)
    n_slow = n_slow if n_slow is not None else (8 if tier == "quick" else 24)
    strategies = strategies or scen.STRATS
    recs = []
    tmp = tempfile.mkdtemp(prefix="verif_sim_")
    try:
        for js, st, opts in directed(rng):
            if st in strategies:
                recs.append(run_record(js, st, opts))
        if inject:
            # D7: peak_load_window with a stationary battery where no peak-load window lies ahead: the scenario starts after the
            # last window of the only season (the look-ahead for the next window change must stop at the end of the scenario)
            if "peak_load_window" in strategies:
                n7 = rng.choice([6, 8])
                js = {"scenario": {"start_time": "2020-01-31T12:00:00+01:00", "interval": 15, "n_intervals": n7},
                      "components": {
                          "vehicle_types": {"t": {"name": "t", "capacity": 50, "charging_curve": [[0, 11], [1, 11]]}},
                          "vehicles": {"v1": {"vehicle_type": "t", "soc": 0.5, "desired_soc": 0.8, "connected_charging_station": "cs1",
                                              "estimated_time_of_departure": "2020-01-31T13:30:00+01:00"}},
                          "grid_connectors": {"GC1": {"max_power": 100, "voltage_level": "MV", "grid_operator": "default_grid_operator",
                                                      "cost": {"type": "fixed", "value": 0.1}}},
                          "charging_stations": {"cs1": {"max_power": 11, "parent": "GC1"}},
                          "batteries": {"BAT1": {"parent": "GC1", "capacity": 20, "soc": 0.5, "charging_curve": [[0, 10], [1, 10]]}},
                          "photovoltaics": {}},
                      "events": {"grid_operator_signals": [], "fixed_load": {}, "local_generation": {}, "vehicle_events": []}}
                p = os.path.join(tmp, "tw_january.json")
                json.dump({"default_grid_operator": {"january": {"start": "2020-01-01", "end": "2020-01-31",
                                                                  "windows": {"MV": [["08:00", "09:00"]]}}}}, open(p, "w"))
                recs.append(run_record(js, "peak_load_window", {"time_windows": p, "ALLOW_NEGATIVE_SOC": True}, time_limit=30))
        if inject and "schedule" in strategies:
            # D13: schedule (collective) inside the core standing time with less scheduled power than the vehicle's minimum charging
            # power while the station has no minimum (round-3 seed C17-s7: the retry queue must still empty)
            rng13 = random.Random("pool-d13/%d" % seed)
            for k13 in range(2):
                start13 = datetime.datetime.fromisoformat("2023-01-02T22:00:00" + scen.TZ)
                n13 = 6
                js = {"scenario": {"start_time": scen.iso(start13), "interval": 60, "n_intervals": n13,
                                   "core_standing_time": {"times": [{"start": [22, 0], "end": [5, 0]}], "no_drive_days": [6]}},
                      "components": {
                          "vehicle_types": {"t": {"name": "t", "capacity": 50, "charging_curve": [[0, 11], [1, 11]],
                                                  "min_charging_power": rng13.choice([3, 4])}},
                          "vehicles": {"v%d" % i: {"vehicle_type": "t", "soc": 0.3, "desired_soc": 0.9, "connected_charging_station": "cs%d" % i,
                                                   "estimated_time_of_departure": scen.iso(start13 + datetime.timedelta(hours=7))}
                                       for i in range(k13 + 1)},
                          "grid_connectors": {"GC1": {"max_power": 50, "cost": {"type": "fixed", "value": 0.1}}},
                          "charging_stations": {"cs%d" % i: {"max_power": 11, "min_power": 0, "parent": "GC1"} for i in range(k13 + 1)},
                          "batteries": {}, "photovoltaics": {}},
                      "events": {"fixed_load": {}, "local_generation": {}, "vehicle_events": [],
                                 "grid_operator_signals": [{"signal_time": scen.iso(start13), "start_time": scen.iso(start13 + datetime.timedelta(hours=h)),
                                                            "grid_connector_id": "GC1", "target": t_, "window": True}
                                                           for h, t_ in ((0, rng13.choice([2, 1.5])), (2, 5), (4, rng13.choice([2.5, 1])))]}}
                recs.append(run_record(js, "schedule", {"LOAD_STRAT": "collective", "ALLOW_NEGATIVE_SOC": True}, time_limit=15))
        if "peak_load_window" in strategies:
            # D15: peak_load_window with TWO stationary batteries (different SoC) behind one connector (round-4 seed C06-s10: per-battery
            # look-ahead state must stay per battery)
            rng15 = random.Random("pool-d15/%d" % seed)
            start15 = datetime.datetime.fromisoformat("2023-01-03T05:00:00" + scen.TZ)
            js = {"scenario": {"start_time": scen.iso(start15), "interval": 60, "n_intervals": 8},
                  "components": {
                      "vehicle_types": {"t": {"name": "t", "capacity": 60, "charging_curve": [[0, 11], [1, 11]]}},
                      "vehicles": {"v1": {"vehicle_type": "t", "soc": 0.3, "desired_soc": 0.9, "connected_charging_station": "cs1",
                                          "estimated_time_of_departure": scen.iso(start15 + datetime.timedelta(hours=7))}},
                      "grid_connectors": {"GC1": {"max_power": 60, "voltage_level": "MV", "grid_operator": "default_grid_operator",
                                                  "cost": {"type": "fixed", "value": 0.1}}},
                      "charging_stations": {"cs1": {"max_power": 11, "parent": "GC1"}},
                      "batteries": {"BAT1": {"parent": "GC1", "capacity": 100, "soc": rng15.choice([0.2, 0.3]), "charging_curve": [[0, 20], [1, 20]]},
                                    "BAT2": {"parent": "GC1", "capacity": 50, "soc": rng15.choice([0.8, 0.9]), "charging_curve": [[0, 10], [1, 10]]}},
                      "photovoltaics": {}},
                  "events": {"grid_operator_signals": [], "local_generation": {}, "vehicle_events": [],
                             "fixed_load": {"b": {"start_time": scen.iso(start15), "step_duration_s": 3600, "grid_connector_id": "GC1",
                                                  "values": [5, 5, 20, 25, 25, 10, 5, 5]}}}}
            recs.append(run_record(js, "peak_load_window", {"time_windows": tw_file(tmp, rng15, start15), "ALLOW_NEGATIVE_SOC": True}, time_limit=40))
        if "peak_load_window" in strategies:
            # D16: peak_load_window outside the windows, tapering curve, station rated below the vehicle, so little standing time that the
            # balanced power asked for is above the station rating (round-2 seed C05-s6: the clamped value is what is booked)
            rng16 = random.Random("pool-d16/%d" % seed)
            start16 = datetime.datetime.fromisoformat("2023-01-03T12:00:00" + scen.TZ)
            js = {"scenario": {"start_time": scen.iso(start16), "interval": 15, "n_intervals": 6},
                  "components": {
                      "vehicle_types": {"t": {"name": "t", "capacity": 100, "charging_curve": [[0, 22], [0.8, 22], [1, 5]]}},
                      "vehicles": {"v1": {"vehicle_type": "t", "soc": rng16.choice([0.1, 0.2]), "desired_soc": 1.0, "connected_charging_station": "cs1",
                                          "estimated_time_of_departure": scen.iso(start16 + datetime.timedelta(minutes=15 * rng16.choice([2, 3])))}},
                      "grid_connectors": {"GC1": {"max_power": 100, "voltage_level": "MV", "grid_operator": "default_grid_operator",
                                                  "cost": {"type": "fixed", "value": 0.1}}},
                      "charging_stations": {"cs1": {"max_power": 11, "parent": "GC1"}},
                      "batteries": {}, "photovoltaics": {}},
                  "events": {"grid_operator_signals": [], "local_generation": {}, "vehicle_events": [], "fixed_load": {}}}
            recs.append(run_record(js, "peak_load_window", {"time_windows": tw_file(tmp, rng16, start16), "ALLOW_NEGATIVE_SOC": True}, time_limit=40))
        # intervals that do not divide an hour (round-3 seed C18-s8: per-hour scaling of the aggregates)
        rng_odd = random.Random("pool-odd/%d" % seed)
        for k_odd in range(3 if tier == "quick" else 9):
            js = scen.gen_scenario(rng_odd, n_gc=1, n_veh=rng_odd.randint(1, 2), features={"generation", "battery", "fixed"},
                                   steps=rng_odd.choice([5, 8]), interval=rng_odd.choice([45, 40, 20, 45]))
            for st in ("greedy", "balanced"):
                if st in strategies:
                    recs.append(run_record(js, st, {"ALLOW_NEGATIVE_SOC": True}, reports=inject))
        for i in range(n_fast):
            # exact rationals grow with every step: long runs only in the thorough tier
            js = scen.gen_scenario(rng, steps=rng.choice([4, 8, 12, 16]) if (tier == "quick" or i % 4) else None)
            for st in ("greedy", "balanced", "distributed"):
                if st not in strategies:
                    continue
                opts = {}
                if rng.random() < 0.3:
                    opts["CONCURRENCY"] = rng.choice([0.5, 0.25])
                if rng.random() < 0.3:
                    opts["ALLOW_NEGATIVE_SOC"] = True
                    opts["RESET_NEGATIVE_SOC"] = rng.random() < 0.5
                if rng.random() < 0.3:
                    opts["PRICE_THRESHOLD"] = rng.choice([0.05, 0.2])
                inj = rng.randrange(js["scenario"]["n_intervals"]) if inject and rng.random() < 0.3 else None
                recs.append(run_record(js, st, opts, inject_at=inj, reports=inject and rng.random() < 0.5))
        for i in range(n_slow):
            # two-connector scenarios for the look-ahead strategies that support them
            js = scen.gen_scenario(rng, n_gc=2, n_veh=rng.randint(2, 4), steps=rng.choice([6, 10]), interval=60)
            for st in ("balanced_market", "peak_shaving"):
                if st in strategies:
                    inj = rng.randrange(js["scenario"]["n_intervals"]) if inject and rng.random() < 0.3 else None
                    recs.append(run_record(js, st, {"ALLOW_NEGATIVE_SOC": True}, inject_at=inj, reports=inject and rng.random() < 0.5))
        for i in range(n_slow):
            js = scen.gen_scenario(rng, n_gc=1, n_veh=rng.randint(1, 3), steps=rng.choice([8, 12]), interval=60)
            # window signals for flex_window / schedule, targets for schedule
            start = datetime.datetime.fromisoformat(js["scenario"]["start_time"])
            gid = list(js["components"]["grid_connectors"])[0]
            for k in range(0, js["scenario"]["n_intervals"], 3):
                t = start + datetime.timedelta(hours=k)
                js["events"]["grid_operator_signals"].append({
                    "signal_time": scen.iso(start), "start_time": scen.iso(t), "grid_connector_id": gid,
                    # a scheduled target never exceeds the smallest limit the scenario can signal (rating/4)
                    "window": bool((k // 3) % 2), "target": rng.choice([0, 1, 2.5, 5])})
            js["scenario"]["core_standing_time"] = {"times": [{"start": [22, 0], "end": [5, 0]}], "no_drive_days": [6]}
            for st in SLOW:
                if st not in strategies:
                    continue
                opts = {"ALLOW_NEGATIVE_SOC": True}
                if st == "peak_load_window":
                    opts["time_windows"] = tw_file(tmp, rng, start)
                if st == "flex_window":
                    opts["LOAD_STRAT"] = rng.choice(["balanced", "greedy", "needy"])
                if st == "schedule":
                    opts["LOAD_STRAT"] = rng.choice(["collective", "individual"])
                inj = rng.randrange(js["scenario"]["n_intervals"]) if inject and rng.random() < 0.3 else None
                recs.append(run_record(js, st, opts, inject_at=inj, reports=inject and rng.random() < 0.5))
    finally:
        shutil.rmtree(tmp, ignore_errors=True)
    return recs


# ------------------------------------------------------------------ RunLoop correspondence
class RunLoopUnit(corr.Unit):
    name = "runloop"
    header = ("From Coq Require Import ZArith QArith List Bool.\nFrom SV Require Import Num RunLoop RunLoopRun.\n"
              "Import ListNotations.\nOpen Scope Q_scope.\n")
    casetype = "rcase"
    failing = "failing"
    tagfn = "tag"
    both = "check_tag"
    runfn = "run_rcase"
    trivial_tags = (None, 0)
    per_file = 12
    records = []
    pred = None       # implementation-level predicate evaluated on every record

    max_cases = 10**9       # the Coq comparison runs on the first max_cases records, the predicate on all

    def generate(self, rng, n, biased=False):
        return list(self.records)

    def check_property(self, case, out):
        return self.pred(case) if self.pred else []

    def key(self, case):
        return "%s/%s/%s" % (case["strategy"], json.dumps(case["options"], sort_keys=True, default=str),
                             hash(json.dumps(case["js"], sort_keys=True, default=str)))

    def run_impl(self, case):
        return None

    def obs(self, rec, step):
        snap = step.get("loss") or step.get("pre")
        gcs = []
        for g in rec["gc_ids"]:
            gs = snap["gc"][g]
            loads = [(v, k in rec["gen_keys"]) for k, v in gs["loads"].items()]
            css = []
            for vid in sorted(snap["veh"]):
                cs_id = snap["veh"][vid]["cs"]
                cs = snap["cs"].get(cs_id) if cs_id is not None else None
                if cs is not None and cs["parent"] == g:
                    css.append((cs["max"], gs["loads"].get(cs_id, F(0))))
            gcs.append((gs["max"], gs["cur_max"], loads, css))
        return gcs

    def emit(self, case, out):
        if case["raised"] is not None or case.get("_skip_model"):
            return "{| rc_eps := 0; rc_steps := []; rc_rows := []; rc_aborted := false |}"
        steps = []
        for i, st in enumerate(case["steps"]):
            gcs = self.obs(case, st)
            steps.append("{| s_pre_error := %s; s_strat_error := %s; s_gcs := %s |}" % (
                C.b(st["pre_error"] is not None), C.b(i in case["strat_errors"]),
                C.lst("{| g_max := %s; g_curmax := %s; g_loads := %s; g_cs := %s |}" % (
                    C.q(m), C.q(cm), C.lst("{| l_val := %s; l_gen := %s |}" % (C.q(v), C.b(g)) for v, g in loads),
                    C.lst("{| cs_max := %s; cs_load := %s |}" % (C.q(a), C.q(b_)) for a, b_ in css))
                    for m, cm, loads, css in gcs)))
        rows = []
        for i in range(min([case["step_i"]] + [len(case["totalLoad"][g]) for g in case["gc_ids"]])):
            rows.append("(%s, %s)" % (C.lst(C.q(case["totalLoad"][g][i]) for g in case["gc_ids"]),
                                      C.lst(C.q(case["localGen"][g][i]) for g in case["gc_ids"])))
        txt = "{| rc_eps := %s; rc_steps := %s; rc_rows := %s; rc_aborted := %s |}" % (
            C.q(case["eps"]), C.lst(steps), C.lst(rows), C.b(case["aborted"]))
        if len(txt) > 250000:
            # a long run on exact rationals yields a literal of several hundred kB (numerators of 70+ hex digits in every load):
            # Coq needs minutes and >20 GB to elaborate it (seen with VERIF_SEED=7).  Such a record stays out of the Coq run-loop
            # model; the Python predicates still see it, and the evidence counts it.
            RunLoopUnit.too_large = getattr(RunLoopUnit, "too_large", 0) + 1
            return "{| rc_eps := 0; rc_steps := []; rc_rows := []; rc_aborted := false |}"
        return txt


RUNLOOP = RunLoopUnit()


# ------------------------------------------------------------------ predicates on records
def gc_load_of(rec, snap, g):
    gs = snap["gc"][g]
    tot = sum(gs["loads"].values(), F(0))
    return max(-gs["max"], tot)


def curve_at(pts, s):
    import c01
    return c01.curve_at(pts, s)


def check_c04(rec):
    v = []
    if rec["raised"]:
        return v
    eps = rec["eps"]
    desc = "%s %s features=%s" % (rec["strategy"], rec["options"], rec["features"])
    for i, st in enumerate(rec["steps"]):
        last = i == len(rec["steps"]) - 1
        snap = st.get("loss")
        if snap is None:
            continue
        for g in rec["gc_ids"]:
            gs = snap["gc"][g]
            load = gc_load_of(rec, snap, g)
            if gs["cur_max"] is None:
                continue
            within = -(gs["cur_max"] + eps) <= load <= gs["cur_max"] + eps
            if not within and not (last and rec["aborted"]):
                v.append(("C04/invalid-step-reported", "step %d %s load %s limit %s reported as valid: %s" % (i, g, float(load), float(gs["cur_max"]), desc)))
            if gs["cur_max"] > gs["max"]:
                v.append(("C04/limit-above-rating", "step %d %s cur_max %s > rating %s: %s" % (i, g, gs["cur_max"], gs["max"], desc)))
            # premise: fixed load and generation alone respect the limit
            pre = st.get("pre")
            if pre is None or st["pre_error"] or i in rec["strat_errors"]:
                continue
            base = sum((val for k, val in pre["gc"][g]["loads"].items() if k not in rec["cs_keys"] and k not in rec["bat_keys"]), F(0))
            base = max(-gs["max"], base)
            if abs(base) <= gs["cur_max"] and not within:
                fixed = sum((val for k, val in pre["gc"][g]["loads"].items() if k not in rec["cs_keys"] and k not in rec["bat_keys"] and k not in rec["gen_keys"]), F(0))
                forecast_gap = fixed - pre["gc"][g]["avg_fixed"]
                excess = abs(load) - gs["cur_max"]
                cls = "C04/strategy-breaks-limit/"
                if rec["strategy"] in ("flex_window", "peak_load_window", "schedule", "balanced_market", "peak_shaving") and 0 < excess <= forecast_gap + eps:
                    cls = "C04/forecast-mismatch/"       # allocation planned on the weekly-average fixed load
                elif gs["cur_max"] < gs["max"] and abs(load) <= gs["max"] + eps:
                    cls = "C04/limit-below-rating/"      # planned against the rating although a lower operator limit is in force
                nobat = max(-gs["max"], sum((val for k, val in gs["loads"].items() if k not in rec["bat_keys"]), F(0)))
                if cls == "C04/strategy-breaks-limit/":
                    comp = "/stationary-battery" if abs(nobat) <= gs["cur_max"] + eps else "/stations"
                else:
                    comp = ""
                    if cls == "C04/forecast-mismatch/" and rec["strategy"] == "flex_window":
                        # the sub-strategies and the station / battery allocations are separate paths: a finding on one must not hide
                        # a new one on another
                        comp = "/" + str(rec["options"].get("LOAD_STRAT", "balanced" if rec["strategy"] == "flex_window" else "collective"))
                        comp += "/stationary-battery" if abs(nobat) <= gs["cur_max"] + eps else "/stations"
                v.append((cls + rec["strategy"] + comp,
                          "step %d %s: fixed-generation = %s within limit %s but load after strategy = %s: %s; loads=%s js=%s" % (
                              i, g, float(base), float(gs["cur_max"]), float(load), desc,
                              {k: float(x) for k, x in gs["loads"].items()}, json.dumps(rec["js"], default=str)[:1500])))
    return v[:3]


def check_c05(rec):
    v = []
    if rec["raised"]:
        return v
    eps = rec["eps"]
    conc = F(rec["options"].get("CONCURRENCY", 1))
    desc = "%s %s features=%s" % (rec["strategy"], rec["options"], rec["features"])
    dt_h = 1 / rec["ts_per_hour"]
    for i, st in enumerate(rec["steps"]):
        snap, pre = st.get("post"), st.get("pre")
        if snap is None or pre is None or st["pre_error"] or i in rec["strat_errors"]:
            continue
        occupied = {vv["cs"]: k for k, vv in pre["veh"].items() if vv["cs"] is not None}
        for cs_id, cs in snap["cs"].items():
            load = snap["gc"][cs["parent"]]["loads"].get(cs_id, F(0))
            cmax = rec["cs_max0"][cs_id] * conc
            if cs["max"] != cmax:
                v.append(("C05/concurrency-scaling", "station %s max %s != CONCURRENCY*rating %s: %s" % (cs_id, cs["max"], cmax, desc)))
            if abs(load) > cmax + eps:
                # with / without local generation at the connector in this step: the listed findings of the look-ahead strategies are
                # about handing out a generation surplus; a station over its maximum without any generation is something else
                gen_here = any(val < 0 for k, val in snap["gc"][cs["parent"]]["loads"].items() if k in rec["gen_keys"])
                sub = ("/surplus" if gen_here else "/no-surplus") if rec["strategy"] in ("flex_window", "peak_load_window") else ""
                v.append(("C05/station-limit/" + rec["strategy"] + sub, "step %d station %s power %s > max %s: %s" % (i, cs_id, float(load), float(cmax), desc)))
            if cs_id not in occupied and load != 0:
                v.append(("C05/power-without-vehicle", "step %d station %s carries %s without a vehicle: %s" % (i, cs_id, float(load), desc)))
            if cs_id in occupied:
                vid = occupied[cs_id]
                vi = rec["veh"].get(vid)
                if vi is None:
                    continue
                if load < -eps and not vi["v2g"]:
                    v.append(("C05/discharge-without-v2g", "step %d vehicle %s (no V2G) discharged %s: %s" % (i, vid, float(load), desc)))
                s0, s1 = pre["veh"][vid]["soc"], snap["veh"][vid]["soc"]
                lo, hi = max(min(s0, s1), F(0)), min(max(s0, s1), F(1))
                pts = vi["lc"] if load >= 0 else vi["uc"]
                xs = [lo, hi] + [p[0] for p in pts if lo <= p[0] <= hi]
                allowed = max(curve_at(pts, x) for x in xs)
                if abs(load) > allowed * (1 + F(1, 10**6)) + eps:
                    ncalls = len([c for c in st.get("calls", []) if c[1] == vid])
                    v.append(("C05/vehicle-curve-multi-load" if ncalls >= 2 else "C05/vehicle-curve", "step %d vehicle %s at %s gets %s kW, its curve allows %s over the step (soc %s->%s): %s" % (
                        i, vid, cs_id, float(load), float(allowed), float(s0), float(s1), desc)))
    return v[:3]


def check_c06(rec):
    v = []
    if rec["raised"]:
        return v
    desc = "%s %s features=%s" % (rec["strategy"], rec["options"], rec["features"])
    dt_h = 1 / rec["ts_per_hour"]
    for i, st in enumerate(rec["steps"]):
        snap, pre, loss = st.get("post"), st.get("pre"), st.get("loss")
        if snap is None or pre is None or st["pre_error"] or i in rec["strat_errors"]:
            continue
        if i >= rec["step_i"] or any(i >= len(rec["totalLoad"][g]) for g in rec["gc_ids"]):
            continue
        for g in rec["gc_ids"]:
            # reported connector power = sum of reported component powers (curtailed at the rating)
            if rec["totalLoad"][g][i] != gc_load_of(rec, loss, g):
                v.append(("C06/gc-sum", "step %d %s reported %s != sum of components %s: %s" % (i, g, float(rec["totalLoad"][g][i]), float(gc_load_of(rec, loss, g)), desc)))
        for vid, vi in rec["veh"].items():
            cs_id = pre["veh"][vid]["cs"]
            s0, s1 = pre["veh"][vid]["soc"], snap["veh"][vid]["soc"]
            if cs_id is None or cs_id not in snap["cs"]:
                if s1 != s0:
                    v.append(("C06/disconnected-soc-changed", "step %d vehicle %s not connected, soc %s -> %s: %s" % (i, vid, float(s0), float(s1), desc)))
                continue
            load = snap["gc"][snap["cs"][cs_id]["parent"]]["loads"].get(cs_id, F(0))
            tol = 6 * F(1e-5) + abs(load) * dt_h * F(1, 10**9) + vi["cap"] * F(1, 2**50)
            want = load * dt_h * vi["eff"] if load >= 0 else load * dt_h / vi["eff"]
            if abs(vi["cap"] * (s1 - s0) - want) > tol:
                kinds = set(c[0] for c in st.get("calls", []) if c[1] == vid)
                v.append(("C06/vehicle-energy-mixed-step" if kinds == {"load", "unload"} else "C06/vehicle-energy", "step %d vehicle %s: stored %s kWh, station power x dt x eff = %s kWh: %s" % (
                    i, vid, float(vi["cap"] * (s1 - s0)), float(want), desc)))
            if loss["veh"][vid]["soc"] != s1:
                v.append(("C06/vehicle-soc-changed-by-losses", "step %d vehicle %s (no loss rate): soc %s -> %s in apply_battery_losses: %s" % (
                    i, vid, float(s1), float(loss["veh"][vid]["soc"]), desc)))
            if s1 > 1:
                v.append(("C06/soc-above-1", "step %d vehicle %s soc %s: %s" % (i, vid, float(s1), desc)))
        for bid, bi in rec["bat"].items():
            s0, s1, s2 = pre["bat"][bid]["soc"], snap["bat"][bid]["soc"], loss["bat"][bid]["soc"]
            load = snap["gc"][bi["parent"]]["loads"].get(bid, F(0)) if bi["parent"] in snap["gc"] else F(0)
            want = load * dt_h * bi["eff"] if load >= 0 else load * dt_h / bi["eff"]
            # 2^-50 relative: the harness itself loses exactness where /repo converts with float() (virtual vehicles)
            tol = 6 * F(1e-5) + abs(want) * F(1, 10**9) + bi["cap"] * F(1, 2**50)
            if abs(bi["cap"] * (s1 - s0) - want) > tol:
                v.append(("C06/battery-energy", "step %d battery %s: stored %s kWh, power x dt x eff = %s kWh: %s" % (
                    i, bid, float(bi["cap"] * (s1 - s0)), float(want), desc)))
            if s2 > s1 or (s1 >= 0 and s2 < 0) or s1 > 1:
                v.append(("C06/losses", "step %d battery %s: soc %s -> %s after losses: %s" % (i, bid, float(s1), float(s2), desc)))
    return v[:3]


def check_c17(rec):
    v = []
    desc = "%s %s features=%s inject_at=%s" % (rec["strategy"], rec["options"], rec["features"], rec["inject_at"])
    if rec["raised"]:
        # constructor-time rejections of unsupported scenarios are not runs
        if rec["raised"] == "ExactTooSlow":
            return v
        if rec["raised"].startswith("Timeout"):
            v.append(("C17/timeout", "run did not finish within the time limit (%s): %s" % (rec["raised"], desc)))
        elif rec.get("phase") == "run":
            v.append(("C17/crash", "the run (incl. report generation=%s) raised %s: %s" % (rec.get("reports"), rec["raised"], desc)))
        return v
    n = rec["step_i"]
    lens = rec["len"]
    flat = [lens["socs"], lens["results"], lens["connected"], lens["disconnect"]] + lens["prices"] + lens["totalLoad"] + \
        lens["fixedLoads"] + lens["connChargeByTS"] + lens["gcPowerSchedule"] + lens["localGen"] + lens["batteryLevels"]
    if any(x != n for x in flat):
        v.append(("C17/series-length", "series lengths %s differ from step_i %d: %s" % (lens, n, desc)))
    had_error = any(st["pre_error"] for st in rec["steps"]) or bool(rec["strat_errors"])
    if had_error and not rec["aborted"]:
        v.append(("C17/error-ignored", "an error occurred (%s) but the run is not flagged aborted: %s" % (rec["strat_errors"], desc)))
    if not rec["aborted"] and n != rec["n_intervals"]:
        v.append(("C17/steps", "run without error reports %d of %d steps: %s" % (n, rec["n_intervals"], desc)))
    if rec["inject_at"] is not None and rec["inject_at"] < len(rec["steps"]):
        first_err = min([i for i, st in enumerate(rec["steps"]) if st["pre_error"]] + list(rec["strat_errors"]) + [10**9])
        if not rec["aborted"] or n != first_err + 1:
            v.append(("C17/abort-position", "fault at step %d: step_i %d aborted=%s: %s" % (first_err, n, rec["aborted"], desc)))
    if len(rec["steps"]) != n:
        v.append(("C17/continued-after-abort", "%d steps executed, %d reported: %s" % (len(rec["steps"]), n, desc)))
    if rec.get("reports"):
        f = rec.get("files", {})
        ngc = len(rec["gc_ids"])
        if f.get("json") != ngc or f.get("s.csv") != n + 1 or sorted(f.get("csv", [])) != [n + 1] * ngc:
            v.append(("C17/report-files", "report files %s do not hold one row per simulated step (%d): %s" % (f, n, desc)))
    return v[:3]


def slim(rec):
    """replay payload of a record: enough to re-run it"""
    return {"js": rec["js"], "strategy": rec["strategy"], "options": rec["options"], "inject_at": rec["inject_at"], "reports": rec.get("reports", False)}


SIM_TRUSTED = ["harness/scen.py: scenario generator, exactify (object-graph float -> exact rational), class-level recorder patches "
               "(Strategy.__init__/step/apply_battery_losses, Battery.load/unload, the concrete strategy's step for fault injection)",
               "where /repo converts with float() at run time (distributed's virtual vehicles) exactness is lost locally; "
               "predicates allow 2^-50 relative slack there"]
SIM_RULE = ("pool of exact runs: random scenarios (1-2 connectors, 1-6 vehicles, optional fixed load, generation, stationary battery, "
            "V2G, price and limit signals, minimum powers, number_cs, unaligned events; 4-48 steps of 10-60 min) x greedy/balanced/"
            "distributed with random CONCURRENCY / ALLOW_NEGATIVE_SOC / PRICE_THRESHOLD, plus small single-connector scenarios x "
            "balanced_market/peak_shaving/flex_window/peak_load_window/schedule (sub-strategies random); run-loop model compared "
            "with Scenario.run's series on every run; non-trivial = distinct run in which some connector carries load or the run aborts")


def sim_run(pid, tier, pred, inject=False, extra_units=(), n_kernel=(600, 6000), extra=None):
    import kernel
    sd = C.seed()
    RUNLOOP.records = pool(sd, tier, inject=inject)
    for i, r_ in enumerate(RUNLOOP.records):
        r_["_skip_model"] = i % 3 != 0 and tier == "quick"     # every third run goes through the Coq run-loop model in the quick tier
    RUNLOOP.pred = pred
    RUNLOOP.emit_case = None
    orig_key = corr.Unit.key

    def replay_case(case):
        return slim(case)
    units = [RUNLOOP] + list(extra_units)
    n = {u.name: (n_kernel[0] if tier == "quick" else n_kernel[1]) for u in units}
    n[RUNLOOP.name] = 0
    # make violation inputs small: store the slim record
    old = C.Report.add_violation

    def add_violation(self, cls, what, inp):
        if isinstance(inp, dict) and isinstance(inp.get("case"), dict) and "steps" in inp["case"]:
            inp = {"unit": inp["unit"], "case": slim(inp["case"])}
        old(self, cls, what, inp)
    C.Report.add_violation = add_violation
    try:
        return corr.standard_run(pid, tier, units, n, n, SIM_TRUSTED, SIM_RULE, search_factor=1, extra=extra)
    finally:
        C.Report.add_violation = old


def sim_replay(payload, pred):
    inp = payload["input"]
    case = inp["case"]
    if "js" not in case:
        print("replay: not a simulation record")
        return 2
    rec = run_record(case["js"], case["strategy"], case.get("options"), inject_at=case.get("inject_at"), reports=case.get("reports", False))
    v = pred(rec)
    for cls, what in v:
        print("VIOLATION-REPLAY %s: %s" % (cls, what[:600]))
    print("replay: %d violation(s)" % len(v))
    return 1 if v else 0


def check_c08(rec):
    """simulation-level half of C08: the negative-SoC policy and 'a disconnected vehicle's SoC does not change' through whole runs"""
    v = []
    if rec["raised"]:
        return v
    desc = "%s %s features=%s" % (rec["strategy"], rec["options"], rec["features"])
    prev = None
    for i, st in enumerate(rec["steps"]):
        pre, post, loss = st.get("pre"), st.get("post"), st.get("loss")
        if st["pre_error"] == "RuntimeError" and (len(rec["steps"]) != i + 1 or not rec["aborted"]):
            v.append(("C08/negative-soc-does-not-stop", "negative SoC raised at step %d but %d steps ran (aborted=%s): %s" % (i, len(rec["steps"]), rec["aborted"], desc)))
            break
        if pre is None or post is None or loss is None:
            continue
        for vid, x in post["veh"].items():
            if loss["veh"][vid]["soc"] != x["soc"]:
                v.append(("C08/soc-changed-outside-events", "step %d vehicle %s: soc %s -> %s in apply_battery_losses (no loss rate): %s" % (
                    i, vid, float(x["soc"]), float(loss["veh"][vid]["soc"]), desc)))
            if pre["veh"][vid]["cs"] is None and x["soc"] != pre["veh"][vid]["soc"]:
                v.append(("C08/disconnected-soc-changed", "step %d vehicle %s has no station, soc %s -> %s during the strategy step: %s" % (
                    i, vid, float(pre["veh"][vid]["soc"]), float(x["soc"]), desc)))
        prev = loss
    return v[:3]
