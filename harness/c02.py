"""C02 — analytic step = ODE solution.  Theorems: section level (props/C02.v).  Correspondence: the
battery unit restricted to strictly positive curves.  Relational cases (split vs single call,
monotonicity in time and limit, target power) are evaluated on the implementation with exact
numbers — sampled, not proved."""
import datetime
from fractions import Fraction as F

import c01
import common as C
import corr
from ex import Ex, fr


class BatPos(c01.BatUnit):
    name = "battery_pos"
    positive_only = True

    def check_property(self, case, out):
        return []          # the C01 predicates are evaluated by ./check C01


class Relational(corr.Unit):
    """implementation-only relational checks; no Coq side"""
    name = "battery_rel"
    tagfn = None

    def generate(self, rng, n, biased=False):
        cases = []
        for _ in range(n):
            lc = c01.gen_curve(rng)
            while min(p[1] for p in lc) <= 0:
                lc = c01.gen_curve(rng)
            cap = F(rng.choice([0.5, 10, 50, 76.5, 315, 1000]))
            eff = F(rng.choice([1, 0.95, 0.9, 0.75]))
            soc = F(rng.randint(0, 19), 20) if rng.random() < 0.6 else F(rng.random())
            secs1 = rng.choice([60, 300, 900, 3600, 7200, 36000])
            secs2 = rng.choice([60, 300, 900, 3600, 7200])
            mp = rng.choice([None, 3, 11, 30, 1000])
            mp2 = None if mp is None else mp * rng.choice([1, 2, 1.5])
            kind = rng.choice(["split", "split", "time", "limit", "tpower"])
            dis = rng.random() < 0.4
            if dis:
                soc = 1 - soc
            tp = F(rng.choice([1, 5, 11, 22, 100]))
            cases.append({"lc": lc, "cap": cap, "eff": eff, "soc": soc, "s1": secs1, "s2": secs2,
                          "mp": None if mp is None else F(mp), "mp2": None if mp2 is None else F(mp2),
                          "kind": kind, "dis": dis, "tp": tp})
        return cases

    def _bat(self, case):
        battery = c01.install()
        from spice_ev.loading_curve import LoadingCurve
        return battery.Battery(Ex(case["cap"]), LoadingCurve([(Ex(a), Ex(b_)) for a, b_ in case["lc"]]),
                               Ex(case["soc"]), Ex(case["eff"]))

    def _go(self, b, case, secs, mp, **kw):
        f = b.unload if case["dis"] else b.load
        r = f(datetime.timedelta(seconds=secs), max_power=None if mp is None else Ex(mp), **kw)
        return fr(r["avg_power"])

    def run_impl(self, case):
        try:
            k = case["kind"]
            if k == "split":
                b1 = self._bat(case)
                self._go(b1, case, case["s1"] + case["s2"], case["mp"])
                b2 = self._bat(case)
                self._go(b2, case, case["s1"], case["mp"])
                self._go(b2, case, case["s2"], case["mp"])
                return {"a": fr(b1.soc), "b": fr(b2.soc)}
            if k == "time":
                b1 = self._bat(case)
                self._go(b1, case, case["s1"], case["mp"])
                b2 = self._bat(case)
                self._go(b2, case, case["s1"] + case["s2"], case["mp"])
                return {"a": fr(b1.soc), "b": fr(b2.soc)}
            if k == "limit":
                b1 = self._bat(case)
                self._go(b1, case, case["s1"], case["mp"])
                b2 = self._bat(case)
                self._go(b2, case, case["s1"], case["mp2"])
                return {"a": fr(b1.soc), "b": fr(b2.soc)}
            b1 = self._bat(case)
            p = self._go(b1, case, case["s1"], case["mp"], target_power=Ex(case["tp"]))
            b2 = self._bat(case)
            p2 = self._go(b2, case, case["s1"], case["mp"])
            return {"p": p, "p_unrestricted": p2, "a": fr(b1.soc), "b": fr(b2.soc)}
        except Exception as e:  # noqa
            return {"err": repr(e)[:200]}

    def emit(self, case, out):
        return ""

    def check_property(self, case, out):
        tol = 4 * c01.E5 / case["cap"]
        sg = -1 if case["dis"] else 1
        d = "%s cap=%s eff=%s soc=%s T1=%s T2=%s limit=%s/%s curve=%s" % (
            "unload" if case["dis"] else "load", case["cap"], case["eff"], case["soc"], case["s1"], case["s2"],
            case["mp"], case["mp2"], case["lc"])
        if "err" in out:
            return [("C02/error", "%s raised %s" % (d, out["err"]))]
        k = case["kind"]
        if k == "split" and abs(out["a"] - out["b"]) > tol:
            return [("C02/split", "one call vs two calls differ by %g SoC (tol %g): %s" % (float(out["a"] - out["b"]), float(tol), d))]
        if k in ("time", "limit") and sg * (out["b"] - out["a"]) < -tol:
            return [("C02/monotone-" + k, "more %s transferred less: soc %s vs %s: %s" % (k, float(out["a"]), float(out["b"]), d))]
        if k == "tpower":
            T = F(datetime.timedelta(seconds=case["s1"]).total_seconds() / 3600.0)
            tgt = case["soc"] + sg * (case["tp"] * case["eff"] if not case["dis"] else case["tp"] / case["eff"]) * T / case["cap"]
            reached = abs(out["a"] - tgt) <= tol and 0 < tgt < 1
            if reached and abs(out["p"] - case["tp"]) > case["tp"] * F(1, 10**6):
                return [("C02/target-power", "target reached but avg power %s != %s: %s" % (float(out["p"]), case["tp"], d))]
            if not reached and 0 < tgt < 1 and abs(out["a"] - out["b"]) > tol:
                return [("C02/target-power-unrestricted", "target not reached yet result differs from the unrestricted request: "
                         "%s vs %s: %s" % (float(out["a"]), float(out["b"]), d))]
        return []


UNIT = BatPos()
REL = Relational()
RULE = c01.RULE + "; curves restricted to strictly positive power; plus implementation-only relational cases " \
    "(split/time/limit/target power) compared with tolerance 4*EPS"


def run(tier):
    def extra(rep, tier_, sd):
        n = 300 if tier_ == "quick" else 3000
        r = corr.correspond(REL, n, sd, rep, check_model=False, label="relational (implementation only, sampled)")
        rep.notes["relational_sampled"] = r["evaluations"]
        # which curve a component's battery integrates along is decided in components.py
        c01.components_glue(rep, tier_, sd)
    import c03
    return corr.standard_run("C02", tier, [UNIT, c03.UNIT], {UNIT.name: 300, "curve": 300}, {UNIT.name: 4000, "curve": 3000}, c01.TRUSTED, RULE, extra=extra)


def replay(payload):
    inp = payload["input"]
    if inp.get("unit") == "curve":
        import c03
        return c03.replay(payload)
    if inp.get("unit") == "glue":
        return c01.replay(payload)
    unit = REL if inp.get("unit") == "battery_rel" else UNIT
    case = inp["case"]
    out = unit.run_impl(case)
    v = unit.check_property(case, out)
    for cls, what in v:
        print("VIOLATION-REPLAY %s: %s" % (cls, what))
    print("replay: %d violation(s)" % len(v))
    return 1 if v else 0
