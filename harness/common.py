"""Shared machinery of the checks: Coq build, Print-Assumptions audit, case-file
evaluation, evidence files, VIOLATION / KNOWN-FINDING protocol."""
import fcntl
import hashlib
import json
import os
import re
import subprocess
import sys
import time
from concurrent.futures import ThreadPoolExecutor
from fractions import Fraction

VERIF = os.path.dirname(os.path.dirname(os.path.abspath(__file__)))
REPO = os.environ.get("VERIF_REPO", "/repo")
COQ = os.path.join(VERIF, "coq")
CASES = os.path.join(COQ, "cases")
EVID = os.path.join(VERIF, "evidence")
REPLAYS = os.path.join(VERIF, "replays")
DEFAULT_SEED = 20260929
NCPU = min(16, os.cpu_count() or 4)

ALLOWED_AXIOMS = {
    "ClassicalDedekindReals.sig_forall_dec", "ClassicalDedekindReals.sig_not_dec",
    "FunctionalExtensionality.functional_extensionality_dep", "Classical_Prop.classic",
}
GATE_RE = re.compile(r"\b(Admitted|admit|Axiom|Axioms|Parameter|Parameters|Conjecture|Admit Obligations|"
                     r"bypass_check|native_compute)\b|Unset\s+Guard|Unset\s+Positivity|Unset\s+Universe|"
                     r"type-in-type|impredicative-set")


def seed():
    try:
        return int(os.environ.get("VERIF_SEED", DEFAULT_SEED))
    except ValueError:
        return DEFAULT_SEED


def sh(cmd, timeout=600, cwd=None, env=None):
    try:
        p = subprocess.run(cmd, shell=isinstance(cmd, str), cwd=cwd, env=env, timeout=timeout,
                           stdout=subprocess.PIPE, stderr=subprocess.STDOUT, text=True)
        return p.returncode, p.stdout
    except subprocess.TimeoutExpired as e:
        return 124, (e.stdout or "") if isinstance(e.stdout, str) else "timeout"


# ------------------------------------------------------------------ Coq build
class Lock:
    def __enter__(self):
        self.f = open(os.path.join(COQ, ".lock"), "w")
        fcntl.flock(self.f, fcntl.LOCK_EX)
        return self

    def __exit__(self, *a):
        fcntl.flock(self.f, fcntl.LOCK_UN)
        self.f.close()


def coq_flags():
    return ["-Q", "theories", "SV", "-Q", "generated", "SVG", "-Q", "props", "SVP", "-w",
            "-notation-overridden,-deprecated-syntactic-definition,-deprecated-instance-without-locality"]


def build(targets=None, timeout=1500):
    """(re)generate the translated files from /repo, then make -k. Returns (ok, log)."""
    with Lock():
        log = ""
        tr = os.path.join(VERIF, "harness", "translate.py")
        tr_ok = True
        if os.path.exists(tr):
            rc, out = sh([sys.executable, tr], timeout=120)
            log += out
            tr_ok = rc == 0
        rc, out = sh("./configure.sh >/dev/null && timeout %d make -k -j%d %s 2>&1 | tail -n 60"
                     % (timeout, NCPU, " ".join(targets or [])), cwd=COQ, timeout=timeout + 30)
        log += out
        return tr_ok, log


def vo_fresh(rel):
    """is coq/<rel>.vo present and up to date w.r.t. its dependencies?"""
    rc, _ = sh(["make", "-q", rel + ".vo"], cwd=COQ, timeout=120)
    return rc == 0 and os.path.exists(os.path.join(COQ, rel + ".vo"))


def gate():
    """reject Admitted / Axiom / ... anywhere in the development"""
    bad = []
    for d in ("theories", "props", "generated"):
        p = os.path.join(COQ, d)
        for fn in sorted(os.listdir(p)) if os.path.isdir(p) else []:
            if not fn.endswith(".v"):
                continue
            txt = open(os.path.join(p, fn)).read()
            txt_nc = re.sub(r"\(\*.*?\*\)", "", txt, flags=re.S)
            for m in GATE_RE.finditer(txt_nc):
                bad.append("%s/%s: %s" % (d, fn, m.group(0)))
    return bad


def audit_props(pid):
    """compile props/<pid>.v, return dict(ok, theorems, axioms, bad_axioms, log)."""
    rel = "props/%s" % pid
    src = os.path.join(COQ, rel + ".v")
    res = {"ok": False, "theorems": [], "axioms": [], "bad_axioms": [], "log": "", "refuted": []}
    if not os.path.exists(src):
        res["log"] = "no props file"
        return res
    txt = open(src).read()
    txt_nc = re.sub(r"\(\*.*?\*\)", "", txt, flags=re.S)
    thms = re.findall(r"^\s*Theorem\s+([\w']+)", txt_nc, flags=re.M)
    res["theorems"] = thms
    res["refuted"] = [t for t in thms if t.endswith("_refuted")]
    with Lock():
        rc, out = sh(["timeout", "600", "coqc"] + coq_flags() + [rel + ".v"], cwd=COQ, timeout=630)
    res["log"] = out[-3000:]
    if rc != 0:
        return res
    axioms = set()
    n_print = 0
    for blk in re.split(r"(?=^Axioms:|^Closed under the global context)", out, flags=re.M):
        if blk.startswith("Closed under"):
            n_print += 1
        elif blk.startswith("Axioms:"):
            n_print += 1
            for line in blk.splitlines()[1:]:
                m = re.match(r"^([A-Za-z_][\w.']*)\s*:", line)
                if m:
                    axioms.add(m.group(1))
                elif re.match(r"^([A-Za-z_][\w.']*)\s*$", line):
                    axioms.add(line.strip())
    res["axioms"] = sorted(axioms)
    res["bad_axioms"] = sorted(a for a in axioms if a not in ALLOWED_AXIOMS)
    res["n_print_assumptions"] = n_print
    res["ok"] = (not res["bad_axioms"]) and n_print >= len(thms) and len(thms) > 0
    if n_print < len(thms):
        res["log"] += "\nmissing Print Assumptions: %d < %d" % (n_print, len(thms))
    return res


# ------------------------------------------------------------------ Coq literals
def q(x):
    from ex import fr
    f = fr(x)
    n, d = f.numerator, f.denominator
    if abs(n) < 10**40 and d < 10**40:
        return "(%d#%d)" % (n, d) if n >= 0 else "((%d)#%d)" % (n, d)
    # big literals in hexadecimal: Coq parses them in linear time
    return "(0x%x#0x%x)" % (n, d) if n >= 0 else "((-0x%x)#0x%x)" % (-n, d)


def qopt(x):
    return "None" if x is None else "(Some %s)" % q(x)


def z(n):
    n = int(n)
    return "%d" % n if n >= 0 else "(%d)" % n


def zopt(x):
    return "None" if x is None else "(Some %s)" % z(x)


def lst(items):
    return "[" + "; ".join(items) + "]"


def b(x):
    return "true" if x else "false"


def s(x):
    return '"%s"' % str(x).replace('"', '""')


ERRNAMES = {AssertionError: "(AssertFail 0)", ZeroDivisionError: "ZeroDiv", ValueError: "ValueErr",
            IndexError: "IndexErr", OverflowError: "Overflow", RuntimeError: "RuntimeErr",
            KeyError: "KeyErr", TypeError: "TypeErr", UnboundLocalError: "IndexErr"}


def err(e):
    for k, v in ERRNAMES.items():
        if isinstance(e, k):
            return v
    raise e


# ------------------------------------------------------------------ case files
def eval_case_files(files, timeout=900):
    """files: list of (name, text). Each text must end with Eval vm_compute commands.
    Returns {name: (rc, [raw result strings], log)}"""
    os.makedirs(CASES, exist_ok=True)

    def one(nt):
        name, text = nt
        path = os.path.join(CASES, name + ".v")
        with open(path, "w") as f:
            f.write(text)
        rc, out = sh("ulimit -s unlimited 2>/dev/null; exec timeout %d coqc %s -Q cases SVC cases/%s.v"
                     % (timeout, " ".join("'%s'" % x for x in coq_flags()), name), cwd=COQ, timeout=timeout + 30)
        for ext in (".v", ".vo", ".vok", ".vos", ".glob"):
            try:
                os.remove(os.path.join(CASES, name + ext))
            except OSError:
                pass
        try:
            os.remove(os.path.join(CASES, "." + name + ".aux"))
        except OSError:
            pass
        vals = []
        for m in re.finditer(r"^\s*=\s(.*?)^\s*:\s", out, flags=re.S | re.M):
            vals.append(" ".join(m.group(1).split()))
        return name, (rc, vals, out[-2000:])
    with ThreadPoolExecutor(max_workers=NCPU) as ex:
        return dict(ex.map(one, files))


def parse_natlist(sv):
    sv = sv.strip()
    sv = re.sub(r"%\w+", "", sv)
    if sv.startswith("["):
        inner = sv[1:sv.rindex("]")]
        return [int(x) for x in inner.split(";") if x.strip()]
    raise ValueError("not a list: " + sv[:80])


def chunks(lst_, n):
    for i in range(0, len(lst_), n):
        yield lst_[i:i + n]


# ------------------------------------------------------------------ findings / reporting
def load_known():
    p = os.path.join(VERIF, "known_findings.json")
    if not os.path.exists(p):
        return []
    return json.load(open(p))["findings"]


def jsonable(x):
    from ex import Ex
    if isinstance(x, Ex):
        return {"q": "%d/%d" % (x.v.numerator, x.v.denominator)}
    if isinstance(x, Fraction):
        return {"q": "%d/%d" % (x.numerator, x.denominator)}
    if isinstance(x, dict):
        return {str(k): jsonable(v) for k, v in x.items()}
    if isinstance(x, (list, tuple)):
        return [jsonable(v) for v in x]
    if isinstance(x, (int, float, str, bool)) or x is None:
        return x
    return repr(x)


def unjson(x):
    if isinstance(x, dict):
        if set(x.keys()) == {"q"}:
            n, d = x["q"].split("/")
            return Fraction(int(n), int(d))
        return {k: unjson(v) for k, v in x.items()}
    if isinstance(x, list):
        return [unjson(v) for v in x]
    return x


def write_replay(pid, payload):
    os.makedirs(REPLAYS, exist_ok=True)
    blob = json.dumps(jsonable(payload), sort_keys=True, indent=1)
    h = hashlib.sha1(blob.encode()).hexdigest()[:12]
    path = os.path.join(REPLAYS, "%s-%s.json" % (pid, h))
    with open(path, "w") as f:
        f.write(blob)
    return path


class Report:
    """collects the outcome of one check run and prints the protocol lines"""

    def __init__(self, pid, tier, level=None):
        if level is None:
            # the level of the evidence is the category claimed for this property in MANIFEST.json
            level = "proof"
            try:
                for c in json.load(open(os.path.join(VERIF, "MANIFEST.json")))["checks"]:
                    if c["property_id"] == pid:
                        level = c["level_claimed"]["category"]
            except Exception:  # noqa
                pass
        self.pid, self.tier, self.level = pid, tier, level
        self.t0 = time.time()
        self.violations = []     # dicts: cls, what, input
        self.broken = []         # names of theorems / ties / correspondences that no longer check
        self.cov = {"evaluations": 0, "distinct_nontrivial": 0, "rule": "", "samples": [],
                    "obligations": 0, "discharged": 0, "checker_cmd": "", "trusted_base": []}
        self.assumptions = []
        self.notes = {}

    def add_violation(self, cls, what, inp):
        self.violations.append({"cls": cls, "what": what, "input": inp})

    def add_broken(self, name, detail=""):
        self.broken.append({"name": name, "detail": detail})

    def finish(self):
        # a check may also run the correspondence unit of a neighbouring property (the model its theorems rely on); a finding listed
        # under that property is the same finding when it is seen through this check (classes carry their property as prefix)
        known = [k for k in load_known() if k["property"] == self.pid or str(k.get("cls", "")).startswith(k["property"] + "/")]
        unlisted = []
        printed_known = set()
        for v in self.violations:
            hit = None
            for k in known:
                if k["status"] == "known" and k["cls"] == v["cls"]:
                    hit = k
            if hit:
                if hit["cls"] not in printed_known:
                    print("KNOWN-FINDING: property=%s %s" % (self.pid, hit["what"]))
                    printed_known.add(hit["cls"])
            else:
                unlisted.append(v)
        rc = 0
        seen = set()
        for v in unlisted:
            if v["cls"] in seen:
                continue
            seen.add(v["cls"])
            path = write_replay(self.pid, {"property": self.pid, "kind": "violation", "class": v["cls"],
                                           "what": v["what"], "input": v["input"]})
            print("VIOLATION property=%s replay=%s" % (self.pid, path))
            print("  " + v["what"])
            rc = 1
        if self.broken and not unlisted:
            path = write_replay(self.pid, {"property": self.pid, "kind": "unproved", "broken": self.broken,
                                           "note": "no failing input of the property was found on the implementation; "
                                                   "the named theorem/tie/correspondence no longer checks"})
            print("VIOLATION property=%s replay=%s no-failing-input-found" % (self.pid, path))
            for b_ in self.broken[:5]:
                print("  broken: %s %s" % (b_["name"], str(b_["detail"])[:300]))
            rc = 1
        ev = {"property_id": self.pid, "tier": self.tier, "seed": seed(), "level": self.level,
              "coverage": self.cov, "assumptions": self.assumptions, "wall_s": round(time.time() - self.t0, 2),
              "violations": len(unlisted) + (1 if self.broken and not unlisted else 0)}
        if self.level == "translation_validation":
            ev["coverage"].setdefault("programs", self.cov.get("programs_compared", 0))
            ev["coverage"].setdefault("disagreements_checked", self.cov.get("programs_compared", 0))
        ev["coverage"]["known_findings_seen"] = sorted(printed_known)
        ev["coverage"]["broken"] = self.broken
        ev["coverage"].update(self.notes)
        os.makedirs(EVID, exist_ok=True)
        with open(os.path.join(EVID, self.pid + ".json"), "w") as f:
            json.dump(jsonable(ev), f, indent=1, sort_keys=True)
        print("%s %s tier=%s wall=%.1fs evaluations=%d nontrivial=%d obligations=%d/%d violations=%d" % (
            self.pid, "PASS" if rc == 0 else "FAIL", self.tier, time.time() - self.t0, self.cov["evaluations"],
            self.cov["distinct_nontrivial"], self.cov["discharged"], self.cov["obligations"], ev["violations"]))
        return rc


TRUSTED_COMMON = [
    "Coq 8.16.1 kernel and its VM (vm_compute); no native_compute",
    "harness: Ex exact-number class, Python-to-Coq literal printer, case generators (harness/*.py)",
    "Q-to-R transfer of the Num-generic model is proved (theories/Transfer*.v, parametricity terms generated by the Paramcoq plugin "
    "and checked by the kernel; Battery/Strat transfer to the R instance that answers exp/ln from the same recorded table)",
    "IEEE-754 rounding is outside the model: the implementation is executed on exact rationals",
]
AXIOMS_R = ["ClassicalDedekindReals.sig_forall_dec", "ClassicalDedekindReals.sig_not_dec",
            "FunctionalExtensionality.functional_extensionality_dep"]


def setup_repo_path():
    """import spice_ev from the tree under test"""
    for p in list(sys.path):
        if p.rstrip("/") in ("/repo",):
            sys.path.remove(p)
    sys.path.insert(0, REPO)
    import spice_ev
    f = os.path.dirname(os.path.abspath(spice_ev.__file__))
    assert f.startswith(os.path.abspath(REPO)), "spice_ev imported from %s, expected %s" % (f, REPO)
    return spice_ev
