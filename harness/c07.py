"""C07 / C08 — events take effect at the right step; vehicle trip state machine.
Correspondence of theories/Events.v with Events.get_event_steps + Strategy.step, and an independent
declarative reference (spec_run) evaluated against the implementation's per-step states."""
import warnings
import datetime
import math
from fractions import Fraction as F

import common as C
import corr
import scen
from ex import Ex, fr

UTC = datetime.timezone.utc
EPOCH = datetime.datetime(2000, 1, 1, tzinfo=UTC)
US = datetime.timedelta(microseconds=1)


def us(dt):
    return (dt - EPOCH) // US


def dtus(u):
    return EPOCH + US * u


def gen_case(rng):
    interval = rng.choice([15, 15, 60, 10, 30])
    n = rng.choice([3, 6, 10, 16])
    dt = datetime.timedelta(minutes=interval)
    start = datetime.datetime(2023, 3, rng.randint(1, 27), rng.choice([0, 5, 12, 23]), rng.choice([0, 30]), tzinfo=datetime.timezone(datetime.timedelta(hours=2)))

    def rtime(lo=-3, hi=None, grid=None):
        hi = n + 3 if hi is None else hi
        k = rng.randint(lo, hi)
        off = rng.choice([0, 0, 0, 1, -1, 7 * 60, interval * 30]) if grid is None else 0
        return start + dt * k + datetime.timedelta(seconds=off)
    gcs = {}
    for g in range(rng.choice([1, 1, 2])):
        gc = {"max_power": rng.choice([50, 100, 20])}
        r = rng.random()
        if r < 0.7:
            gc["cost"] = {"type": "fixed", "value": rng.choice([0.3, 0.1])}
        elif r < 0.85:
            gc["target"] = rng.choice([0, 10])
        if rng.random() < 0.2:
            gc["cost"] = {"type": "polynomial", "value": [0, 0.1, 0.01]}
        gcs["GC%d" % g] = gc
    gids = list(gcs)
    css, vts, vehs = {}, {"vt": {"name": "vt", "capacity": 50, "charging_curve": [[0, 11], [1, 11]]}}, {}
    nv = rng.randint(1, 3)
    for i in range(nv):
        css["CS%d" % i] = {"max_power": 11, "parent": rng.choice(gids)}
        v = {"vehicle_type": "vt", "soc": rng.choice([0.2, 0.5, 0.9, 0.05]), "desired_soc": rng.choice([0.8, 0.5, 1])}
        if rng.random() < 0.5:
            v["connected_charging_station"] = "CS%d" % i
            v["estimated_time_of_departure"] = scen.iso(rtime(0))
        vehs["v%d" % i] = v
    bats = {}
    if rng.random() < 0.3:
        bats["BAT"] = {"parent": gids[0], "charging_curve": [[0, 10], [1, 10]], "capacity": 50}
    ev = {"fixed_load": {}, "local_generation": {}, "grid_operator_signals": [], "vehicle_events": []}
    for k in range(rng.choice([0, 1, 1, 2])):
        sd = rng.choice([interval * 60, interval * 60, 600, 2700, 3600, 901])
        ev["fixed_load" if rng.random() < 0.6 else "local_generation"]["s%d" % k] = {
            "start_time": scen.iso(rtime(-2, n)), "step_duration_s": sd, "grid_connector_id": rng.choice(gids + ["nowhere"]),
            "values": [rng.choice([0, 1.5, 7, 20, 3.25]) for _ in range(rng.randint(1, 8))], "factor": rng.choice([1, 1, 0.5, 2])}
    if rng.random() < 0.05:
        ev["fixed_load"]["CS0"] = {"start_time": scen.iso(start), "step_duration_s": 900, "grid_connector_id": gids[0], "values": [1]}
    for _ in range(rng.randint(0, 6)):
        st = rtime()
        sig = {"signal_time": scen.iso(st - dt * rng.choice([0, 0, 1, 5, -1])), "start_time": scen.iso(st),
               "grid_connector_id": rng.choice(gids + gids + ["nowhere"])}
        k = rng.choice(["cost", "max", "target", "window", "multi"])
        if k in ("cost", "multi"):
            sig["cost"] = {"type": "fixed", "value": rng.choice([0.05, 0.3, -0.1, 0])}
        if k in ("max", "multi"):
            sig["max_power"] = rng.choice([10, 40, 200, 75, 0])
        if k in ("target",):
            sig["target"] = rng.choice([0, 5, 12.5])
        if k in ("window", "multi"):
            sig["window"] = rng.random() < 0.5
        ev["grid_operator_signals"].append(sig)
    vids = list(vehs) + ["ghost"]
    for _ in range(rng.randint(0, 8)):
        vid = rng.choice(vids)
        st = rtime()
        et = rng.choice(["arrival", "arrival", "departure", "departure", "schedule"])
        upd = {}
        if et == "arrival":
            upd = {"connected_charging_station": rng.choice(list(css)), "estimated_time_of_departure": scen.iso(st + dt * rng.randint(1, 6)),
                   "desired_soc": rng.choice([0.8, 1, 0.3]), "soc_delta": -rng.choice([0.1, 0.3, 0.02, 0.6, 0.2, 1.2])}
            if rng.random() < 0.05:
                del upd["soc_delta"]
            r_ = rng.random()
            if r_ < 0.08:
                upd["connected_charging_station"] = None          # explicit None values must be written to the vehicle as well
            elif r_ < 0.16:
                upd["estimated_time_of_departure"] = None
        elif et == "departure":
            upd = {"estimated_time_of_arrival": scen.iso(st + dt * rng.randint(1, 6))}
            if rng.random() < 0.2:
                upd["desired_soc"] = rng.choice([0.9, 0.1])
        else:
            upd = {"schedule": rng.choice([0, 3.5, 11])}
        ev["vehicle_events"].append({"signal_time": scen.iso(st - dt * rng.choice([0, 0, 2, -1])), "start_time": scen.iso(st),
                                     "vehicle_id": vid, "event_type": et, "update": upd})
    opts = {"ALLOW_NEGATIVE_SOC": rng.random() < 0.5, "RESET_NEGATIVE_SOC": rng.random() < 0.5, "margin": rng.choice([0.1, 0.1, 0.05, 0.5])}
    return {"components": {"grid_connectors": gcs, "charging_stations": css, "vehicle_types": vts, "vehicles": vehs, "batteries": bats},
            "events": ev, "start": scen.iso(start), "interval": interval, "n": n, "opts": opts}


def cost_of(d):
    if not d:
        return None
    if d["type"] == "fixed":
        return ("fixed", fr(d["value"]))
    return ("poly", [fr(x) for x in d["value"]])


class EventUnit(corr.Unit):
    name = "events"
    header = ("From Coq Require Import ZArith QArith List Bool String.\nFrom SV Require Import Num Kernel Events EventsRun.\n"
              "Import ListNotations.\nOpen Scope Z_scope.\nOpen Scope string_scope.\n")
    casetype = "ecase"
    failing = "failing"
    tagfn = "tag"
    runfn = "run_ecase"
    trivial_tags = (None, 0)
    per_file = 60

    def generate(self, rng, n, biased=False):
        return [gen_case(rng) for _ in range(n)]

    # ---- implementation
    def build(self, case):
        import copy
        import warnings
        from spice_ev import components, events, strategy
        start = datetime.datetime.fromisoformat(case["start"])
        interval = datetime.timedelta(minutes=case["interval"])
        comps = components.Components(copy.deepcopy(case["components"]))
        evs = events.Events(copy.deepcopy(case["events"]), "")
        scen.exactify(comps)
        scen.exactify(evs)
        o = dict(case["opts"])
        o["margin"] = Ex(o["margin"])
        with warnings.catch_warnings():
            warnings.simplefilter("ignore")
            strat = strategy.Strategy(comps, start, interval=interval, events=evs, **o)
            steps = evs.get_event_steps(start, case["n"], interval)
        return strat, evs, steps, start, interval

    def observe(self, strat, err):
        ws = strat.world_state
        return {
            "err": err,
            "gcs": [{"cur": None if g.cur_max_power is None else fr(g.cur_max_power),
                     "loads": [[k, fr(v)] for k, v in g.current_loads.items()], "cost": cost_of(g.cost),
                     "target": None if g.target is None else fr(g.target), "window": g.window} for g in ws.grid_connectors.values()],
            "veh": [{"cs": v.connected_charging_station, "soc": fr(v.battery.soc), "desired": fr(v.desired_soc),
                     "etd": None if v.estimated_time_of_departure is None else us(v.estimated_time_of_departure),
                     "sched": None if getattr(v, "schedule", None) is None else fr(v.schedule),
                     "hasdelta": hasattr(v, "soc_delta")} for v in ws.vehicles.values()],
            "cnt": [int(strat.desired_counter), int(strat.margin_counter)],
            "tracker": [[k, [us(datetime.datetime.fromisoformat(t)) for t in l]] for k, l in strat.negative_soc_tracker.items()],
            "future": len(ws.future_events),
        }

    def run_impl(self, case):
        import warnings
        strat, evs, steps, start, interval = self.build(case)
        init = {"gcs": [(k, fr(g.max_power), None if g.cur_max_power is None else fr(g.cur_max_power), [[a, fr(b_)] for a, b_ in g.current_loads.items()],
                         cost_of(g.cost), None if g.target is None else fr(g.target), g.window) for k, g in strat.world_state.grid_connectors.items()],
                "veh": [(k, v.connected_charging_station, fr(v.battery.soc), fr(v.desired_soc),
                         None if v.estimated_time_of_departure is None else us(v.estimated_time_of_departure),
                         None if v.estimated_time_of_arrival is None else us(v.estimated_time_of_arrival),
                         None if v.schedule is None else fr(v.schedule)) for k, v in strat.world_state.vehicles.items()],
                "cs": list(strat.world_state.charging_stations), "bat": list(strat.world_state.batteries),
                "eps": fr(strat.EPS), "margin": fr(strat.margin)}
        evl = {"veh": [], "sig": [], "series": []}
        for e in evs.vehicle_events:
            evl["veh"].append((us(e.start_time), us(e.signal_time), e.vehicle_id, e.event_type, dict(e.update)))
        for e in evs.grid_operator_signals:
            evl["sig"].append((us(e.start_time), us(e.signal_time), e.grid_connector_id, None if e.max_power is None else fr(e.max_power),
                               ("none",) if e.cost is None else cost_of(e.cost), None if e.target is None else fr(e.target), e.window))
        for gen, lists in ((False, evs.fixed_load_lists), (True, evs.local_generation_lists)):
            for name, l in lists.items():
                evl["series"].append((gen, l.grid_connector_id, name, us(l.start_time), datetime.timedelta(seconds=l.step_duration_s) // US,
                                      fr(l.factor), [fr(v) for v in l.values]))
        obs = []
        with warnings.catch_warnings():
            warnings.simplefilter("ignore")
            for i in range(case["n"]):
                try:
                    strat.step(steps[i])
                    obs.append(self.observe(strat, None))
                except Exception as e:  # noqa
                    name = C.ERRNAMES.get(type(e), "GenericErr")
                    obs.append(self.observe(strat, name))
                    break
        return {"init": init, "events": evl, "obs": obs, "t0": us(start), "delta": interval // US, "parse": self.parse_fidelity(case)}

    @staticmethod
    def parse_fidelity(case):
        """the event readers (VehicleEvent / GridOperatorSignal constructors) hand the values of the input on unchanged: numbers as
        numbers, times as times, None as None.  The model's event list is taken from the parsed objects, so this closes the gap
        between the input file and the model (round-3 seed C08-s8).  Plain floats, no strategy involved."""
        import copy
        import warnings
        from spice_ev import events as E_
        from spice_ev import util as U_
        bad = []
        with warnings.catch_warnings():
            warnings.simplefilter("ignore")
            for raw in case["events"].get("vehicle_events", []):
                try:
                    e = E_.VehicleEvent(copy.deepcopy(raw))
                except Exception as ex:  # noqa
                    bad.append("vehicle event %s: constructor raised %r" % (raw, ex))
                    continue
                want = {}
                for k, v in raw.get("update", {}).items():
                    if k in ("estimated_time_of_arrival", "estimated_time_of_departure"):
                        want[k] = None if v is None else U_.datetime_from_isoformat(v)
                    elif k in ("soc_delta", "desired_soc", "schedule"):
                        want[k] = None if v is None else float(v)
                    else:
                        want[k] = v
                if dict(e.update) != want or e.vehicle_id != raw["vehicle_id"] or e.event_type != raw["event_type"] \
                        or e.start_time != U_.datetime_from_isoformat(raw["start_time"]):
                    bad.append("vehicle event %s parsed as %s %s %s %s" % (raw, e.vehicle_id, e.event_type, e.start_time, dict(e.update)))
            for raw in case["events"].get("grid_operator_signals", []):
                try:
                    e = E_.GridOperatorSignal(copy.deepcopy(raw))
                except Exception as ex:  # noqa
                    bad.append("signal %s: constructor raised %r" % (raw, ex))
                    continue
                for k in ("max_power", "target", "window", "cost"):
                    got, w_ = getattr(e, k, None), raw.get(k)
                    if got != w_:
                        bad.append("signal %s: %s parsed as %r" % (raw, k, got))
                if e.grid_connector_id != raw["grid_connector_id"] or e.start_time != U_.datetime_from_isoformat(raw["start_time"]):
                    bad.append("signal %s parsed with connector %s start %s" % (raw, e.grid_connector_id, e.start_time))
        # energy price series from a CSV file: one cost event per row (equal consecutive prices included: a row supersedes whatever
        # other source set the price before), starting at row index x step, announced a day ahead but not before the series start
        import csv as csv_
        import hashlib
        import os
        import pathlib
        import random as random_
        import tempfile
        rr = random_.Random(int(hashlib.sha256(repr(sorted(case["events"])).encode() + str(case["start"]).encode()).hexdigest()[:8], 16))
        gcs_ = list(case["components"]["grid_connectors"])
        if gcs_ and rr.random() < 0.5:
            step_s = rr.choice([900, 3600, 1800, 7200])
            prices = []
            for _ in range(rr.choice([2, 5, 30])):
                prices.append(prices[-1] if prices and rr.random() < 0.4 else round(rr.uniform(-0.05, 0.5), 4))
            d_ = tempfile.mkdtemp(prefix="verif_c07p_")
            try:
                with open(os.path.join(d_, "p.csv"), "w", newline="") as f:
                    w = csv_.writer(f)
                    w.writerow(["date", "price"])
                    for i_, p_ in enumerate(prices):
                        w.writerow([i_, p_])
                obj = {"csv_file": "p.csv", "start_time": case["start"], "step_duration_s": step_s, "grid_connector_id": gcs_[0], "column": "price"}
                with warnings.catch_warnings():
                    warnings.simplefilter("ignore")
                    got = E_.get_energy_price_list_from_csv(obj, pathlib.Path(d_))
                st0 = U_.datetime_from_isoformat(case["start"])
                import datetime as dt_
                want = [(st0 + dt_.timedelta(seconds=step_s * i_), max(st0, st0 + dt_.timedelta(seconds=step_s * i_) - dt_.timedelta(days=1)),
                         {"type": "fixed", "value": float(p_)}) for i_, p_ in enumerate(prices)]
                got_ = [(e.start_time, e.signal_time, e.cost) for e in got]
                if got_ != want or any(e.grid_connector_id != gcs_[0] or e.max_power is not None for e in got):
                    bad.append("price CSV %s (step %d s): %d events %s..., expected one per row %s..." % (prices, step_s, len(got_), got_[:3], want[:3]))
            finally:
                import shutil
                shutil.rmtree(d_, ignore_errors=True)
        return bad[:3]

    # ---- Coq
    @staticmethod
    def cost_c(c, opt=False):
        if c is None:
            return "CNone"
        if c[0] == "fixed":
            return "(CFixed %s)" % C.q(c[1])
        return "(CPoly %s)" % C.lst(C.q(x) for x in c[1])

    def emit(self, case, out):
        ini, evl = out["init"], out["events"]
        zq = lambda x: "(%s)%%Q" % C.q(x)  # noqa
        oq = lambda x: "None" if x is None else "(Some %s)" % zq(x)  # noqa
        oz = lambda x: "None" if x is None else "(Some (%d))" % x  # noqa
        ob = lambda x: "None" if x is None else "(Some %s)" % C.b(x)  # noqa
        os_ = lambda x: "None" if x is None else '(Some "%s")' % x  # noqa
        loads = lambda l: C.lst('("%s", %s)' % (k, zq(v)) for k, v in l)  # noqa
        gcs = C.lst('("%s", {| g_maxp := %s; g_cur := %s; g_loads := %s; g_cost := %s; g_target := %s; g_window := %s |})' % (
            k, zq(mx), oq(cur), loads(ld), self.cost_c(cst), oq(tg), ob(win)) for k, mx, cur, ld, cst, tg, win in ini["gcs"])
        veh = C.lst('("%s", {| v_cs := %s; v_soc := %s; v_desired := %s; v_etd := %s; v_eta := %s; v_schedule := %s; v_delta := None |})' % (
            k, os_(cs), zq(soc), zq(des), oz(etd), oz(eta), oq(sch)) for k, cs, soc, des, etd, eta, sch in ini["veh"])
        world = ("{| w_time := %d; w_gcs := %s; w_veh := %s; w_cs := %s; w_bat := %s; w_future := []; w_desired_cnt := 0%%nat; "
                 "w_margin_cnt := 0%%nat; w_tracker := [] |}") % (out["t0"] - out["delta"], gcs, veh, C.lst('"%s"' % x for x in ini["cs"]),
                                                               C.lst('"%s"' % x for x in ini["bat"]))
        opts = "{| o_eps := %s; o_margin := %s; o_allow_neg := %s; o_reset_neg := %s; o_interval := %d |}" % (
            zq(ini["eps"]), zq(ini["margin"]), C.b(case["opts"]["ALLOW_NEGATIVE_SOC"]), C.b(case["opts"]["RESET_NEGATIVE_SOC"]), out["delta"])

        def upd(u):
            def oo(key, conv):
                return "(Some %s)" % conv(u[key]) if key in u else "None"
            return "{| u_cs := %s; u_etd := %s; u_eta := %s; u_desired := %s; u_delta := %s; u_schedule := %s |}" % (
                oo("connected_charging_station", os_), oo("estimated_time_of_departure", lambda d: oz(None if d is None else us(d))),
                oo("estimated_time_of_arrival", lambda d: oz(None if d is None else us(d))),
                "(Some %s)" % zq(fr(u["desired_soc"])) if "desired_soc" in u else "None",
                "(Some %s)" % zq(fr(u["soc_delta"])) if "soc_delta" in u else "None",
                "(Some %s)" % zq(fr(u["schedule"])) if "schedule" in u else "None")
        vt = {"arrival": "VArrival", "departure": "VDeparture"}
        vevs = C.lst('{| e_start := %d; e_signal := %d; e_kind := EVeh "%s" %s %s |}' % (st, sg, vid, vt.get(et, "VOther"), upd(u))
                     for st, sg, vid, et, u in evl["veh"])
        sigs = C.lst('{| e_start := %d; e_signal := %d; e_kind := ESignal "%s" %s %s %s %s |}' % (
            st, sg, gc, oq(mp), "None" if cst == ("none",) else "(Some %s)" % self.cost_c(cst), oq(tg), ob(win))
            for st, sg, gc, mp, cst, tg, win in evl["sig"])
        series = C.lst('{| sr_gen := %s; sr_gc := "%s"; sr_name := "%s"; sr_start := %d; sr_step := %d; sr_factor := %s; sr_vals := %s |}' % (
            C.b(gen), gc, name, st, step, zq(fac), C.lst(zq(v) for v in vals)) for gen, gc, name, st, step, fac, vals in evl["series"])
        exp = C.lst("{| so_err := %s; so_gcs := %s; so_veh := %s; so_cnt := (%d%%nat,%d%%nat); so_tracker := %s; so_future := %d%%nat |}" % (
            "None" if o["err"] is None else "(Some %s)" % o["err"],
            C.lst("{| go_cur := %s; go_loads := %s; go_cost := %s; go_target := %s; go_window := %s |}" % (
                oq(g["cur"]), loads(g["loads"]), self.cost_c(g["cost"]), oq(g["target"]), ob(g["window"])) for g in o["gcs"]),
            C.lst("{| vo_cs := %s; vo_soc := %s; vo_desired := %s; vo_etd := %s; vo_sched := %s; vo_hasdelta := %s |}" % (
                os_(v["cs"]), zq(v["soc"]), zq(v["desired"]), oz(v["etd"]), oq(v["sched"]), C.b(v["hasdelta"])) for v in o["veh"]),
            o["cnt"][0], o["cnt"][1], C.lst('("%s", %s)' % (k, C.lst(str(t) for t in l)) for k, l in o["tracker"]), o["future"])
            for o in out["obs"])
        return ("{| ec_world := %s; ec_opts := %s; ec_t0 := %d; ec_n := %d%%nat; ec_veh_events := %s; ec_signals := %s; "
                "ec_series := %s; ec_exp := %s |}") % (world, opts, out["t0"], case["n"], vevs, sigs, series, exp)

    # ---- independent declarative reference (property text), compared with the implementation
    def check_property(self, case, out):
        v = spec_check(case, out)
        for b_ in out.get("parse", []):
            v.append(("C07/event-parse", "an event of the input is not handed on unchanged by its reader: %s" % b_))
        return v


def ceil_div(a, b):
    return -((-a) // b)


def spec_check(case, out):
    """Each event takes effect at the first step at or after its start (not before it was signalled); events signalled
    after the last step are ignored; per step, events apply in chronological order (ties: earlier delivery, then input order);
    the state is the result of applying them in that order (last writer wins)."""
    ini, evl, t0, delta, n = out["init"], out["events"], out["t0"], out["delta"], case["n"]
    allev = []
    for st, sg, vid, et, u in evl["veh"]:
        allev.append({"start": st, "signal": sg, "k": "veh", "vid": vid, "et": et, "u": u})
    for st, sg, gc, mp, cst, tg, win in evl["sig"]:
        allev.append({"start": st, "signal": sg, "k": "sig", "gc": gc, "mp": mp, "cost": cst, "target": tg, "window": win})
    for want_gen in (False, True):
        for gen, gc, name, st, step, fac, vals in evl["series"]:
            if gen != want_gen:
                continue
            for i, v in enumerate(list(vals) + [F(0)]):
                allev.append({"start": st + i * step, "signal": st if gen else st + i * step, "k": "gen" if gen else "fix",
                              "gc": gc, "name": name, "value": v * fac})
    for pos, e in enumerate(allev):
        e["pos"] = pos
        d = max(0, ceil_div(e["signal"] - t0, delta))
        e["deliver"] = d
        e["eff"] = None if d >= n else max(d, ceil_div(e["start"] - t0, delta))
    gcs = {k: {"max": mx, "cur": cur, "loads": dict((a, b_) for a, b_ in ld), "cost": cst, "target": tg, "window": win}
           for k, mx, cur, ld, cst, tg, win in ini["gcs"]}
    veh = {k: {"cs": cs, "soc": soc, "desired": des, "etd": etd, "delta": None} for k, cs, soc, des, etd, eta, sch in ini["veh"]}
    cnt = 0
    tracker = {}
    eps = ini["eps"]
    v = []
    for i, o in enumerate(out["obs"]):
        now = t0 + i * delta
        due = sorted((e for e in allev if e["eff"] == i), key=lambda e: (e["start"], e["deliver"], e["pos"]))
        err = None
        for e in due:
            if e["k"] in ("fix", "gen"):
                if e["k"] == "gen" and e["name"] in ini["cs"]:
                    err = "assert"
                    break
                if e["gc"] not in gcs:
                    continue
                if e["name"] in ini["cs"]:
                    err = "assert"
                    break
                gcs[e["gc"]]["loads"][e["name"]] = e["value"] if e["k"] == "fix" else -e["value"]
            elif e["k"] == "sig":
                g = gcs.get(e["gc"])
                if g is None:
                    continue
                if e["cost"] != ("none",):
                    g["cost"] = e["cost"]
                if e["target"] is not None:
                    g["target"] = e["target"]
                if e["window"] is not None:
                    g["window"] = e["window"]
                if e["mp"] is not None:
                    g["cur"] = min(g["max"], e["mp"])      # a limit can lower but never raise the rating
            else:
                x = veh.get(e["vid"])
                if x is None:
                    continue
                was_connected = x["cs"] is not None
                u = e["u"]
                if "connected_charging_station" in u:
                    x["cs"] = u["connected_charging_station"]
                if "desired_soc" in u:
                    x["desired"] = fr(u["desired_soc"])
                if "estimated_time_of_departure" in u:
                    x["etd"] = None if u["estimated_time_of_departure"] is None else us(u["estimated_time_of_departure"])
                if "soc_delta" in u:
                    x["delta"] = fr(u["soc_delta"])
                if e["et"] == "departure":
                    x["etd"] = None
                    if e["start"] < now - delta:
                        x["soc"] = x["desired"]
                    if was_connected and x["soc"] < x["desired"] - eps:
                        cnt += 1
                    x["cs"] = None
                elif e["et"] == "arrival":
                    if x["delta"] is None:
                        err = "assert"
                        break
                    x["soc"] += x["delta"]
                    if x["soc"] + eps < 0:
                        tracker.setdefault(e["vid"], []).append(now)
                        if case["opts"]["ALLOW_NEGATIVE_SOC"]:
                            if case["opts"]["RESET_NEGATIVE_SOC"]:
                                x["soc"] = F(0)
                        else:
                            err = "runtime"
                            break
                    x["delta"] = None
        if err is None:
            for k, g in gcs.items():
                if not g["cost"] and g["target"] is None:
                    err = "nocost"
                    break
        d = "step %d of case start=%s interval=%s n=%s events=%s opts=%s" % (i, case["start"], case["interval"], n, case["events"], case["opts"])
        if (err is None) != (o["err"] is None):
            v.append(("C07/error-mismatch" if err in (None, "assert", "nocost") else "C08/negative-soc-policy",
                      "reference says %s, implementation %s: %s" % (err, o["err"], d)))
            break
        if err is not None:
            break
        for (k, g), og in zip(gcs.items(), o["gcs"]):
            oloads = dict(og["loads"])
            for name, val in g["loads"].items():
                if name in ini["cs"] or name in ini["bat"]:
                    continue
                if oloads.get(name) != val:
                    v.append(("C07/series-value", "%s load %s = %s, expected %s: %s" % (k, name, oloads.get(name), val, d)))
            if og["cur"] != g["cur"]:
                v.append(("C07/limit", "%s cur_max %s, expected min(rating, latest limit) = %s: %s" % (k, og["cur"], g["cur"], d)))
            if og["cost"] != g["cost"] or og["target"] != g["target"] or og["window"] != g["window"]:
                v.append(("C07/signal-state", "%s cost/target/window %s %s %s, expected %s %s %s: %s" % (
                    k, og["cost"], og["target"], og["window"], g["cost"], g["target"], g["window"], d)))
        for (k, x), ov in zip(veh.items(), o["veh"]):
            if ov["soc"] != x["soc"]:
                v.append(("C08/soc", "vehicle %s soc %s, expected %s: %s" % (k, ov["soc"], x["soc"], d)))
            if ov["cs"] != x["cs"] or ov["etd"] != x["etd"] or ov["desired"] != x["desired"]:
                v.append(("C08/connection", "vehicle %s cs/etd/desired %s %s %s, expected %s %s %s: %s" % (
                    k, ov["cs"], ov["etd"], ov["desired"], x["cs"], x["etd"], x["desired"], d)))
        if o["cnt"][0] != cnt:
            v.append(("C08/counter", "desired_counter %s, expected %s: %s" % (o["cnt"][0], cnt, d)))
        if dict((k, l) for k, l in o["tracker"]) != tracker:
            v.append(("C08/tracker", "negative_soc_tracker %s, expected %s: %s" % (o["tracker"], tracker, d)))
        if v:
            break
    return v[:3]


UNIT = EventUnit()
TRUSTED = ["Python datetime arithmetic (aware datetimes -> absolute microseconds), timedelta(seconds=float) rounding of series steps",
           "harness builds Components/Events/Strategy objects directly and calls the base Strategy.step per step"]
RULE = ("random event histories: 1-2 connectors, 1-3 vehicles (+ unknown ids), 0-2 fixed-load/generation series with step lengths "
        "unrelated to the interval and factors, 0-6 grid operator signals (cost/limit/target/window, unknown connector), 0-8 vehicle "
        "events (arrival/departure/schedule; double arrivals, departure without arrival, missing soc_delta), start and signal times "
        "on and off the grid, before/inside/after the horizon, 3-16 steps of 10-60 min, all ALLOW/RESET/margin combinations; "
        "non-trivial = distinct history in which an error, a counter or the tracker is touched")


def weekly_profile(rep, tier, sd):
    """the weekly fixed-load forecast (GridConnector.add_avg_fixed_load_week) is built from the same value series: at
    every step time of the series the value in effect is the last one that started at or before it (the delivery rule of
    the events model); the profile entry of a (weekday, time-of-day) slot is the mean of the values in effect at the step
    times falling into it, 0 for slots never visited.  Implementation-level, floats."""
    import random
    C.setup_repo_path()
    from spice_ev.scenario import Scenario
    rng = random.Random("c07/weekly/%d" % sd)
    n = 0
    for _ in range(12 if tier == "quick" else 150):
        interval = rng.choice([15, 15, 30, 60])
        step_s = rng.choice([interval * 60, 300, 600, 900, 1800, 3600, 2700])
        start = datetime.datetime(2023, 3, rng.randint(1, 20), rng.choice([0, 6, 23]), rng.choice([0, 0, 15]),
                                  tzinfo=datetime.timezone(datetime.timedelta(hours=1)))
        off = datetime.timedelta(minutes=rng.choice([0, 0, 20, -45]))
        nser = rng.choice([1, 1, 2])
        series = {}
        for k in range(nser):
            vals = [round(rng.uniform(0, 20), 2) for _ in range(rng.choice([3, 10, 40, 200]))]
            series["load%d" % k] = {"start_time": scen.iso(start + off), "step_duration_s": step_s, "grid_connector_id": "GC1", "values": vals}
        js = {"scenario": {"start_time": scen.iso(start), "interval": interval, "n_intervals": 4},
              "components": {"vehicle_types": {}, "vehicles": {}, "charging_stations": {}, "batteries": {}, "photovoltaics": {},
                             "grid_connectors": {"GC1": {"max_power": 100, "cost": {"type": "fixed", "value": 0.3}}}},
              "events": {"grid_operator_signals": [], "fixed_load": series, "local_generation": {}, "vehicle_events": []}}
        with warnings.catch_warnings():
            warnings.simplefilter("ignore")
            s = Scenario(js)
        got = s.components.grid_connectors["GC1"].avg_fixed_load
        dt = datetime.timedelta(minutes=interval)
        slots = int(datetime.timedelta(hours=24) / dt)
        want = [[0.0] * slots for _ in range(7)]
        for ser in series.values():
            st0 = datetime.datetime.fromisoformat(ser["start_time"])
            evs = [(st0 + datetime.timedelta(seconds=step_s * i), v) for i, v in enumerate(ser["values"] + [0])]
            acc = {}
            t = st0
            while True:
                cur = [v for (ts, v) in evs if ts <= t]
                key = (t.weekday(), int((t - t.replace(hour=0, minute=0)) / dt))
                acc.setdefault(key, []).append(cur[-1])
                if len(cur) == len(evs):
                    break
                t += dt
            for (wd, sl), vs_ in acc.items():
                want[wd][sl] += sum(vs_) / len(vs_)
        n += 1
        bad = [(wd, sl, got[wd][sl], want[wd][sl]) for wd in range(7) for sl in range(slots) if abs(got[wd][sl] - want[wd][sl]) > 1e-9]
        if bad:
            rep.add_violation("C07/weekly-profile", "weekly fixed-load profile differs from the series' values in effect at the step times: "
                              "(weekday, slot, profile, expected) %s; interval %d min, series step %d s, offset %s"
                              % (bad[:3], interval, step_s, off), {"unit": "weekly", "case": js})
    rep.cov["evaluations"] += n
    rep.notes["weekly_profile_cases"] = n


def window_schedule(rep, tier, sd):
    """window signals under the strategies that look ahead for them (flex_window) or merely obey them (schedule): the window flag
    reported per step (Scenario.gcWindowSchedule) is the value of the latest signal that has taken effect by the delivery rule of the
    events model - first step at or after its start time, never earlier - also for start times off the step grid that were announced
    long before (round-3 seed C07-s8).  Implementation-level, floats."""
    import contextlib
    import io
    import random
    C.setup_repo_path()
    from spice_ev.scenario import Scenario
    rng = random.Random("c07/window/%d" % sd)
    n = 0
    for k in range(8 if tier == "quick" else 80):
        interval = rng.choice([15, 15, 30, 10])
        nint = rng.choice([12, 16])
        start = datetime.datetime(2023, 3, rng.randint(1, 20), rng.choice([0, 6, 22]), 0, tzinfo=datetime.timezone(datetime.timedelta(hours=1)))
        steps_ = sorted(rng.sample(range(1, nint), rng.choice([2, 3, 4])))
        sigs, want, cur = [], [], rng.random() < 0.5
        changes = {0: cur}
        sigs.append((0, cur))
        for st_ in steps_:
            cur = not cur
            off = st_ * interval - rng.choice([0, 0, 1, 7, interval - 1])       # lands in step st_ by the ceiling rule
            sigs.append((off, cur))
            changes[st_] = cur
        val = None
        for i in range(nint):
            val = changes.get(i, val)
            want.append(val)
        early = rng.random() < 0.7
        js = {"scenario": {"start_time": scen.iso(start), "interval": interval, "n_intervals": nint,
                           "core_standing_time": {"times": [{"start": [22, 0], "end": [5, 0]}], "no_drive_days": [6]}},
              "components": {"vehicle_types": {"t": {"name": "t", "capacity": 50, "charging_curve": [[0, 11], [1, 11]]}},
                             "vehicles": {"v1": {"vehicle_type": "t", "soc": 0.4, "desired_soc": 0.8, "connected_charging_station": "cs1",
                                                 "estimated_time_of_departure": scen.iso(start + datetime.timedelta(minutes=interval * (nint - 1)))}},
                             "grid_connectors": {"GC1": {"max_power": 50, "cost": {"type": "fixed", "value": 0.3}}},
                             "charging_stations": {"cs1": {"max_power": 11, "parent": "GC1"}}, "batteries": {}, "photovoltaics": {}},
              "events": {"fixed_load": {}, "local_generation": {}, "vehicle_events": [],
                         "grid_operator_signals": [{"signal_time": scen.iso(start if early else start + datetime.timedelta(minutes=off)),
                                                    "start_time": scen.iso(start + datetime.timedelta(minutes=off)), "grid_connector_id": "GC1",
                                                    "window": w_, "target": 0} for off, w_ in sigs]}}
        strategy, opts = rng.choice([("flex_window", {"LOAD_STRAT": "balanced"}), ("flex_window", {"LOAD_STRAT": "greedy"}),
                                     ("flex_window", {"LOAD_STRAT": "needy"}), ("schedule", {"LOAD_STRAT": "collective"})])
        with warnings.catch_warnings(), contextlib.redirect_stdout(io.StringIO()):
            warnings.simplefilter("ignore")
            s_ = Scenario(js)
            s_.run(strategy, dict(opts, skip_flex_report=True, ALLOW_NEGATIVE_SOC=True))
        got = list(s_.gcWindowSchedule["GC1"])[:s_.step_i]
        n += 1
        if [None if x is None else bool(x) for x in got] != want[:len(got)]:
            bad = [i for i, (a, b_) in enumerate(zip(got, want)) if (None if a is None else bool(a)) != b_]
            rep.add_violation("C07/window-schedule", "%s %s: window flag per step %s, the signals (minutes after start, value) %s take effect at steps %s "
                              "(interval %d min, announced %s): differs at steps %s" % (strategy, opts, got, sigs, sorted(changes), interval,
                                                                                       "at scenario start" if early else "at their start time", bad[:6]),
                              {"unit": "windowsched", "case": js})
    rep.cov["evaluations"] += n
    rep.notes["window_schedule_cases"] = n


def run(tier, pid="C07"):
    def extra(rep, tier_, sd):
        weekly_profile(rep, tier_, sd)
        window_schedule(rep, tier_, sd)
    return corr.standard_run(pid, tier, [UNIT], 500, 6000, TRUSTED, RULE, extra=extra if pid == "C07" else None)


def replay(payload):
    case = payload["input"]["case"]
    if payload["input"].get("unit") == "windowsched":
        rep = C.Report("C07", "quick")
        window_schedule(rep, "quick", C.seed())
        return 1 if rep.violations else 0
    if payload["input"].get("unit") == "weekly":
        rep = C.Report("C07", "quick")
        weekly_profile(rep, "quick", C.seed())
        return 1 if rep.violations else 0
    out = UNIT.run_impl(case)
    v = UNIT.check_property(case, out)
    for cls, what in v:
        print("VIOLATION-REPLAY %s: %s" % (cls, what[:800]))
    print("replay: %d violation(s)" % len(v))
    return 1 if v else 0
