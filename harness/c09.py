"""C09 — service guarantee: feasible charging demands are met by departure.

Theorems (props/C09.v): the planning arithmetic of the modelled strategies (greedy request aims exactly at the
desired SoC; balanced divides the need over ceil(time to departure / interval) steps, never fewer than remain) and
the induction that lifts a per-step "reach the target or charge at full power" dichotomy to the departure
guarantee.  The look-ahead strategies are not modelled: the guarantee itself is evaluated on generated feasible
scenarios against an independent feasibility oracle (implementation-level, sampled)."""
import datetime
import random
from collections import Counter

import common as C
import corr
import svc

TOL = 1e-4
# strategies with foresight of the connector: several vehicles on a tight connector must all be served (feasible by construction)
SHARED_STRATS = ("flex_window", "peak_load_window")


def reach(js, res, p, limit_aware):
    """SoC the vehicle reaches when charged alone at full available power over its standing steps"""
    from spice_ev.battery import Battery
    from spice_ev.loading_curve import LoadingCurve
    comp = js["components"]
    vt = comp["vehicle_types"]["vt"]
    cs = comp["charging_stations"][p["cs"]]
    b = Battery(vt["capacity"], LoadingCurve(vt["charging_curve"]), p["arr_soc"], vt.get("battery_efficiency", 0.95))
    a, d = svc.step_of(res, p["arr_time"]), svc.step_of(res, p["dep_time"])
    for i in range(a, d):
        avail = cs["max_power"]
        if limit_aware:
            avail = min(avail, limit_aware[i])
        if avail > 0:
            b.load(res["interval"], max_power=avail, target_soc=p["desired"])
    return b.soc


def limits(js, res):
    """connector limit per step from the max_power signals"""
    gc = js["components"]["grid_connectors"]["GC1"]
    out = []
    evs = sorted((datetime.datetime.fromisoformat(e["start_time"]), e["max_power"]) for e in js["events"]["grid_operator_signals"]
                 if "max_power" in e)
    for i in range(res["n"]):
        t = res["start"] + res["interval"] * i
        cur = gc["max_power"]
        for st, mp in evs:
            if st <= t:
                cur = min(gc["max_power"], mp)
        out.append(cur)
    return out


def usage(case, res, p, cs, lim, a, d):
    """did the strategy leave encouraged steps of the standing period under-used (station power below what station and
    head room allowed) although the vehicle left short?  'underused' = the plan ignored available encouraged capacity
    (the catalogued even-plan weakness); 'saturated' = every encouraged step was used fully and the rest had to come
    from the discouraged steps"""
    pat = case["pattern"]
    for i in range(a, min(d, len(pat), len(res["charge"]))):
        if pat[i]:
            cap_ = min(cs["max_power"], lim[i]) if lim is not None else cs["max_power"]
            if res["charge"][i].get(p["cs"], 0) < cap_ - 1e-3:
                return "underused"
    return "saturated"


def check_case(case):
    """returns (violations [(cls, what)], stats Counter)"""
    st = Counter()
    js = svc.finish(case)
    if js is None:
        st["infeasible-generated"] += 1
        return [], st
    strategy = case["strategy"]
    res = svc.run(js, strategy, case["extra"])
    v = []
    if res.get("error"):
        return [("C09/%s/crash" % strategy, "run raised %s" % res["error"])], st
    if res["aborted"]:
        st["aborted"] += 1           # connector limit exceeded etc.: the business of C04/C17, not of the service guarantee
    comp = js["components"]
    vt = comp["vehicle_types"]["vt"]
    lim = svc.limit_series(js, res["n"] + 1) if len(comp["vehicles"]) == 1 else None
    rating = svc.limit_series(js, res["n"] + 1, with_fixed=False)
    gc_rating = comp["grid_connectors"]["GC1"]["max_power"]
    for p in res["periods"]:
        if "dep_time" not in p:
            continue
        st["periods"] += 1
        r = reach(js, res, p, lim)
        feasible = r >= p["desired"] - 1e-9
        if case.get("shared"):
            r, feasible = p["desired"], True          # served one after the other every vehicle finishes before its departure (svc.finish)
        cs = comp["charging_stations"][p["cs"]]
        minp = max(cs.get("min_power", 0), vt.get("min_charging_power", 0))
        sliver = minp * (res["interval"].total_seconds() / 3600) * 0.95 / vt["capacity"]
        target = min(p["desired"], r) if strategy == "greedy" else p["desired"]
        if strategy != "greedy" and not feasible:
            st["not-feasible"] += 1
            continue
        st["feasible" if feasible else "greedy-infeasible"] += 1
        short = target - p["dep_soc"]
        if short > TOL:
            taper = len({pw for _, pw in vt["charging_curve"]}) > 1
            a_, d_ = svc.step_of(res, p["arr_time"]), svc.step_of(res, p["dep_time"])
            binding = lim is not None and min(lim[a_:d_] + [cs["max_power"]]) < cs["max_power"] - 1e-9
            cls = ("desired-missed/shared-connector" if case.get("shared") else
                   "min-power-sliver" if (minp > 0 and short <= sliver + TOL) else
                   "desired-missed/taper" if taper else
                   ("desired-missed/headroom/" + ("fixed-load" if js["events"]["fixed_load"] else "limit-signal" if min(rating[a_:d_] + [gc_rating]) < gc_rating - 1e-9 else "rating")
                    + ("/no-slack" if (case["js"]["components"]["vehicles"][p["vid"]].get("_margin") or 1.0) <= 1.0 else "/slack")
                    + (("/" + usage(case, res, p, cs, lim, a_, d_)) if strategy in ("peak_load_window", "flex_window", "balanced_market") else "")) if binding
                   else "desired-missed")
            v.append(("C09/%s/%s" % (strategy, cls),
                      "%s leaves at %s with SoC %.6f, desired %.4f, reachable alone at full power %.6f (short by %.6f; one step at minimum power = %.6f); margin %s, departure offset %s min, interval %s, vehicles %d"
                      % (p["vid"], p["dep_time"], p["dep_soc"], p["desired"], r, short, sliver,
                         case["js"]["components"]["vehicles"][p["vid"]].get("_margin"), case["dep_offset"], js["scenario"]["interval"], len(comp["vehicles"]))))
    return v, st


def run(tier):
    def extra(rep, tier_, sd):
        rng = random.Random("c09/%d" % sd)
        n = 30 if tier_ == "quick" else 300
        dist = Counter()
        for strategy in svc.STRATS:
            for i in range(n + (n if strategy in SHARED_STRATS else 0)):
                case = svc.gen(rng, strategy, shared=(i >= n))
                viol, st = check_case(case)
                for k, c in st.items():
                    dist["%s/%s" % (strategy, k)] += c
                if not rep.cov["samples"] and st.get("feasible"):
                    rep.cov["samples"].append({"strategy": strategy, "scenario": svc.finish(case), "stats": dict(st)})
                for cls, what in viol:
                    rep.add_violation(cls, what, {"unit": "service", "case": case})
        rep.cov["evaluations"] += n * len(svc.STRATS)
        rep.cov["distinct_nontrivial"] += sum(c for k, c in dist.items() if k.endswith("/feasible"))
        rep.notes["service"] = {"scenarios_per_strategy": n, "dist": dict(dist)}
    import c07
    import c10

    def extra2(rep, tier_, sd):
        extra(rep, tier_, sd)
        # the fixed-load forecast the look-ahead strategies plan with (round-3 seed C09-s7)
        c07.weekly_profile(rep, tier_, sd)
    with c10.prepared(tier, n_fast=60 if tier == "quick" else 200) as strat_unit:
        return _standard(tier, [strat_unit], extra2)


def _standard(tier, units, extra):
    return corr.standard_run(
        "C09", tier, units, 0, 0,
        trusted=["the look-ahead strategies (balanced_market, peak_load_window, flex_window, distributed) are NOT modelled; the "
                 "guarantee is evaluated on generated scenarios with the harness's own feasibility oracle (vehicle alone, full "
                 "station power over its standing steps, implementation's Battery class)",
                 "greedy/balanced planning arithmetic: Strat.v, tied to /repo by the per-step correspondence of ./check C10"],
        rule="every completed standing period of generated one-connector scenarios (1-4 vehicles, margins 1.0-3x over the needed "
             "steps, aligned/unaligned departures, fixed load, price levels, windows, reduced connector limit): SoC at departure >= "
             "desired - 1e-4 when feasible; greedy: >= min(desired, reachable at full available power) - 1e-4",
        extra=extra)


def replay(payload):
    if payload["input"].get("unit") == "stratstep":
        import c10
        return c10.replay(payload)
    if payload["input"].get("unit") == "weekly":
        import c07
        return c07.replay(payload)
    case = payload["input"]["case"]
    v, _ = check_case(case)
    return v
