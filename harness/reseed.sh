#!/bin/sh
# usage: reseed.sh <seed-id> [check-pid] [worktree]   re-tests a filed seed in a scratch worktree via seedpar.sh; updates meta.json when detected
SID=$1; PID=${2:-${SID%%-*}}; WT=${3:-/tmp/wtr_$SID}
[ -d $WT ] || git -C /repo worktree add --detach $WT >/dev/null 2>&1
cd $WT && git checkout -q -- . && git apply /verif/seeded/$SID/patch.diff || exit 2
OUT=$(/verif/harness/seedpar.sh $PID $WT quick)
git checkout -q -- .
echo "$SID [$PID]: $(echo "$OUT" | grep -c VIOLATION) violation line(s); $(echo "$OUT" | tail -2 | tr '\n' ' ')"
if echo "$OUT" | grep -q "VIOLATION property"; then
python3 - $SID "$(echo "$OUT" | grep -o 'VIOLATION property=C[0-9]*' | sort -u | tr '\n' ' ')" <<'PY'
import json,sys
p='/verif/seeded/%s/meta.json'%sys.argv[1]; m=json.load(open(p))
if not m.get('detected_by_quick_check'):
    m['detected_by_quick_check']=True; m['detected_as']=sys.argv[2].strip(); m['detected_after_strengthening']=True
    json.dump(m,open(p,'w'),indent=1)
PY
fi
case $WT in /tmp/wtr_*) git -C /repo worktree remove --force $WT;; esac
