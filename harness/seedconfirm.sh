#!/bin/sh
# usage: seedconfirm.sh <worktree> <seeddir under /verif/seeded> <PID> <needs...>
# confirms in a scratch worktree: demo passes without the patch, fails with it, test suite passes with it; writes meta.json
WT=$1; SD=$2; PID=$3; shift 3
cd $WT || exit 2
git checkout -q -- . ; git checkout -q --detach main 2>/dev/null
PYTHONPATH=$WT /venv/bin/python $SD/demo.py >/dev/null 2>&1; D0=$?
git apply $SD/patch.diff || exit 2
PYTHONPATH=$WT /venv/bin/python $SD/demo.py >/dev/null 2>&1; D1=$?
T=$(PYTHONPATH=$WT /venv/bin/python -m pytest -q -p no:cacheprovider --timeout=900 2>&1 | tail -1)
git checkout -q -- .
DET=$(grep -o "VIOLATION property=C[0-9]*" /tmp/seedtest_$(basename $SD).log 2>/dev/null | sort -u | tr '\n' ' ')
python3 - "$SD" "$PID" "$D0" "$D1" "$T" "$DET" "$*" <<'PY'
import json,sys,os
sd,pid,d0,d1,t,det,needs=sys.argv[1:8]
notes=open(os.path.join(sd,'notes.txt')).read() if os.path.exists(os.path.join(sd,'notes.txt')) else ''
json.dump({"property":pid,"breaks":notes.strip(),"needs_to_manifest":needs,
 "confirmed":{"demo_exit_unpatched":int(d0),"demo_exit_patched":int(d1),"test_suite_with_patch":t.strip()},
 "ran":["git apply patch.diff in a scratch worktree; demo.py; full pytest","/verif/harness/seedtest.sh: patch applied to /repo, ./check %s --tier quick, reverted"%pid],
 "detected_by_quick_check": bool(det.strip()), "detected_as": det.strip()},open(os.path.join(sd,'meta.json'),'w'),indent=1)
print(sd,"demo",d0,d1,"|",t.strip(),"| detected",det)
PY
