"""C20 — trip-table vehicle assignment is conflict-free and frugal."""
import datetime

import common as C
import corr

FMT = '%Y-%m-%d %H:%M:%S'
T0 = datetime.datetime(2023, 1, 2)
US = datetime.timedelta(microseconds=1)
TYPESETS = [["bus"], ["bus", "minibus"], ["car", "carrier", "ar"], ["a", "b", "c"], ["van", "van_2"], ["e", "ev", "bev"],
            ["sprinter", "golf"]]


def vtypes(names, rng):
    d = {}
    for n in names:
        P = rng.choice([11, 22, 50, 150, 3.7])
        cap = rng.choice([20, 50, 76.5, 100, 300, 5])
        d[n] = {"capacity": cap, "charging_curve": [[0, P], [0.8, P], [1, rng.choice([P, P / 2, P * 2])]]}
    return d


def standing_us(vt):
    """harness's own reading of the documented minimum standing time: capacity / station power (max of curve)"""
    out = {}
    for n, info in vt.items():
        p = max(v[1] for v in info["charging_curve"])
        out[n] = datetime.timedelta(hours=info["capacity"] / p) // US
    return out


class AssignUnit(corr.Unit):
    name = "assign"
    header = ("From Coq Require Import ZArith List Bool String.\nFrom SV Require Import Assign AssignRun.\n"
              "Import ListNotations.\nOpen Scope Z_scope.\nOpen Scope string_scope.\n")
    casetype = "acase"
    failing = "failing"
    tagfn = "tag"
    runfn = "run_acase"
    trivial_tags = (None, 0)
    per_file = 150

    def generate(self, rng, n, biased=False):
        cases = []
        for _ in range(n):
            names = rng.choice(TYPESETS)
            vt = vtypes(names, rng)
            k = rng.choice([1, 2, 3, 5, 8, 12, 20, 40]) if not biased else rng.choice([3, 4, 5, 6, 8])
            span = rng.choice([6, 24, 72]) * 3600
            gran = rng.choice([60, 300, 900, 3600, 1, 7, 30, 3600])      # seconds matter too
            if gran < 60:
                # dense tables with short standing times: reuse decisions hinge on seconds (round-3 seed C20-s7)
                span = rng.choice([600, 1800, 3600])
                k = max(k, rng.choice([8, 12, 20]))
                if rng.random() < 0.6:
                    for info in vt.values():
                        info["capacity"] = rng.choice([5, 2, 1])
            trips = []
            for _ in range(k):
                d = rng.randrange(0, span // gran) * gran
                dur = rng.choice([gran, 2 * gran, rng.randrange(1, 12) * gran, rng.randrange(1, 40) * gran])
                a = d + dur
                if rng.random() < 0.05:
                    a = d - rng.randrange(0, 3) * gran   # malformed: arrival not after departure
                t = rng.choice(names)
                if rng.random() < 0.004:
                    t = "ghost"
                trips.append([d, a, t])
            if k >= 3 and rng.random() < 0.3:
                trips.append(list(trips[rng.randrange(len(trips))]))        # two identical rotations (same line twice in a table)
            cases.append({"types": vt, "trips": trips, "via_csv": rng.random() < 0.5})
        return cases

    def run_impl(self, case):
        from spice_ev.generate.generate_from_csv import assign_vehicle_id
        rows = [{"departure_time": (T0 + datetime.timedelta(seconds=d)).strftime(FMT),
                 "arrival_time": (T0 + datetime.timedelta(seconds=a)).strftime(FMT),
                 "vehicle_type": t} for d, a, t in case["trips"]]
        import copy
        if case.get("via_csv"):
            # the trip table goes through the project's own CSV reader (glue: csv_to_dict), mixed-case header
            import csv
            import os
            import tempfile
            from spice_ev.generate.generate_from_csv import csv_to_dict
            fd, path = tempfile.mkstemp(suffix=".csv", prefix="verif_c20_")
            try:
                with os.fdopen(fd, "w", newline="") as f:
                    w = csv.writer(f)
                    w.writerow(["Departure_time", "arrival_time", "vehicle_type"])
                    for r in rows:
                        w.writerow([r["departure_time"], r["arrival_time"], r["vehicle_type"]])
                rows = csv_to_dict(path)
            finally:
                os.unlink(path)
        try:
            res = assign_vehicle_id(rows, copy.deepcopy(case["types"]))
            return {"ok": [r["vehicle_id"] for r in res]}
        except KeyError:
            return {"err": "KeyErr"}

    def emit(self, case, out):
        st = standing_us(case["types"])
        types = C.lst('("%s", %d)' % (n, st[n]) for n in case["types"])
        trips = C.lst('(%s, %s, "%s")' % (C.z(d * 10**6), C.z(a * 10**6), t) for d, a, t in case["trips"])
        exp = "None" if "err" in out else "Some " + C.lst('"%s"' % v for v in out["ok"])
        return "{| ac_types := %s; ac_trips := %s; ac_exp := %s |}" % (types, trips, exp)

    def check_property(self, case, out):
        if "err" in out:
            return []
        st = standing_us(case["types"])
        trips = case["trips"]
        ids = out["ok"]
        order = sorted(range(len(trips)), key=lambda i: trips[i][0])   # stable: processing order
        v = []
        seen = {}    # vehicle -> list of processed trip indices
        wf = all(a >= d for d, a, _ in trips)
        for j in order:
            d, a, t = trips[j]
            vid = ids[j]
            vtype = vid.rsplit("_", 1)[0]
            if vtype != t:
                v.append(("C20/type-pure", "trip of type %r served by vehicle %r; trips=%s" % (t, vid, trips)))
            busy_until = {w: max(trips[i][1] * 10**6 + st[trips[i][2]] for i in seen[w]) for w in seen}
            if vid in seen:
                for i in seen[vid]:
                    if not d * 10**6 > trips[i][1] * 10**6 + st[trips[i][2]]:
                        v.append(("C20/min-standing", "vehicle %s: trip departing %s follows arrival %s with standing %s us; trips=%s"
                                  % (vid, d, trips[i][1], st[trips[i][2]], trips)))
                if wf:
                    idle_same = [w for w in seen if w.rsplit("_", 1)[0] == t and busy_until[w] < d * 10**6]
                    if vid in idle_same and busy_until[vid] > min(busy_until[w] for w in idle_same):
                        v.append(("C20/fifo", "vehicle %s reused although %s has been idle longer; trips=%s ids=%s"
                                  % (vid, min(idle_same, key=lambda w: busy_until[w]), trips, ids)))
            else:
                idle_same = [w for w in seen if w.rsplit("_", 1)[0] == t and busy_until[w] < d * 10**6]
                if idle_same:
                    v.append(("C20/frugal", "new vehicle %s created for departure %s while %s of the same type is idle; trips=%s ids=%s"
                              % (vid, d, idle_same, trips, ids)))
            seen.setdefault(vid, []).append(j)
        return v[:3]


UNIT = AssignUnit()
TRUSTED = ["Python datetime/strptime and timedelta(hours=float) rounding as glue: minimum standing times enter the model as "
           "integers (microseconds) computed by the harness from capacity / max curve power"]
RULE = ("random trip tables: 1-40 trips, 1-3 vehicle types from 7 name sets incl. names containing each other (bus/minibus, "
        "car/carrier/ar, van/van_2), departures on 1-60 min grids over 6-72 h, random order, 5% malformed trips, rare unknown "
        "type; non-trivial = distinct table in which the model reuses at least one vehicle or raises")


def run(tier):
    return corr.standard_run("C20", tier, [UNIT], 600, 6000, TRUSTED, RULE)


def replay(payload):
    case = payload["input"]["case"]
    out = UNIT.run_impl(case)
    v = UNIT.check_property(case, out)
    for cls, what in v:
        print("VIOLATION-REPLAY %s: %s" % (cls, what))
    print("replay: %d violation(s)" % len(v))
    return 1 if v else 0
