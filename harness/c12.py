"""C12 — electricity costs follow the tariff rules of the price sheet."""
import copy
import datetime
import json
import os
import shutil
import tempfile
import warnings
from fractions import Fraction as F
from types import SimpleNamespace as NS

import common as C
import corr
from ex import Ex, fr

CC = ["fixed_wo_plw", "fixed_w_plw", "variable_wo_plw", "variable_w_plw", "balanced_market", "schedule", "flex_window"]
CCQ = ["FixedWo", "FixedW", "VarWo", "VarW", "BalMarket", "Schedule", "FlexWindow"]
LEVELS = ["HV", "HV/MV", "MV", "MV/LV", "LV"]
_SHEET = None


def base_sheet():
    global _SHEET
    if _SHEET is None:
        _SHEET = json.load(open(os.path.join(C.REPO, "examples", "data", "price_sheet.json")))["default_grid_operator"]
    return copy.deepcopy(_SHEET)


def gen_case(rng):
    n = rng.choice([4, 4, 8, 12, 24, 48, 96])
    minutes = rng.choice([5, 10, 15, 15, 30, 60, 45, 40, 25])
    cc = rng.choice(CC)
    scale = rng.choice([0.05, 1, 10, 100, 1000, 3000])
    kind = rng.choice(["flat", "peaky", "rand", "zero", "boundary", "exact"])
    if kind == "flat":
        sup = [-scale] * n
    elif kind == "peaky":
        sup = [-scale * (10 if i == rng.randrange(n) else 1) for i in range(n)]
    elif kind == "zero":
        sup = [0] * n
    elif kind == "boundary":
        # energy per year close to 100 MWh/a or utilisation close to 2500 h/a
        if rng.random() < 0.5:
            p = 100000 / 8760 * rng.choice([1, 0.999, 1.001])
            sup = [-p] * n
        else:
            peak = rng.choice([200, 50])
            avg = peak * 2500 / 8760 * rng.choice([1, 0.99, 1.01])
            rest = (avg * n - peak) / max(n - 1, 1)
            sup = [-peak] + [-rest] * (n - 1)
    elif kind == "exact":
        # exactly ON a bracket boundary, in the arithmetic the code uses (float year fraction, exact rationals otherwise)
        fy = F(n * datetime.timedelta(minutes=minutes) / datetime.timedelta(days=365))
        hrs = F(minutes, 60)
        if rng.random() < 0.5:
            p = F(100000) * fy / (n * hrs) + rng.choice([0, 0, F(1, 10**9), -F(1, 10**9)])       # energy per year == 100 000 kWh
            sup = [-p] * n
        else:
            peak = F(rng.choice([200, 50]))                                                  # utilisation == 2500 h/a
            e_sim = 2500 * peak * fy + rng.choice([0, 0, F(1, 10**6), -F(1, 10**6)])
            rest = (e_sim / hrs - peak) / (n - 1)
            sup = [-peak] + [-rest] * (n - 1)
    else:
        sup = [-round(rng.uniform(0, scale), 3) for _ in range(n)]
    if rng.random() < 0.3 and kind != "exact":
        sup = [s if rng.random() < 0.8 else abs(s) + 1 for s in sup]       # some feed-in steps
    fixl = [round(rng.uniform(0, scale * 0.6), 3) if rng.random() < 0.8 else -1 for _ in range(n)] if rng.random() < 0.7 else [0] * n
    def opt(f):
        return [round(max(0, rng.uniform(-scale, scale)), 3) for _ in range(n)] if rng.random() < f else None
    gen, v2g, bat = opt(0.5), opt(0.3), opt(0.3)
    window = [rng.random() < 0.4 for _ in range(n)] if (rng.random() < 0.7 or cc == "flex_window") else None
    if window and rng.random() < 0.15:
        window = [True] * n
    schedule = [round(rng.uniform(-scale, scale), 2) for _ in range(n)] if rng.random() < 0.7 else None
    pl = None
    prices = [round(rng.choice([0.05, 0.1, 0.3, 0.3, -0.04]) * rng.choice([1, 1, 0.5]), 3) for _ in range(n)]      # negative prices occur
    if cc.startswith("variable"):
        pl = {}
        if rng.random() < 0.7:
            pl["procurement"] = [p * 100 for p in prices]
        if rng.random() < 0.6:
            pl["commodity"] = [round(rng.uniform(1, 9), 2) for _ in range(n)]
        if rng.random() < 0.05:
            pl = {}
    elif cc == "balanced_market":
        r = rng.random()
        pl = prices if r < 0.6 else ({"commodity": prices} if r < 0.8 else None)
    sheet = base_sheet()
    if rng.random() < 0.5:
        for lv in LEVELS:
            for k in ("<2500_h/a", ">=2500_h/a"):
                sheet["grid_fee"]["RLM"][k]["capacity_charge_EUR/kW*a"][lv] = round(rng.uniform(10, 120), 2)
                sheet["grid_fee"]["RLM"][k]["commodity_charge_ct/kWh"][lv] = round(rng.uniform(0.5, 6), 2)
        sheet["grid_fee"]["RLM"]["additional_costs"]["costs"] = rng.choice([0, 120.5])
        sheet["levies"]["EEG_levy"] = rng.choice([0, 3.723])
        sheet["taxes"]["value_added_tax"] = rng.choice([19, 7, 0])
        sheet["feed-in_remuneration"]["V2G"] = rng.choice([0, 4.1])
        sheet["feed-in_remuneration"]["battery"] = rng.choice([0, 2.5])
        sheet["strategy_related"]["schedule"]["deviation_tolerance"] = rng.choice([0.1, 0, 0.25])
    return {"cc": cc, "level": rng.choice(LEVELS), "minutes": minutes, "n": n, "supply": sup, "fix": fixl, "gen": gen, "v2g": v2g, "bat": bat,
            "window": window, "schedule": schedule, "prices": pl, "fee": rng.choice([None, None, "SLP", "RLM"]),
            "pv": rng.choice([0, 0, 5, 10, 30, 40, 100, 150]), "sheet": sheet}


def transform(case, how):
    c = copy.deepcopy(case)
    def rep(l, k):
        return None if l is None else l * k
    def dbl(l):
        return None if l is None else [x for x in l for _ in (0, 1)]
    f = (lambda l: rep(l, 3)) if how == "repeat" else dbl
    for key in ("supply", "fix", "gen", "v2g", "bat", "window", "schedule"):
        c[key] = f(c[key])
    if isinstance(c["prices"], dict):
        c["prices"] = {k: f(v) for k, v in c["prices"].items()}
    else:
        c["prices"] = f(c["prices"])
    c["n"] = len(c["supply"])
    if how == "halve":
        c["half"] = True
    return c


class CostUnit(corr.Unit):
    name = "costs"
    header = ("From Coq Require Import ZArith QArith List Bool.\nFrom SV Require Import Num Costs CostsRun.\n"
              "Import ListNotations.\nOpen Scope Q_scope.\n")
    casetype = "ccase"
    failing = "failing"
    tagfn = "tag"
    runfn = "run_ccase"
    trivial_tags = (None, 0)
    per_file = 40
    relational = True

    def generate(self, rng, n, biased=False):
        return [gen_case(rng) for _ in range(n)]

    def interval(self, case):
        secs = case["minutes"] * 60
        return datetime.timedelta(seconds=secs / 2 if case.get("half") else secs)

    def call(self, case, want_json=True):
        from spice_ev import costs
        tmp = tempfile.mkdtemp(prefix="verif_c12_")
        captured = {}
        real_json = json
        try:
            ps = os.path.join(tmp, "ps.json")
            real_json.dump({"op": case["sheet"]}, open(ps, "w"))
            rj = os.path.join(tmp, "res.json")
            real_json.dump({"peak load time windows": {}}, open(rj, "w"))

            def dump(obj, fp, **kw):
                captured["json"] = obj
            costs.json = NS(load=real_json.load, dump=dump)
            iv = self.interval(case)
            ts = [datetime.datetime(2023, 1, 1) + i * iv for i in range(case["n"])]
            ex = lambda l: None if l is None else [Ex(x) for x in l]  # noqa
            pl = case["prices"]
            if isinstance(pl, dict):
                pl = {k: ex(v) for k, v in pl.items()}
            else:
                pl = ex(pl)
            with warnings.catch_warnings():
                warnings.simplefilter("ignore")
                try:
                    r = costs.calculate_costs(case["cc"], case["level"], iv, ts, ex(case["supply"]), pl, ex(case["fix"]), ex(case["gen"]),
                                              ex(case["v2g"]), ex(case["bat"]), case["window"], ps, "op", case["fee"], rj if want_json else None,
                                              Ex(case["pv"]), ex(case["schedule"]))
                except Exception as e:  # noqa
                    return {"err": C.err(e), "exc": repr(e)[:200]}
            out = {"ret": {k: (None if v is None else fr(v)) for k, v in r.items()}}
            if want_json:
                out["json"] = captured["json"]["costs"]["electricity costs"]
            return out
        finally:
            costs.json = real_json
            shutil.rmtree(tmp, ignore_errors=True)

    def run_impl(self, case):
        out = self.call(case)
        if self.relational and "err" not in out:
            out["repeat"] = self.call(transform(case, "repeat"), want_json=False)
            out["halve"] = self.call(transform(case, "halve"), want_json=False)
        return out

    # ---- Coq
    def emit(self, case, out):
        sh, lv = case["sheet"], case["level"]
        rlm = sh["grid_fee"]["RLM"]
        q = lambda x: C.q(F(x))  # noqa
        sheet = ("{| slp_basic := %s; slp_commodity := %s; lo_capacity := %s; lo_commodity := %s; hi_capacity := %s; hi_commodity := %s; "
                 "additional := %s; procurement := %s; eeg := %s; chp := %s; indiv := %s; offshore := %s; interruptible := %s; "
                 "concession := %s; vat_percent := %s; etax := %s; pv_kwp := %s; pv_rem := %s; v2g_rem := %s; bat_rem := %s; "
                 "plw_threshold := %s; sched_reduction := %s; sched_dev_charge := %s; sched_dev_tol := %s |}") % (
            q(sh["grid_fee"]["SLP"]["basic_charge_EUR/a"]["net_price"]), q(sh["grid_fee"]["SLP"]["commodity_charge_ct/kWh"]["net_price"]),
            q(rlm["<2500_h/a"]["capacity_charge_EUR/kW*a"][lv]), q(rlm["<2500_h/a"]["commodity_charge_ct/kWh"][lv]),
            q(rlm[">=2500_h/a"]["capacity_charge_EUR/kW*a"][lv]), q(rlm[">=2500_h/a"]["commodity_charge_ct/kWh"][lv]),
            q(rlm["additional_costs"]["costs"]), q(sh["power_procurement"]["charge"]),
            q(sh["levies"]["EEG_levy"]), q(sh["levies"]["chp_levy"]), q(sh["levies"]["individual_charge_levy"]),
            q(sh["levies"]["offshore_levy"]), q(sh["levies"]["interruptible_loads_levy"]), q(sh["concession_fee"]["charge"]),
            q(sh["taxes"]["value_added_tax"]), q(sh["taxes"]["tax_on_electricity"]),
            C.lst(q(x) for x in sh["feed-in_remuneration"]["PV"]["kWp"]), C.lst(q(x) for x in sh["feed-in_remuneration"]["PV"]["remuneration"]),
            q(sh["feed-in_remuneration"]["V2G"]), q(sh["feed-in_remuneration"]["battery"]),
            q(sh["strategy_related"]["peak_load_window"]["significance_threshold"][lv]),
            q(sh["strategy_related"]["schedule"]["reduction_of_commodity_charge"]),
            q(sh["strategy_related"]["schedule"]["deviation_charge"]), q(sh["strategy_related"]["schedule"]["deviation_tolerance"]))
        iv = self.interval(case)
        secs = iv.total_seconds()
        fy = case["n"] * iv / datetime.timedelta(days=365)
        ql = lambda l: C.lst(q(x) for x in l)  # noqa
        oql = lambda l: "None" if l is None else "(Some %s)" % ql(l)  # noqa
        pl = case["prices"]
        pc = pp = None
        if isinstance(pl, dict):
            pc, pp = pl.get("commodity"), pl.get("procurement")
        elif pl is not None:
            pc = pl
        inp = ("{| i_cc := %s; i_fee := %s; i_secs := %s; i_tsh := %s; i_fy := %s; i_n := %d%%nat; i_supply := %s; "
               "i_prices_commodity := %s; i_prices_procurement := %s; i_fix := %s; i_gen := %s; i_v2g := %s; i_bat := %s; "
               "i_window := %s; i_schedule := %s; i_pv_nominal := %s; i_vat := %s; i_add_sim := %s |}") % (
            CCQ[CC.index(case["cc"])], "None" if case["fee"] is None else "(Some %s)" % case["fee"], q(secs), q(secs / 3600), q(fy), case["n"],
            ql(case["supply"]), oql(pc), oql(pp), ql(case["fix"]), oql(case["gen"]), oql(case["v2g"]), oql(case["bat"]),
            "None" if case["window"] is None else "(Some %s)" % C.lst(C.b(x) for x in case["window"]), oql(case["schedule"]), q(case["pv"]),
            q(sh["taxes"]["value_added_tax"] / 100), q(rlm["additional_costs"]["costs"] * fy))
        if "err" in out:
            exp = "Err %s" % out["err"]
        else:
            r, j = out["ret"], out["json"]
            py, sim = j["per year"], j["for simulation period"]
            ret = [r["total_costs_per_year"], r["commodity_costs_eur_per_year"], r["capacity_costs_eur"], r["power_procurement_costs_per_year"],
                   r["levies_fees_and_taxes_per_year"], r["feed_in_remuneration_per_year"]]
            lev = ["EEG levy", "chp levy", "individual charge levy", "Offshore levy", "interruptible loads levy"]
            js = [sim["total (gross)"], sim["grid fee"]["commodity costs"]["total costs"], py["grid_fee"]["additional costs"],
                  sim["grid fee"]["additional costs"], sim["power procurement"], sim["taxes"]["value added tax"], sim["taxes"]["tax on electricity"],
                  sim["concession fee"], py["taxes"]["value added tax"], py["taxes"]["tax on electricity"], py["concession fee"]]
            js += [py["levies"][k] for k in lev] + [sim["levies"][k] for k in lev]
            js += [py["feed-in remuneration"][k] for k in ("PV", "V2G", "battery")] + [sim["feed-in remuneration"][k] for k in ("PV", "V2G", "battery")]
            # values that never met an exact number (e.g. the SLP basic charge) come back as floats rounded by
            # Python's float round(): canonicalise every 2-decimal output to the exact 2-decimal rational
            r2 = lambda x: F(round(fr(x), 2))  # noqa
            ret = [r2(x) for x in ret]
            js = [r2(x) for x in js]
            exp = "Ok {| x_ret := %s; x_peak := %s; x_json := %s |}" % (
                C.lst(C.q(fr(x)) for x in ret), "None" if r["peak_power_in_windows"] is None else "(Some %s)" % C.q(r["peak_power_in_windows"]),
                C.lst(C.q(fr(x)) for x in js))
        return "{| cc_sheet := %s; cc_inp := %s; cc_exp := %s |}" % (sheet, inp, exp)

    # ---- property on implementation behaviour
    def check_property(self, case, out):
        v = []
        if "err" in out:
            return v
        d = "cc=%s level=%s fee=%s n=%d minutes=%s pv=%s supply=%s..." % (case["cc"], case["level"], case["fee"], case["n"], case["minutes"], case["pv"], case["supply"][:4])
        iv = self.interval(case)
        hrs = F(iv.total_seconds()) / 3600
        sup = [max(-F(x), 0) for x in case["supply"]]
        E = sum(sup) * hrs
        fy_ideal = F(case["n"]) * F(iv.total_seconds()) / (365 * 86400)
        sh = case["sheet"]
        j = out["json"]
        py, sim = j["per year"], j["for simulation period"]
        tol = F(6, 1000)
        # energy-proportional terms
        for name, rate in (("chp levy", sh["levies"]["chp_levy"]), ("EEG levy", sh["levies"]["EEG_levy"]), ("Offshore levy", sh["levies"]["offshore_levy"])):
            if abs(fr(sim["levies"][name]) - F(rate) * E / 100) > tol:
                v.append(("C12/energy-proportional", "%s sim %s != rate*E/100 = %s: %s" % (name, sim["levies"][name], float(F(rate) * E / 100), d)))
            if abs(fr(py["levies"][name]) - F(rate) * E / 100 / fy_ideal) > tol + abs(F(rate) * E / fy_ideal) * F(1, 10**12):
                v.append(("C12/annualisation", "%s per year %s != sim/fraction_year: %s" % (name, py["levies"][name], d)))
        for name, rate, key in (("concession fee", sh["concession_fee"]["charge"], "concession fee"),):
            if abs(fr(sim[key]) - F(rate) * E / 100) > tol:
                v.append(("C12/energy-proportional", "%s sim %s != rate*E/100: %s" % (name, sim[key], d)))
        if abs(fr(sim["taxes"]["tax on electricity"]) - F(sh["taxes"]["tax_on_electricity"]) * E / 100) > tol:
            v.append(("C12/energy-proportional", "electricity tax: %s" % d))
        # VAT on the net sum; feed-in subtracted (reconstructed from the rounded breakdown: 9 rounded terms)
        if not case["cc"].startswith("variable") or True:
            net = (fr(sim["grid fee"]["commodity costs"]["total costs"]) + fr(out["ret"]["capacity_costs_eur"]) + fr(sim["power procurement"])
                   + fr(sim["grid fee"]["additional costs"]) + sum(fr(x) for x in sim["levies"].values()) + fr(sim["concession fee"])
                   + fr(sim["taxes"]["tax on electricity"]))
            gross = net * (1 + F(sh["taxes"]["value_added_tax"]) / 100) - sum(fr(x) for x in sim["feed-in remuneration"].values())
            if abs(gross - fr(sim["total (gross)"])) > F(12, 100):
                v.append(("C12/composition", "total (gross) sim %s != net*(1+VAT) - feed-in = %s: %s" % (sim["total (gross)"], float(gross), d)))
        # tariff class for the plain fixed scheme
        if case["cc"] == "fixed_wo_plw":
            E_pa = E / fy_ideal
            mx = max(sup + [F(0)])
            slp = (abs(E_pa) <= 100000) and case["fee"] != "RLM"
            near = abs(abs(E_pa) - 100000) < 1 or (mx > 0 and abs(abs(E_pa / mx) - 2500) < F(1, 100))
            if not near:
                if slp:
                    want = F(sh["grid_fee"]["SLP"]["basic_charge_EUR/a"]["net_price"])
                else:
                    key = "<2500_h/a" if (mx == 0 or abs(E_pa / mx) < 2500) else ">=2500_h/a"
                    want = F(sh["grid_fee"]["RLM"][key]["capacity_charge_EUR/kW*a"][case["level"]]) * mx
                if abs(fr(out["ret"]["capacity_costs_eur"]) - want) > tol:
                    v.append(("C12/tariff-class", "capacity/basic costs %s, expected %s (SLP=%s): %s" % (out["ret"]["capacity_costs_eur"], float(want), slp, d)))
        # repeating the profile / halving every step leaves annual values unchanged.  Not evaluated within 1e-9 (relative)
        # of a bracket boundary: fraction_year is computed in floats, one ulp decides the bracket there.
        E_pa_ = E / fy_ideal
        mx_ = max(sup + [F(0)])
        fixs = [max(F(x), 0) for x in case["fix"]]
        Ef_pa = sum(fixs) * hrs / fy_ideal
        mf_ = max(fixs + [F(0)])
        def close(a, b_):
            return abs(a - b_) <= abs(b_) * F(1, 10**9)
        at_boundary = close(abs(E_pa_), 100000) or (mx_ > 0 and close(abs(E_pa_ / mx_), 2500)) or close(abs(Ef_pa), 100000) or \
            (mf_ > 0 and close(abs(Ef_pa / mf_), 2500))
        for how in (() if at_boundary else ("repeat", "halve")):
            o2 = out.get(how)
            if not o2 or "err" in o2:
                if o2:
                    v.append(("C12/" + how, "transformed input raised %s: %s" % (o2.get("exc"), d)))
                continue
            for k in ("total_costs_per_year", "commodity_costs_eur_per_year", "capacity_costs_eur", "power_procurement_costs_per_year",
                      "levies_fees_and_taxes_per_year", "feed_in_remuneration_per_year"):
                a, b_ = out["ret"][k], o2["ret"][k]
                if abs(a - b_) > F(5, 100) + abs(a) * F(1, 10**9):
                    v.append(("C12/" + how, "%s changes from %s to %s when the profile is %s: %s" % (k, float(a), float(b_), how + "d", d)))
                    break
        return v[:3]


UNIT = CostUnit()
TRUSTED = ["harness: price sheet written to a temp JSON file; spice_ev.costs.json.dump replaced by a capture so that the 'costs' section is compared",
           "float-computed inputs (interval seconds/3600, fraction of a year) enter the model with the double's exact value; the ideal "
           "fraction differs by <= 1 ulp"]
RULE = ("random series of 4-96 steps of 5-60 min, scales 50 W .. 3 MW (flat, peaky, random, zero, and profiles placed at the 100 MWh/a and "
        "2500 h/a boundaries), optional feed-in steps, fixed load, generation/V2G/battery feed-in, window and schedule series, price lists/"
        "dicts, all seven schemes x five voltage levels x fee None/SLP/RLM x PV sizes incl. bracket edges and beyond, perturbed price sheets; "
        "each case also run with the profile repeated 3x and with every step halved; non-trivial = distinct case that returns costs")


def run(tier):
    UNIT.relational = True
    return corr.standard_run("C12", tier, [UNIT], 350, 4000, TRUSTED, RULE)


def replay(payload):
    case = payload["input"]["case"]
    out = UNIT.run_impl(case)
    v = UNIT.check_property(case, out)
    for cls, what in v:
        print("VIOLATION-REPLAY %s: %s" % (cls, what[:800]))
    print("replay: %d violation(s)" % len(v))
    return 1 if v else 0
