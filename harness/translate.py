#!/usr/bin/env python3
"""T1 — fail-closed translator from straight-line Python kernels of /repo to Gallina.

Regenerates /verif/coq/generated/Src.v on every run from /repo's current sources (Python `ast`).  Each translated
function f becomes `f_src`, generic in the number class; theories/Tie.v proves `f_src = <hand model>` by
reflexivity, so a change of the source text that changes the function breaks a proof obligation of the properties
built on that kernel.  Supported subset: assignments, augmented assignments, if/else whose branches assign the
same variables, return of an expression or a list, min/max of two arguments, + - *, unary minus, comparisons,
and/or, integer constants, attribute paths listed in the spec, and round(e, places) (translated to e: the models
are unrounded).  Anything else: the function is emitted as a stub that cannot match the hand model (fail closed),
with the reason in a comment."""
import ast
import os
import sys

VERIF = os.path.dirname(os.path.dirname(os.path.abspath(__file__)))
REPO = os.environ.get("VERIF_REPO", "/repo")
OUT = os.path.join(VERIF, "coq", "generated", "Src.v")

# function -> (file, parameter list in Coq order: python expression -> Coq name, ignored parameters, result arity)
SPEC = {
    "clamp_power": ("spice_ev/util.py",
                    [("power", "power"), ("cs.current_power", "cs_cur"), ("cs.max_power", "cs_max"), ("cs.min_power", "cs_min"),
                     ("vehicle.vehicle_type.min_charging_power", "veh_min")], ["vehicle", "cs"]),
    "split_feedin": ("spice_ev/report.py",
                     [("grid", "grid"), ("generation", "generation"), ("cs_sum", "cs_sum")], ["round_to_places"]),
}


class Unsupported(Exception):
    pass


def path_of(node):
    if isinstance(node, ast.Name):
        return node.id
    if isinstance(node, ast.Attribute):
        return path_of(node.value) + "." + node.attr
    raise Unsupported("expression %s" % ast.dump(node)[:60])


class Tr:
    def __init__(self, params, ignored):
        self.env = {py: coq for py, coq in params}     # python path -> Coq variable
        self.ignored = set(ignored)
        self.fresh = 0

    def expr(self, e):
        if isinstance(e, ast.Constant):
            if isinstance(e.value, bool) or not isinstance(e.value, int):
                raise Unsupported("constant %r" % (e.value,))
            return "zero" if e.value == 0 else "one" if e.value == 1 else "(nofQ (%d#1))" % e.value
        if isinstance(e, (ast.Name, ast.Attribute)):
            p = path_of(e)
            if p in self.env:
                return self.env[p]
            raise Unsupported("free name %s" % p)
        if isinstance(e, ast.UnaryOp) and isinstance(e.op, ast.USub):
            return "(nneg %s)" % self.expr(e.operand)
        if isinstance(e, ast.BinOp):
            op = {ast.Add: "nadd", ast.Sub: "nsub", ast.Mult: "nmul"}.get(type(e.op))
            if op is None:
                raise Unsupported("operator %s" % type(e.op).__name__)
            return "(%s %s %s)" % (op, self.expr(e.left), self.expr(e.right))
        if isinstance(e, ast.Call) and isinstance(e.func, ast.Name):
            f = e.func.id
            if f in ("min", "max") and len(e.args) == 2 and not e.keywords:
                return "(%s %s %s)" % ("nmin" if f == "min" else "nmax", self.expr(e.args[0]), self.expr(e.args[1]))
            if f == "round" and len(e.args) == 2 and isinstance(e.args[1], ast.Name) and e.args[1].id in self.ignored:
                return self.expr(e.args[0])            # the models are unrounded
            raise Unsupported("call %s/%d" % (f, len(e.args)))
        raise Unsupported("expression %s" % type(e).__name__)

    def cond(self, e):
        if isinstance(e, ast.BoolOp):
            op = "orb" if isinstance(e.op, ast.Or) else "andb"
            out = self.cond(e.values[0])
            for v in e.values[1:]:
                out = "(%s %s %s)" % (op, out, self.cond(v))
            return out
        if isinstance(e, ast.Compare) and len(e.ops) == 1:
            a, b = self.expr(e.left), self.expr(e.comparators[0])
            t = type(e.ops[0])
            if t is ast.Lt:
                return "(nltb %s %s)" % (a, b)
            if t is ast.Gt:
                return "(nltb %s %s)" % (b, a)
            if t is ast.LtE:
                return "(nleb %s %s)" % (a, b)
            if t is ast.GtE:
                return "(nleb %s %s)" % (b, a)
        raise Unsupported("condition %s" % type(e).__name__)

    def assigned(self, stmts):
        out = []
        for s in stmts:
            if isinstance(s, ast.Assign) and len(s.targets) == 1 and isinstance(s.targets[0], ast.Name):
                n = s.targets[0].id
            elif isinstance(s, ast.AugAssign) and isinstance(s.target, ast.Name):
                n = s.target.id
            elif isinstance(s, ast.Expr) and isinstance(s.value, ast.Constant) and isinstance(s.value.value, str):
                continue
            else:
                raise Unsupported("statement %s in a branch" % type(s).__name__)
            if n not in out:
                out.append(n)
        return out

    def bind(self, name):
        """a python variable (re)bound here: Coq name = python name (shadowing mirrors rebinding)"""
        self.env[name] = name
        return name

    def block(self, stmts, tail):
        """translate statements followed by `tail` (a function returning the Coq text of the continuation)"""
        if not stmts:
            return tail()
        s, rest = stmts[0], stmts[1:]
        if isinstance(s, ast.Expr) and isinstance(s.value, ast.Constant) and isinstance(s.value.value, str):
            return self.block(rest, tail)              # docstring
        if isinstance(s, ast.Assign) and len(s.targets) == 1 and isinstance(s.targets[0], ast.Name):
            rhs = self.expr(s.value)
            n = self.bind(s.targets[0].id)
            return "let %s := %s in\n  %s" % (n, rhs, self.block(rest, tail))
        if isinstance(s, ast.AugAssign) and isinstance(s.target, ast.Name):
            op = {ast.Add: "nadd", ast.Sub: "nsub", ast.Mult: "nmul"}.get(type(s.op))
            if op is None or s.target.id not in self.env:
                raise Unsupported("augmented assignment")
            rhs = "(%s %s %s)" % (op, self.env[s.target.id], self.expr(s.value))
            n = self.bind(s.target.id)
            return "let %s := %s in\n  %s" % (n, rhs, self.block(rest, tail))
        if isinstance(s, ast.If):
            va, vb = self.assigned(s.body), self.assigned(s.orelse)
            if va != vb or len(va) != 1 or not s.orelse:
                raise Unsupported("if/else must assign the same single variable in both branches")
            c = self.cond(s.test)
            saved = dict(self.env)
            v = va[0]
            ta = self.block(s.body, lambda: self.env[v])
            self.env = dict(saved)
            tb = self.block(s.orelse, lambda: self.env[v])
            self.env = dict(saved)
            n = self.bind(v)
            return "let %s := (if %s then %s else %s) in\n  %s" % (n, c, ta, tb, self.block(rest, tail))
        if isinstance(s, ast.Return):
            if rest:
                raise Unsupported("code after return")
            if isinstance(s.value, (ast.List, ast.Tuple)):
                parts = [self.expr(x) for x in s.value.elts]
                out = parts[0]
                for p in parts[1:]:
                    out = "(%s, %s)" % (out, p)
                return out
            return self.expr(s.value)
        raise Unsupported("statement %s" % type(s).__name__)


def translate(fname):
    rel, params, ignored = SPEC[fname]
    coq_params = " ".join(c for _, c in params)
    try:
        tree = ast.parse(open(os.path.join(REPO, rel)).read())
        fn = next((n for n in ast.walk(tree) if isinstance(n, ast.FunctionDef) and n.name == fname), None)
        if fn is None:
            raise Unsupported("function %s not found in %s" % (fname, rel))
        args = [a.arg for a in fn.args.args]
        for a in args:
            if a not in ignored and not any(p == a or p.startswith(a + ".") for p, _ in params):
                raise Unsupported("unexpected parameter %s" % a)
        tr = Tr(params, ignored)
        body = tr.block(fn.body, lambda: (_ for _ in ()).throw(Unsupported("missing return")))
        return "(* %s: %s, translated *)\nDefinition %s_src (%s : T) :=\n  %s.\n" % (rel, fname, fname, coq_params, body), None
    except (Unsupported, OSError, SyntaxError) as e:
        # fail closed: a definition of another type cannot be proved equal to the hand model
        return ("(* %s: %s — TRANSLATION FAILED: %s *)\nDefinition %s_src (%s : T) : unit := tt.\n"
                % (rel, fname, str(e).replace("*)", "* )"), fname, coq_params)), str(e)


def main():
    parts = ["(* GENERATED by harness/translate.py from %s on every run — do not edit. *)\n"
             "From Coq Require Import QArith Bool.\nFrom SV Require Import Num.\nSection Src.\nContext {T} {N: Num T}.\n" % REPO]
    failed = []
    for f in sorted(SPEC):
        txt, err = translate(f)
        parts.append(txt)
        if err:
            failed.append("%s: %s" % (f, err))
    parts.append("End Src.\n")
    new = "\n".join(parts)
    os.makedirs(os.path.dirname(OUT), exist_ok=True)
    old = open(OUT).read() if os.path.exists(OUT) else None
    if old != new:
        with open(OUT, "w") as fh:
            fh.write(new)
    for f in failed:
        print("translate.py: FAILED (stub emitted) " + f)
    return 0


if __name__ == "__main__":
    sys.exit(main())
