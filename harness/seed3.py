#!/usr/bin/env python3
"""seed3.py <PID> <seeddir> <worktree> [check-pids...]
Confirms a seeded change in a scratch worktree (demo passes unpatched / fails patched, test suite passes patched),
runs the quick check(s) against the patched worktree in a private copy of /verif (seedpar.sh: /repo is not touched),
files the seed under /verif/seeded/<PID>-s<N>/ with meta.json."""
import json
import os
import re
import shutil
import subprocess
import sys

pid, sd, wt = sys.argv[1:4]
checks = sys.argv[4:] or [pid]


def sh(cmd, **kw):
    p = subprocess.run(cmd, shell=True, stdout=subprocess.PIPE, stderr=subprocess.STDOUT, text=True, **kw)
    return p.returncode, p.stdout


env = dict(os.environ, PYTHONPATH=wt, PYTHONHASHSEED="0", PYTHONDONTWRITEBYTECODE="1")
sh("git checkout -q -- . && git clean -fdq", cwd=wt)
d0, _ = sh("timeout 600 /venv/bin/python %s/demo.py" % sd, cwd=wt, env=env)
rc, out = sh("git apply %s/patch.diff" % sd, cwd=wt)
if rc:
    print("patch does not apply", out)
    sys.exit(2)
d1, _ = sh("timeout 600 /venv/bin/python %s/demo.py" % sd, cwd=wt, env=env)
_, t = sh("/venv/bin/python -m pytest -q -p no:cacheprovider --timeout=900 2>&1 | tail -1", cwd=wt, env=env)
t = t.strip()
det = []
logs = {}
for c in checks:
    _, o = sh("KEEP_REPLAY=1 /verif/harness/seedpar.sh %s %s quick" % (c, wt))
    logs[c] = o
    det += sorted(set(re.findall(r"VIOLATION property=C\d+", o)))
    if det:
        break
sh("git checkout -q -- . && git clean -fdq", cwd=wt)
ok = d0 == 0 and d1 != 0 and re.search(r"\b89 passed", t) and "failed" not in t
n = 1
while os.path.exists("/verif/seeded/%s-s%d" % (pid, n)):
    n += 1
sid = "%s-s%d" % (pid, n)
print(sid if ok else "(not confirmed)", "demo", d0, d1, "|", t, "| detected:", det)
for c, o in logs.items():
    print("  [%s]" % c, " / ".join(l[:200] for l in o.strip().splitlines()[-4:]))
if ok:
    dst = "/verif/seeded/" + sid
    os.makedirs(dst)
    for f in ("patch.diff", "demo.py", "notes.txt"):
        if os.path.exists(os.path.join(sd, f)):
            shutil.copy(os.path.join(sd, f), dst)
    notes = open(os.path.join(sd, "notes.txt")).read().strip() if os.path.exists(os.path.join(sd, "notes.txt")) else ""
    json.dump({"property": pid, "breaks": notes, "needs_to_manifest": "see notes.txt", "round": int(os.environ.get("SEED_ROUND", "3")),
               "confirmed": {"demo_exit_unpatched": d0, "demo_exit_patched": d1, "test_suite_with_patch": t},
               "ran": ["git apply patch.diff in a scratch worktree; demo.py; full pytest",
                       "harness/seedpar.sh: ./check %s --tier quick in a private copy of /verif with VERIF_REPO=<patched worktree>"
                       % ",".join(checks)],
               "detected_by_quick_check": bool(det), "detected_as": " ".join(det)},
              open(os.path.join(dst, "meta.json"), "w"), indent=1)
