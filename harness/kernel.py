"""Correspondence unit for the small kernels (clamp_power, get_cost, apply_battery_losses)."""
from fractions import Fraction as F
from types import SimpleNamespace as NS

import common as C
import corr
from ex import Ex, fr


class KernelUnit(corr.Unit):
    name = "kernel"
    header = ("From Coq Require Import ZArith QArith List Bool.\nFrom SV Require Import Num Kernel KernelRun.\n"
              "Import ListNotations.\nOpen Scope Q_scope.\n")
    casetype = "kcase"
    failing = "failing"
    tagfn = "tag"
    runfn = "run_kcase"
    trivial_tags = (None, 0)
    per_file = 400

    def generate(self, rng, n, biased=False):
        cases = []
        vals = [F(0), F(37, 10), F(11), F(22), F(1, 2), F(2), F(50), F(1, 5)]
        for _ in range(n):
            k = rng.choice(["clamp", "clamp", "clamp", "cost", "loss"])
            if k == "clamp":
                mx = rng.choice(vals[1:])
                cur = rng.choice([F(0), F(0), mx, mx / 2, mx + F(1, 10**6), F(rng.randint(0, 30))])
                p = rng.choice([F(0), mx, mx - cur, mx - cur + 1, F(rng.randint(-5, 60)), F(rng.random() * 30), rng.choice(vals)])
                mn = rng.choice([F(0), F(0), F(1, 5), F(2), cur + p, mx])
                vm = rng.choice([F(0), F(0), F(1, 2), F(2), cur + p])
                cases.append({"k": k, "a": [p, cur, mx, mn, vm]})
            elif k == "cost":
                x = rng.choice([F(1), F(0), F(rng.randint(-10, 100)), F(rng.random() * 50)])
                t = rng.choice(["fixed", "poly", "poly", "none"])
                if t == "fixed":
                    c = {"type": "fixed", "value": rng.choice([F(3, 10), F(0), F(-1, 10), F(5)])}
                elif t == "poly":
                    c = {"type": "polynomial", "value": [rng.choice([F(0), F(1, 10), F(3), F(-2)]) for _ in range(rng.randint(0, 4))]}
                else:
                    c = {}
                cases.append({"k": k, "x": x, "c": c})
            else:
                cases.append({"k": k, "a": [rng.choice([F(0), F(1, 2), F(1), F(1, 1000), F(rng.random())]),
                                            rng.choice([F(50), F(1, 2), F(2**64), F(0)]),
                                            rng.choice([F(0), F(1), F(1, 10), F(100), F(150)]),
                                            rng.choice([F(0), F(1, 10), F(1)]), rng.choice([F(0), F(1, 100), F(5)])]})
        return cases

    def run_impl(self, case):
        from spice_ev import util
        from spice_ev.strategy import Strategy
        try:
            if case["k"] == "clamp":
                p, cur, mx, mn, vm = [Ex(x) for x in case["a"]]
                r = util.clamp_power(p, NS(vehicle_type=NS(min_charging_power=vm)), NS(current_power=cur, max_power=mx, min_power=mn))
            elif case["k"] == "cost":
                c = dict(case["c"])
                if "value" in c:
                    c["value"] = [Ex(v) for v in c["value"]] if isinstance(c["value"], list) else Ex(c["value"])
                r = util.get_cost(Ex(case["x"]), c)
            else:
                soc, cap, rel, fr_, fa = [Ex(x) for x in case["a"]]
                b = NS(loss_rate={"relative": rel, "fixed_relative": fr_, "fixed_absolute": fa}, soc=soc, capacity=cap)
                Strategy.apply_battery_losses(NS(world_state=NS(batteries={"b": b}, vehicles={})))
                r = b.soc
            return {"ok": fr(r)}
        except Exception as e:  # noqa
            return {"err": C.err(e)}

    def emit(self, case, out):
        if case["k"] == "clamp":
            op = "KClamp " + " ".join(C.q(x) for x in case["a"])
        elif case["k"] == "cost":
            c = case["c"]
            if not c:
                co = "CNone"
            elif c["type"] == "fixed":
                co = "(CFixed %s)" % C.q(c["value"])
            else:
                co = "(CPoly %s)" % C.lst(C.q(v) for v in c["value"])
            op = "KCost %s %s" % (C.q(case["x"]), co)
        else:
            op = "KLoss " + " ".join(C.q(x) for x in case["a"])
        return "{| k_op := %s; k_exp := %s |}" % (op, "Ok %s" % C.q(out["ok"]) if "ok" in out else "Err %s" % out["err"])

    def check_property(self, case, out):
        v = []
        if case["k"] == "clamp" and "ok" in out:
            p, cur, mx, mn, vm = case["a"]
            r = out["ok"]
            d = "clamp_power(power=%s, cs.current=%s, cs.max=%s, cs.min=%s, vehicle.min=%s) = %s" % (p, cur, mx, mn, vm, r)
            if r < 0 or r > max(mx - cur, 0) or (p >= 0 and r > p):
                v.append(("C05/clamp-bounds", d))
            if r > 0 and (cur + r < mn or cur + r < vm):
                v.append(("C05/clamp-min-power", d))
        if case["k"] == "loss" and "ok" in out:
            soc, cap, rel, fr_, fa = case["a"]
            if cap > 0 and soc >= 0 and rel <= 100 and not (0 <= out["ok"] <= soc):
                v.append(("C06/losses", "apply_battery_losses: soc %s -> %s (cap %s rates %s %s %s)" % (soc, out["ok"], cap, rel, fr_, fa)))
        return v


UNIT = KernelUnit()
