"""C17 — see props/C17.v; run-loop correspondence + predicates on recorded exact runs of all strategies."""
import kernel
import sim


def zero_length(rep, tier, sd):
    """a scenario with zero (and one) intervals and a grid connector, all reports requested (plain floats): the run ends
    without exception, reports 0 (1) steps and writes files with that many rows"""
    import contextlib
    import csv
    import io
    import json
    import os
    import random
    import shutil
    import tempfile
    import warnings
    import common as C
    import scen
    C.setup_repo_path()
    from spice_ev.scenario import Scenario
    rng = random.Random("c17/zero/%d" % sd)
    n = 0
    for k in range(4 if tier == "quick" else 30):
        nint = rng.choice([0, 0, 1])
        strategy = rng.choice(["greedy", "balanced", "balanced_market", "peak_shaving"])
        js = scen.gen_scenario(rng, n_gc=rng.choice([1, 2]), n_veh=rng.choice([0, 1, 2]), features=set(rng.sample(["fixed", "generation", "battery"], 2)),
                               steps=4, interval=rng.choice([15, 60]))
        js.pop("_features", None)
        js["scenario"]["n_intervals"] = nint
        tmp = tempfile.mkdtemp(prefix="verif_c17z_")
        n += 1
        try:
            with warnings.catch_warnings(), contextlib.redirect_stdout(io.StringIO()):
                warnings.simplefilter("ignore")
                s = Scenario(js, tmp)
                try:
                    s.run(strategy, {"save_results": os.path.join(tmp, "r.json"), "save_timeseries": os.path.join(tmp, "t.csv"),
                                     "save_soc": os.path.join(tmp, "s.csv"), "ALLOW_NEGATIVE_SOC": True})
                except Exception as e:  # noqa
                    rep.add_violation("C17/crash-zero-length", "%s on a scenario with n_intervals=%d (reports requested) raised %r" % (strategy, nint, e),
                                      {"unit": "zero", "case": {"js": js, "strategy": strategy}})
                    continue
            if s.step_i != nint:
                rep.add_violation("C17/steps", "%s: n_intervals=%d but step_i=%d" % (strategy, nint, s.step_i), {"unit": "zero", "case": {"js": js, "strategy": strategy}})
            for fn in os.listdir(tmp):
                if fn.startswith("t") and fn.endswith(".csv"):
                    rows = list(csv.reader(open(os.path.join(tmp, fn))))
                    if len(rows) != nint + 1:
                        rep.add_violation("C17/report-files", "%s: %s has %d data rows for %d steps" % (strategy, fn, len(rows) - 1, nint),
                                          {"unit": "zero", "case": {"js": js, "strategy": strategy}})
        finally:
            shutil.rmtree(tmp, ignore_errors=True)
    rep.cov["evaluations"] += n
    rep.notes["zero_length_runs"] = n


def run(tier):
    # "fails loudly": the error paths of the event handling (negative SoC, unknown vehicle, ...) are part of the events model,
    # so its correspondence unit belongs to this check too (round-3 seed C17-s8)
    import c07
    return sim.sim_run("C17", tier, sim.check_c17, inject=True, extra_units=[c07.UNIT], n_kernel=(300, 3000), extra=zero_length)


def replay(payload):
    if payload["input"].get("unit") == "zero":
        import common as C
        rep = C.Report("C17", "quick")
        zero_length(rep, "quick", C.seed())
        return 1 if rep.violations else 0
    if payload["input"].get("unit") in ("events", "weekly"):
        import c07
        return c07.replay(payload)
    if payload["input"].get("unit") == "kernel":
        out = kernel.UNIT.run_impl(payload["input"]["case"])
        v = kernel.UNIT.check_property(payload["input"]["case"], out)
        print("replay: %d violation(s) %s" % (len(v), v))
        return 1 if v else 0
    return sim.sim_replay(payload, sim.check_c17)
