"""C17 — see props/C17.v; run-loop correspondence + predicates on recorded exact runs of all strategies."""
import kernel
import sim


def run(tier):
    return sim.sim_run("C17", tier, sim.check_c17, inject=True, extra_units=[])


def replay(payload):
    if payload["input"].get("unit") == "kernel":
        out = kernel.UNIT.run_impl(payload["input"]["case"])
        v = kernel.UNIT.check_property(payload["input"]["case"], out)
        print("replay: %d violation(s) %s" % (len(v), v))
        return 1 if v else 0
    return sim.sim_replay(payload, sim.check_c17)
