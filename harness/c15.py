"""C15 — time-window and core-standing-time membership."""
import datetime
import json
import os
import shutil
import tempfile
from types import SimpleNamespace

import common as C
import corr

LEVELS = ["HV", "HV/MV", "MV", "MV/LV", "LV"]
DAYUS = 86400 * 10**6


def abs_us(dt):
    return dt.toordinal() * DAYUS + ((dt.hour * 60 + dt.minute) * 60 + dt.second) * 10**6 + dt.microsecond


def tod_us(t):
    return ((t[0] * 60 + t[1]) * 60) * 10**6


def rnd_time(rng):
    q = rng.randrange(0, 96)
    return (q // 4, (q % 4) * 15)


def gen_seasons(rng):
    base = datetime.date(rng.choice([2022, 2023, 2024]), rng.choice([1, 3, 6, 12]), rng.choice([1, 15, 28]))
    seasons = []
    cur = base
    for i in range(rng.choice([1, 2, 2, 3, 4])):
        ln = rng.choice([0, 1, 30, 90])
        start = cur + datetime.timedelta(days=rng.choice([0, 0, 1, -2, 5]))
        end = start + datetime.timedelta(days=ln)
        wins = {}
        for lv in rng.sample(LEVELS, rng.randint(0, 5)):
            ws = []
            for _ in range(rng.choice([0, 1, 1, 2, 3])):
                a = rnd_time(rng)
                kind = rng.random()
                if kind < 0.15:
                    b_ = a                                   # empty
                elif kind < 0.3 and ws:
                    a = ws[-1][1]                            # adjacent to the previous window
                    b_ = rnd_time(rng)
                else:
                    b_ = rnd_time(rng)
                ws.append([a, b_])
            wins[lv] = ws
        s = {"name": "s%d" % i, "start": start, "end": end, "windows": wins}
        if rng.random() < 0.1:
            del s["windows"]
        seasons.append(s)
        cur = end + datetime.timedelta(days=1)
    rng.shuffle(seasons) if rng.random() < 0.3 else None
    return seasons


def gen_core(rng):
    r = rng.random()
    if r < 0.1:
        return None
    c = {}
    if rng.random() < 0.7:
        c["no_drive_days"] = rng.sample(range(7), rng.choice([0, 1, 2]))
    if rng.random() < 0.5:
        c["holidays"] = []
    if rng.random() < 0.8:
        c["times"] = [{"start": rnd_time(rng), "end": rnd_time(rng)} for _ in range(rng.choice([0, 1, 1, 2]))]
        if c["times"] and rng.random() < 0.2:
            c["times"][0]["end"] = c["times"][0]["start"]
    return c


def interesting_times(rng, seasons, core, n, all_minutes=False):
    days = set()
    for s in seasons:
        for d in (s["start"], s["end"]):
            for k in (-1, 0, 1):
                days.add(d + datetime.timedelta(days=k))
    days = sorted(days)
    edges = [(0, 0), (23, 59)]
    for s in seasons:
        for ws in s.get("windows", {}).values():
            for a, b_ in ws:
                edges += [a, b_]
    for w in (core or {}).get("times", []):
        edges += [w["start"], w["end"]]
    out = []
    if all_minutes:
        for d in rng.sample(days, min(len(days), all_minutes)):
            for m in range(1440):
                out.append(datetime.datetime(d.year, d.month, d.day, m // 60, m % 60))
        return out
    for _ in range(n):
        d = rng.choice(days)
        r = rng.random()
        if r < 0.5:
            h, m = rng.choice(edges)
            dt = datetime.datetime(d.year, d.month, d.day, h, m)
            dt += datetime.timedelta(microseconds=rng.choice([0, 0, 0, -1, 1, 59999999, -60000000]))
        else:
            dt = datetime.datetime(d.year, d.month, d.day, rng.randrange(24), rng.randrange(60),
                                   rng.choice([0, 0, 30]), rng.choice([0, 0, 500000]))
        out.append(dt)
    return out


class WinUnit(corr.Unit):
    name = "windows"
    header = ("From Coq Require Import ZArith List Bool.\nFrom SV Require Import Windows WindowsRun.\n"
              "Import ListNotations.\nOpen Scope Z_scope.\n")
    casetype = "wcase"
    failing = "failing"
    tagfn = "tag"
    runfn = "run_wcase"
    trivial_tags = (None, 0)
    per_file = 60
    minutes_cases = 1

    def generate(self, rng, n, biased=False):
        cases = []
        for i in range(n):
            seasons = gen_seasons(rng)
            core = gen_core(rng)
            if core is not None and "holidays" in core:
                ds = [s["start"] for s in seasons] + [s["end"] for s in seasons]
                core["holidays"] = [rng.choice(ds).isoformat() for _ in range(rng.choice([0, 1, 2]))]
            lvl = rng.choice(LEVELS)
            allm = 2 if i < self.minutes_cases else False
            ts = interesting_times(rng, seasons, core, rng.choice([6, 12, 24]), all_minutes=allm)
            series = None
            if rng.random() < 0.5 and all("windows" in s for s in seasons):
                d0 = rng.choice([s["start"] for s in seasons]) - datetime.timedelta(days=rng.choice([0, 1]))
                start = datetime.datetime(d0.year, d0.month, d0.day, rng.randrange(24), rng.choice([0, 15, 7]))
                mins = rng.choice([5, 15, 60, 60, 7])
                stop = start + datetime.timedelta(minutes=rng.choice([0, mins * 3, mins * 100 + 1, 1440 * 2, -30]))
                series = [start, stop, mins]
            cases.append({"seasons": [{**s, "start": s["start"].isoformat(), "end": s["end"].isoformat()} for s in seasons],
                          "core": core, "lvl": lvl, "ts": [t.isoformat() for t in ts],
                          "series": None if series is None else [series[0].isoformat(), series[1].isoformat(), series[2]]})
        return cases

    # ---- implementation
    def run_impl(self, case):
        from spice_ev import util
        tw = {}
        for s in case["seasons"]:
            d = {"start": datetime.date.fromisoformat(s["start"]), "end": datetime.date.fromisoformat(s["end"])}
            if "windows" in s:
                d["windows"] = {lv: [(datetime.time(*a), datetime.time(*b_)) for a, b_ in ws] for lv, ws in s["windows"].items()}
            tw[s["name"]] = d
        ts = [datetime.datetime.fromisoformat(t) for t in case["ts"]]
        win = [bool(util.datetime_within_time_window(t, tw, case["lvl"])) for t in ts]
        core = [bool(util.dt_within_core_standing_time(t, case["core"])) for t in ts]
        series = []
        if case["series"]:
            tmp = tempfile.mkdtemp(prefix="verif_c15_")
            try:
                js = {"op": {s["name"]: {"start": s["start"], "end": s["end"],
                                         "windows": {lv: [["%02d:%02d" % tuple(a), "%02d:%02d" % tuple(b_)] for a, b_ in ws]
                                                     for lv, ws in s["windows"].items()}} for s in case["seasons"]}}
                p = os.path.join(tmp, "tw.json")
                json.dump(js, open(p, "w"))
                sc = SimpleNamespace(start_time=datetime.datetime.fromisoformat(case["series"][0]),
                                     stop_time=datetime.datetime.fromisoformat(case["series"][1]),
                                     interval=datetime.timedelta(minutes=case["series"][2]))
                series = [bool(x) for x in util.get_time_windows_from_json(p, "op", case["lvl"], sc)]
            finally:
                shutil.rmtree(tmp, ignore_errors=True)
        return {"win": win, "core": core, "series": series}

    # ---- Coq
    def emit(self, case, out):
        def wl(ws):
            return C.lst("(%d, %d)" % (tod_us(a), tod_us(b_)) for a, b_ in ws)
        seasons = C.lst("{| s_first := %d; s_last := %d; s_wins := %s |}" % (
            datetime.date.fromisoformat(s["start"]).toordinal(), datetime.date.fromisoformat(s["end"]).toordinal(),
            C.lst("(%d%%nat, %s)" % (LEVELS.index(lv), wl(ws)) for lv, ws in s.get("windows", {}).items()))
            for s in case["seasons"])
        c = case["core"]
        if c is None:
            core = "None"
        else:
            core = "(Some {| c_nodrive := %s; c_holidays := %s; c_times := %s |})" % (
                C.lst(str(d) for d in c.get("no_drive_days", [])),
                C.lst(str(datetime.date.fromisoformat(h).toordinal()) for h in c.get("holidays", [])),
                C.lst("(%d, %d)" % (tod_us(w["start"]), tod_us(w["end"])) for w in c.get("times", [])))
        ts = C.lst(str(abs_us(datetime.datetime.fromisoformat(t))) for t in case["ts"])
        if case["series"]:
            a = abs_us(datetime.datetime.fromisoformat(case["series"][0]))
            b_ = abs_us(datetime.datetime.fromisoformat(case["series"][1]))
            ser = "(Some (%d, %d, %d))" % (a, b_, case["series"][2] * 60 * 10**6)
        else:
            ser = "None"
        return ("{| w_seasons := %s; w_lvl := %d%%nat; w_core := %s; w_ts := %s; w_exp_win := %s; w_exp_core := %s; "
                "w_series := %s; w_exp_series := %s |}") % (
            seasons, LEVELS.index(case["lvl"]), core, ts, C.lst(C.b(x) for x in out["win"]),
            C.lst(C.b(x) for x in out["core"]), ser, C.lst(C.b(x) for x in out["series"]))

    # ---- property, independent statement
    @staticmethod
    def spec_window(dt, seasons, lvl):
        for s in seasons:
            if datetime.date.fromisoformat(s["start"]) <= dt.date() <= datetime.date.fromisoformat(s["end"]):
                t = dt.time()
                for a, b_ in s.get("windows", {}).get(lvl, []):
                    a, b_ = datetime.time(*a), datetime.time(*b_)
                    if (a <= t < b_) if a <= b_ else (t >= a or t < b_):
                        return True
                return False
        return False

    @staticmethod
    def spec_core(dt, core):
        """the property text: at/after start and BEFORE end, wrapping over midnight"""
        if core is None:
            return True, False
        if dt.weekday() in core.get("no_drive_days", []) or dt.date().isoformat() in core.get("holidays", []):
            return True, False
        t = dt.time()
        res = False
        at_end = False
        for w in core.get("times", []):
            a, b_ = datetime.time(*w["start"]), datetime.time(*w["end"])
            if (a <= t < b_) if a <= b_ else (t >= a or t < b_):
                res = True
            if a <= b_ and t == b_:
                at_end = True
        return res, at_end

    def check_property(self, case, out):
        v = []
        ts = [datetime.datetime.fromisoformat(t) for t in case["ts"]]
        for t, w, c in zip(ts, out["win"], out["core"]):
            if w != self.spec_window(t, case["seasons"], case["lvl"]):
                v.append(("C15/window", "datetime_within_time_window(%s) = %s; seasons=%s level=%s" % (t, w, case["seasons"], case["lvl"])))
            sc, at_end = self.spec_core(t, case["core"])
            if c != sc:
                if c and at_end:
                    v.append(("C15/core-end-inclusive", "dt_within_core_standing_time(%s) is True at the end instant of a "
                              "non-wrapping window; core=%s" % (t, case["core"])))
                else:
                    v.append(("C15/core", "dt_within_core_standing_time(%s) = %s; core=%s" % (t, c, case["core"])))
        if case["series"]:
            start = datetime.datetime.fromisoformat(case["series"][0])
            stop = datetime.datetime.fromisoformat(case["series"][1])
            iv = datetime.timedelta(minutes=case["series"][2])
            want = []
            k = 0
            while start + k * iv < stop:
                want.append(self.spec_window(start + k * iv, case["seasons"], case["lvl"]))
                k += 1
            if want != out["series"]:
                v.append(("C15/series", "get_time_windows_from_json series differs from the predicate at step times: %s"
                          % case["series"]))
        return v[:4]


UNIT = WinUnit()
TRUSTED = ["Python datetime (date ordinal, weekday, time-of-day, ISO parsing) as calendar glue"]
RULE = ("random season lists (1-4 seasons, gaps/overlaps, shuffled order, missing level or windows key), 0-3 windows per level on a "
        "15-min grid incl. midnight-crossing, adjacent and empty ones; core standing configs (None, missing keys, no-drive days, "
        "holidays, wrapping and non-wrapping windows); timestamps at season boundaries +-1 day and at window edges +-1 us; the "
        "first cases enumerate EVERY minute of two boundary days; half of the cases also derive a per-step series; "
        "non-trivial = distinct case in which both truth values occur")


def consumers(rep, tier, sd):
    """the strategies' own uses of the predicates (implementation-level): Schedule.dt_to_end_of_time_window must be the first
    whole-minute offset at which the core-standing-time predicate (tied to the model above) is false"""
    import random
    C.setup_repo_path()
    from spice_ev import scenario, strategy, util
    rng = random.Random("c15/consumers/%d" % sd)
    n = 0
    minute = datetime.timedelta(minutes=1)
    for _ in range(6 if tier == "quick" else 60):
        interval = rng.choice([15, 15, 10, 60])
        start = datetime.datetime(2020, 1, rng.randint(1, 20), rng.choice([0, 6, 22]), 0, tzinfo=datetime.timezone(datetime.timedelta(hours=1)))
        js = {"scenario": {"start_time": start.isoformat(), "interval": interval, "n_intervals": 8},
              "components": {"vehicle_types": {}, "vehicles": {}, "charging_stations": {},
                             "grid_connectors": {"GC": {"max_power": 50, "cost": {"type": "fixed", "value": 0.3}}}},
              "events": {"grid_operator_signals": [], "fixed_load": {}, "vehicle_events": []}}
        cst = {"times": [{"start": [rng.randrange(24), rng.choice([0, 30, 45])], "end": [rng.randrange(24), rng.choice([0, 10, 20, 50, 7])]}
                         for _ in range(rng.choice([1, 1, 2]))],
               "no_drive_days": rng.sample(range(7), rng.choice([0, 1, 2]))}
        if rng.random() < 0.4:
            cst["holidays"] = [(start + datetime.timedelta(days=rng.randrange(0, 4))).date().isoformat()]
        s = scenario.Scenario(js)
        strat = strategy.class_from_str("schedule")(s.components, s.start_time, interval=s.interval, events=s.events,
                                                    core_standing_time=cst, LOAD_STRAT="collective")
        for step in rng.sample(range(96 * 3 * 15 // interval), 25):
            now = s.start_time + step * s.interval
            strat.current_time = now
            m = 0
            while util.dt_within_core_standing_time(now + m * minute, cst) and m < 20000:
                m += 1
            if m >= 20000:
                continue            # the configured times cover everything: the implementation's scan would not end (C17's business)
            got = strat.dt_to_end_of_time_window()
            n += 1
            if got != m * minute:
                rep.add_violation("C15/schedule-end-of-window",
                                  "Schedule.dt_to_end_of_time_window at %s (interval %d min) = %s, first minute outside the core standing time is +%d min; %r"
                                  % (now.isoformat(), interval, got, m, cst), {"unit": "consumers", "case": {"cst": cst, "now": now.isoformat(), "interval": interval}})
                break
    # peak_load_window: the window series reported per connector (Scenario.gcWindowSchedule) is the window predicate (tied to the
    # model above) of THAT connector's grid operator and voltage level at every step time; two connectors with the same voltage
    # level but different operators (round-3 seed C15-s6)
    import contextlib
    import io
    import json as json_
    import os
    import shutil
    import tempfile
    import warnings
    tmp = tempfile.mkdtemp(prefix="verif_c15w_")
    try:
        for k in range(3 if tier == "quick" else 20):
            interval = rng.choice([15, 30, 60])
            nint = rng.choice([24, 48])
            start = datetime.datetime(2020, rng.choice([1, 3]), rng.randint(1, 20), rng.choice([0, 6, 22]), 0,
                                      tzinfo=datetime.timezone(datetime.timedelta(hours=1)))

            def seasons():
                h1 = rng.randrange(0, 20)
                return {"s1": {"start": "2020-01-01", "end": "2020-02-%02d" % rng.randint(10, 28),
                               "windows": {"MV": [["%02d:00" % h1, "%02d:%02d" % (h1 + rng.randint(1, 3), rng.choice([0, 30]))]],
                                           "HV": [["12:00", "13:00"]]}},
                        "s2": {"start": "2020-03-01", "end": "2020-12-31",
                               "windows": {"MV": [["%02d:00" % rng.randrange(0, 11), "%02d:00" % rng.randrange(12, 23)]]}}}
            tw = {"op_a": seasons(), "op_b": seasons()}
            twp = os.path.join(tmp, "tw%d.json" % k)
            json_.dump(tw, open(twp, "w"))
            comp = {"vehicle_types": {"t": {"name": "t", "capacity": 50, "charging_curve": [[0, 11], [1, 11]]}}, "vehicles": {},
                    "charging_stations": {}, "grid_connectors": {}, "batteries": {}, "photovoltaics": {}}
            for g, op in (("GC_a", "op_a"), ("GC_b", "op_b")):
                comp["grid_connectors"][g] = {"max_power": 100, "voltage_level": "MV", "grid_operator": op, "cost": {"type": "fixed", "value": 0.1}}
                comp["charging_stations"]["cs_" + g] = {"max_power": 11, "parent": g}
                comp["vehicles"]["v_" + g] = {"vehicle_type": "t", "soc": 0.3, "desired_soc": 0.9, "connected_charging_station": "cs_" + g,
                                              "estimated_time_of_departure": (start + datetime.timedelta(minutes=interval * (nint - 2))).isoformat()}
            js = {"scenario": {"start_time": start.isoformat(), "interval": interval, "n_intervals": nint}, "components": comp,
                  "events": {"grid_operator_signals": [], "fixed_load": {}, "local_generation": {}, "vehicle_events": []}}
            sobj = scenario.Scenario(js)
            with warnings.catch_warnings(), contextlib.redirect_stdout(io.StringIO()):
                warnings.simplefilter("ignore")
                sobj.run("peak_load_window", {"time_windows": twp, "skip_flex_report": True})
            raw = json_.load(open(twp))
            for g, op in (("GC_a", "op_a"), ("GC_b", "op_b")):
                seas = {}
                for sn, info in raw[op].items():
                    seas[sn] = {"start": datetime.date.fromisoformat(info["start"]), "end": datetime.date.fromisoformat(info["end"]),
                                "windows": {lv: [(datetime.time.fromisoformat(a), datetime.time.fromisoformat(b_)) for a, b_ in ws]
                                            for lv, ws in info["windows"].items()}}
                want = [util.datetime_within_time_window(sobj.start_time + i * sobj.interval, seas, "MV") for i in range(sobj.step_i)]
                got = list(sobj.gcWindowSchedule[g])[:sobj.step_i]
                n += len(want)
                if [bool(x) for x in got] != [bool(x) for x in want]:
                    bad = [i for i, (a, b_) in enumerate(zip(got, want)) if bool(a) != bool(b_)]
                    rep.add_violation("C15/plw-window-series", "peak_load_window: window series reported for %s (operator %s) differs from the window "
                                      "predicate of that operator at steps %s (of %d); windows %r; start %s interval %d"
                                      % (g, op, bad[:6], len(want), raw, start.isoformat(), interval),
                                      {"unit": "consumers", "case": {"js": js, "tw": raw}})
                    break
    finally:
        shutil.rmtree(tmp, ignore_errors=True)
    rep.cov["evaluations"] += n
    rep.notes["consumer_calls"] = n


def run(tier):
    UNIT.minutes_cases = 1 if tier == "quick" else 30
    return corr.standard_run("C15", tier, [UNIT], 500, 5000, TRUSTED, RULE, extra=consumers)


def replay(payload):
    case = payload["input"]["case"]
    out = UNIT.run_impl(case)
    v = UNIT.check_property(case, out)
    for cls, what in v:
        print("VIOLATION-REPLAY %s: %s" % (cls, what))
    print("replay: %d violation(s)" % len(v))
    return 1 if v else 0
