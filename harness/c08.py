"""C08 — vehicle trip state machine and negative-SoC policy (shares the Events unit with C07)."""
import c07


def run(tier):
    return c07.run(tier, "C08")


replay = c07.replay
