"""C08 — vehicle trip state machine and negative-SoC policy: the Events unit (shared with C07) plus the
simulation-level predicate on recorded exact runs."""
import c07
import sim


def run(tier):
    return sim.sim_run("C08", tier, sim.check_c08, inject=False, extra_units=[c07.UNIT], n_kernel=(500, 6000))


def replay(payload):
    if payload["input"].get("unit") == "events":
        return c07.replay(payload)
    return sim.sim_replay(payload, sim.check_c08)
